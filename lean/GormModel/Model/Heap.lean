/-
  C06 — Go slice semantics with explicit backing arrays, and gorm's handle / statement / clause
  merging / WHERE building on top of it.

  * `Slice = (arr, off, len, cap)`; heap `ArrId → initialised cells`; `append` writes IN PLACE iff
    `len + n ≤ cap` (else allocates a new array, new capacity from a growth oracle, always ≥ len+n);
    `make+copy`; element assignment.  Every write that hits a slot some slice may already expose
    (index < initialised length) bumps the ghost counter `writes` — the model still performs the write,
    exactly as Go does.
  * `Stmt`: the slice-carrying fields of gorm.Statement (statement.go) — `Clauses["WHERE"].Exprs`,
    `ORDER BY`.Columns, `GROUP BY`.Columns/Having, `RETURNING`.Columns, `Selects`, `Omits`, `Joins`,
    `scopes` — plus the scalars that show in the SQL.
  * `getInstance` (gorm.go, clone 0/1/2), `Session`/`WithContext`/`Begin`, `Statement.clone`: the per
    field copy discipline is READ from the regenerated `Gen.cloneLiteral` / `Gen.cloneLater`;
    `MergeClause` of Where/OrderBy/GroupBy/Returning: make+copy vs `append(old,…)` is READ from the
    regenerated `Gen.mergeFacts`.
  * `whereBuild` = clause/where.go `Where.Build` (And-unpack, the swap, `buildExprs`);
    `buildCondGroup` = statement.go `BuildCondition` case `*DB` (pending scopes of the ARGUMENT, the
    `where.Exprs[0] = AndConditions(…)` rewrite); `Select(callerSlice, …)`.  Whether these four places write
    IN PLACE into an array they share with a reusable handle / the caller, or work on a copy, is READ from
    the regenerated `Gen.groupArmElemAssigns`, `Gen.groupArmScopesRecv`, `Gen.whereBuildElemAssigns`,
    `Gen.selectArmStoresArg` (`AliasCfg`).
  * `History`: ops over a growing list of handles; `run` executes it and collects one rendering per
    `render` op.
-/
import GormModel.Core.Facts
import GormModel.Gen.CloneFacts
import GormModel.Gen.Misc
import GormModel.Gen.AliasFacts
namespace Gorm.Heap

/-! ## slices and heap -/

structure Slice where
  arr : Nat
  off : Nat
  len : Nat
  cap : Nat
deriving Repr, DecidableEq, Inhabited

/-- the nil slice (len 0, cap 0: every append allocates) -/
def Slice.nil : Slice := ⟨0, 0, 0, 0⟩

/-- one slot of a backing array.  `atom n` = an immutable leaf with identity `n` (clause.Expr,
    clause.Column, string, join, scope func); the three condition wrappers hold a SLICE, i.e. they alias
    whatever array their `Exprs` field points to (clause.AndConditions / OrConditions / NotConditions). -/
inductive Cell where
  | atom (n : Nat)
  | orc (s : Slice)
  | andc (s : Slice)
  | notc (s : Slice)
deriving Repr, DecidableEq, Inhabited

structure Heap where
  arrs : List (List Cell)   -- per backing array: its initialised slots (everything any slice exposes)
  writes : Nat              -- ghost: writes that hit an already initialised slot
deriving Repr, DecidableEq, Inhabited

def Heap.empty : Heap := ⟨[], 0⟩

def Heap.cells (H : Heap) (a : Nat) : List Cell := H.arrs.getD a []

/-- `s[0:len]` -/
def readS (H : Heap) (s : Slice) : List Cell := ((H.cells s.arr).drop s.off).take s.len

/-- `make([]T, len(cs), cap)` filled with `cs` -/
def alloc (H : Heap) (cs : List Cell) (cap : Nat) : Heap × Slice :=
  ({ H with arrs := H.arrs ++ [cs] }, ⟨H.arrs.length, 0, cs.length, max cap cs.length⟩)

/-- `arr[i] = c`.  Slot below the initialised length: overwrite (counted); at the frontier: extend. -/
def writeAt (H : Heap) (a i : Nat) (c : Cell) : Heap :=
  if i < (H.cells a).length then
    { arrs := H.arrs.set a ((H.cells a).set i c), writes := H.writes + 1 }
  else if i = (H.cells a).length ∧ a < H.arrs.length then
    { H with arrs := H.arrs.set a (H.cells a ++ [c]) }
  else { H with writes := H.writes + 1 }   -- unreachable for well-formed slices; counted, never silently ignored

def writeFrom (H : Heap) (a i : Nat) : List Cell → Heap
  | [] => H
  | c :: cs => writeFrom (writeAt H a i c) a (i + 1) cs

/-- Go's growth rule for small slices (runtime.growslice, cap < 256): double, or exactly what is needed. -/
def growCap (oldCap need : Nat) : Nat := if need > 2 * oldCap then need else 2 * oldCap

/-- `append(s, cs...)`: in place iff it fits, else a fresh array of capacity ≥ len+n -/
def appendS (H : Heap) (s : Slice) (cs : List Cell) : Heap × Slice :=
  if cs.isEmpty then (H, s)
  else if s.len + cs.length ≤ s.cap then
    (writeFrom H s.arr (s.off + s.len) cs, { s with len := s.len + cs.length })
  else alloc H (readS H s ++ cs) (growCap s.cap (s.len + cs.length))

/-- `c := make([]T, len(s)); copy(c, s)` -/
def makeCopy (H : Heap) (s : Slice) : Heap × Slice := alloc H (readS H s) 0

/-! ## statement -/

structure Stmt where
  wher : Option Slice := none              -- Clauses["WHERE"].(clause.Where).Exprs
  order : Option Slice := none             -- Clauses["ORDER BY"].(clause.OrderBy).Columns
  group : Option (Slice × Slice) := none   -- Clauses["GROUP BY"].(clause.GroupBy): Columns, Having
  ret : Option (Option Slice) := none      -- Clauses["RETURNING"]: `some none` = Columns == nil (RETURNING *)
  limit : Option (Option Nat × Nat) := none -- Clauses["LIMIT"]: (Limit, Offset)
  lock : Option Nat := none                -- Clauses["FOR"]
  selects : Slice := Slice.nil
  omits : Slice := Slice.nil
  joins : Slice := Slice.nil
  scopes : Slice := Slice.nil
  distinct : Bool := false
  unscoped : Bool := false
  table : Option Nat := none
deriving Repr, DecidableEq, Inhabited

structure Handle where
  st : Stmt
  clone : Nat
deriving Repr, DecidableEq, Inhabited

/-! ## copy discipline from the regenerated facts -/

inductive CopyKind where
  | shared | makeCopy | freshMapShallow | dropped
deriving Repr, DecidableEq

/-- how `Statement.clone()` treats field `f`, from `Gen.cloneLiteral` + `Gen.cloneLater` -/
def fieldKind (f : String) : CopyKind :=
  if Gen.cloneLater.contains (f, "makeCopy") then .makeCopy
  else if Gen.cloneLater.contains (f, "copyEntries") then
    (if Gen.cloneLiteral.contains (f, "map[string]clause.Clause{}") || Gen.cloneLiteral.contains (f, "map[string][]interface{}{}") then .freshMapShallow else .shared)
  else if Gen.cloneLiteral.contains (f, "stmt." ++ f) then .shared
  else .dropped

structure CloneCfg where
  clauses : CopyKind
  selects : CopyKind
  omits : CopyKind
  joins : CopyKind
  scopes : CopyKind
  clone2UsesClone : Bool
deriving Repr, DecidableEq

def genCfg : CloneCfg :=
  { clauses := fieldKind "Clauses", selects := fieldKind "Selects", omits := fieldKind "Omits",
    joins := fieldKind "Joins", scopes := fieldKind "scopes", clone2UsesClone := Gen.getInstanceClone2UsesClone }

inductive MergeKind where
  | makeCopy | appendOld | replace
deriving Repr, DecidableEq

/-- how `X.MergeClause` combines with the old expression's slice, from `Gen.mergeFacts` -/
def mergeKind (clause : String) : MergeKind :=
  match Gen.mergeFacts.find? (fun m => m.clause == clause) with
  | some m => if m.appendsOntoOld > 0 then .appendOld else if m.makes > 0 ∧ m.copies > 0 then .makeCopy else .replace
  | none => .replace

structure MergeCfg where
  wher : MergeKind
  order : MergeKind
  group : MergeKind
  ret : MergeKind
deriving Repr, DecidableEq

def genMerge : MergeCfg :=
  { wher := mergeKind "Where", order := mergeKind "OrderBy", group := mergeKind "GroupBy", ret := mergeKind "Returning" }

/-- the four places that (on the unchanged tree) write into a slice shared with a reusable handle or with
    the caller; `true` = the code works on a copy -/
structure AliasCfg where
  groupCopies : Bool      -- BuildCondition `case *DB`: no assignment to `where.Exprs[i]` (rewrites a copy)
  groupInstance : Bool    -- BuildCondition `case *DB`: executeScopes() runs on a copy of the argument, not on `v` itself
  buildCopies : Bool      -- Where.Build: no assignment to `where.Exprs[i]` (swaps on a copy)
  selectCopies : Bool     -- Select `case []string`: does not store the caller's slice itself
deriving Repr, DecidableEq

def genAlias : AliasCfg :=
  { groupCopies := Gen.groupArmElemAssigns == 0,
    groupInstance := !(Gen.groupArmScopesRecv.contains "v"),
    buildCopies := Gen.whereBuildElemAssigns == 0,
    selectCopies := Gen.selectArmStoresArg == 0 }

structure Cfg where
  cl : CloneCfg
  mg : MergeCfg
  fx : AliasCfg
deriving Repr, DecidableEq

def genAll : Cfg := ⟨genCfg, genMerge, genAlias⟩

/-! ## clone / getInstance / Session -/

/-- one slice field under `Statement.clone()` -/
def cloneField (k : CopyKind) (H : Heap) (s : Slice) : Heap × Slice :=
  match k with
  | .makeCopy => if s.len > 0 then makeCopy H s else (H, Slice.nil)   -- `if len(stmt.X) > 0 { make; copy }`
  | .dropped => (H, Slice.nil)
  | _ => (H, s)

/-- statement.go `clone()`.  `Clauses` is a fresh map with the old entries (the clause VALUES, hence the
    slices inside them, are shared); a `dropped` Clauses loses them. -/
def cloneStmt (c : CloneCfg) (H : Heap) (st : Stmt) : Heap × Stmt :=
  let (H1, j) := cloneField c.joins H st.joins
  let (H2, sc) := cloneField c.scopes H1 st.scopes
  let (H3, se) := cloneField c.selects H2 st.selects
  let (H4, om) := cloneField c.omits H3 st.omits
  let st' := { st with joins := j, scopes := sc, selects := se, omits := om }
  (H4, if c.clauses = .dropped then { st' with wher := none, order := none, group := none, ret := none, limit := none, lock := none } else st')

/-- gorm.go `getInstance()` -/
def getInstance (c : CloneCfg) (H : Heap) (h : Handle) : Heap × Handle :=
  if h.clone = 0 then (H, h)
  else if h.clone = 1 then (H, ⟨{}, 0⟩)
  else if c.clone2UsesClone then
    let (H', st) := cloneStmt c H h.st
    (H', ⟨st, 0⟩)
  else (H, ⟨h.st, 0⟩)

/-! ## MergeClause (clause/where.go, order_by.go, group_by.go, returning.go) -/

/-- merge `new` onto an existing slice `old` -/
def mergeSlices (k : MergeKind) (H : Heap) (old new : Slice) : Heap × Slice :=
  match k with
  | .makeCopy =>            -- c := make(len(old)); copy(c, old); append(c, new...)
    let (H1, c) := makeCopy H old
    appendS H1 c (readS H1 new)
  | .appendOld => appendS H old (readS H new)     -- append(old, new...)
  | .replace => (H, new)

/-- Where.MergeClause: `exprs := make(len(w)+len(new)); copy; copy` — one exact-size array -/
def mergeWhere (k : MergeKind) (H : Heap) (old : Option Slice) (new : Slice) : Heap × Slice :=
  match old with
  | none => (H, new)
  | some o =>
    match k with
    | .makeCopy => alloc H (readS H o ++ readS H new) 0
    | k => mergeSlices k H o new

def addWhere (m : MergeCfg) (H : Heap) (st : Stmt) (new : Slice) : Heap × Stmt :=
  let (H', s) := mergeWhere m.wher H st.wher new
  (H', { st with wher := some s })

def addOrder (m : MergeCfg) (H : Heap) (st : Stmt) (new : Slice) : Heap × Stmt :=
  match st.order with
  | none => (H, { st with order := some new })
  | some o => let (H', s) := mergeSlices m.order H o new; (H', { st with order := some s })

def addGroup (m : MergeCfg) (H : Heap) (st : Stmt) (cols having : Slice) : Heap × Stmt :=
  match st.group with
  | none => (H, { st with group := some (cols, having) })
  | some (oc, oh) =>
    let (H1, c) := mergeSlices m.group H oc cols
    let (H2, hv) := mergeSlices m.group H1 oh having
    (H2, { st with group := some (c, hv) })

/-- Returning.MergeClause: `if old is Returning && len(new.Columns) > 0 { if old.Columns != nil { merge } else { nil } }` -/
def addRet (m : MergeCfg) (H : Heap) (st : Stmt) (new : Option Slice) : Heap × Stmt :=
  match st.ret, new with
  | some (some o), some n =>
    if n.len > 0 then let (H', s) := mergeSlices m.ret H o n; (H', { st with ret := some (some s) })
    else (H, { st with ret := some new })
  | some none, some n => if n.len > 0 then (H, { st with ret := some none }) else (H, { st with ret := some new })
  | _, _ => (H, { st with ret := some new })

/-- Limit.MergeClause (non-negative inputs) -/
def addLimit (st : Stmt) (lim : Option Nat) (off : Nat) : Stmt :=
  match st.limit with
  | none => { st with limit := some (lim, off) }
  | some (ol, oo) =>
    let l := if (lim = none ∨ lim = some 0) ∧ ol ≠ none then ol else lim
    let o := if off = 0 ∧ oo > 0 then oo else off
    { st with limit := some (l, o) }

/-! ## conditions -/

/-- statement.go `BuildCondition` for a plain condition: `[]clause.Expression{clause.Expr{…}}` (len 1, cap 1) -/
def condAtom (H : Heap) (a : Nat) : Heap × Slice := alloc H [.atom a] 1

/-- `clause.And(exprs...)` on a slice -/
def andOf (H : Heap) (s : Slice) : Option Cell :=
  match readS H s with
  | [] => none
  | [c] => (match c with | .orc _ => some (.andc s) | c => some c)
  | _ => some (.andc s)

/-- statement.go `BuildCondition`, `case *DB`: `conds := make(0,4)`; the argument's WHERE — with the
    rewrite of a single Or into `clause.AndConditions(orConds)`: IN PLACE (`where.Exprs[0] = …`, the
    ARGUMENT's array) or on a fresh one-element slice (`copies`) — is added as `clause.And(where.Exprs...)`,
    i.e. aliasing the array it was read from. -/
def buildCondGroup (copies : Bool) (H : Heap) (arg : Stmt) : Heap × Slice :=
  match arg.wher with
  | none => alloc H [] 4
  | some w =>
    let p : Heap × Slice := match readS H w with
      | [.orc o] => if copies then alloc H [.andc o] 1 else (writeAt H w.arr w.off (.andc o), w)
      | _ => (H, w)
    match andOf p.1 p.2 with
    | none => alloc p.1 [] 4
    | some c => alloc p.1 [c] 4

/-- chainable_api.go Where / Or / Not from an already built `conds` slice -/
def wrapCond (H : Heap) (kind : Nat) (conds : Slice) : Heap × Option Slice :=
  if conds.len = 0 then (H, none)
  else if kind = 0 then (H, some conds)                       -- Where: clause.Where{Exprs: conds}
  else if kind = 1 then                                        -- Or: []Expression{clause.Or(clause.And(conds...))}
    match andOf H conds with
    | none => (H, none)
    | some c =>
      let (H1, inner) := alloc H [c] 1
      let (H2, outer) := alloc H1 [.orc inner] 1
      (H2, some outer)
  else                                                         -- Not: []Expression{clause.Not(conds...)}
    let target := match readS H conds with
      | [.andc s] => s
      | _ => conds
    let (H1, outer) := alloc H [.notc target] 1
    (H1, some outer)

/-! ## rendering (clause/where.go) -/

inductive Tok where
  | lp | rp | and | or | not
  | cond (n : Nat)
  | sel (n : Nat) | omit (n : Nat) | distinct | count (n : Nat) | countD (n : Nat) | countStar
  | table (n : Nat) | join (n : Nat)
  | whereKw | groupKw | gcol (n : Nat) | havingKw | orderKw | ocol (n : Nat) | pk
  | limit (n : Nat) | offset (n : Nat) | lock (n : Nat) | retKw | rcol (n : Nat) | retStar
  | fin (n : Nat)
deriving Repr, DecidableEq, Inhabited

def isSingleOr : Cell → Bool
  | .orc s => s.len == 1
  | _ => false

/-- clause/where.go `buildExprs` over already chosen element builders (leaves here carry no AND/OR text,
    so no extra parentheses): `OR` in front of a single-Or element, else the join word -/
def buildList (f : Cell → List Tok) : List Cell → Tok → Bool → List Tok
  | [], _, _ => []
  | c :: rest, join, first =>
    (if first then [] else if isSingleOr c then [.or] else [join]) ++ f c ++ buildList f rest join false

/-- NotConditions.Build, branch without NegationExpressionBuilder members -/
def buildNotList (f : Cell → List Tok) : List Cell → Bool → List Tok
  | [], _ => []
  | c :: rest, first =>
    (if first then [] else match c with | .orc _ => [.or] | _ => [.and]) ++ f c ++ buildNotList f rest false

/-- `expr.Build` for the condition wrappers (And/Or/NotConditions.Build); leaves print themselves -/
def buildCell : Nat → Heap → Cell → List Tok
  | 0, _, _ => []
  | fuel + 1, H, c =>
    match c with
    | .atom n => [.cond n]
    | .andc s => let b := buildList (buildCell fuel H) (readS H s) .and true
                 if s.len > 1 then [.lp] ++ b ++ [.rp] else b
    | .orc s => let b := buildList (buildCell fuel H) (readS H s) .or true
                if s.len > 1 then [.lp] ++ b ++ [.rp] else b
    | .notc s => let b := buildNotList (buildCell fuel H) (readS H s) true
                 [.not] ++ (if s.len > 1 then [.lp] ++ b ++ [.rp] else b)

def buildExprs (fuel : Nat) (H : Heap) (cs : List Cell) (join : Tok) (first : Bool) : List Tok :=
  buildList (buildCell fuel H) cs join first

/-- index of the first element that is not a single-Or -/
def firstNonOr : List Cell → Nat → Option Nat
  | [], _ => none
  | c :: cs, i => if isSingleOr c then firstNonOr cs (i + 1) else some i

/-- the list after the swap of elements 0 and `i + 1` -/
def swapped (cs : List Cell) (i : Nat) : List Cell :=
  ((cs.set 0 (cs.getD (i + 1) default)).set (i + 1) (cs.getD 0 default))

/-- clause/where.go `Where.Build`: And-unpack, the swap — IN PLACE in the shared array, or
    (`copies`) on `exprs := make; copy(exprs, where.Exprs)`, a local that dies with the call — buildExprs -/
def whereBuild (copies : Bool) (fuel : Nat) (H : Heap) (w : Slice) : Heap × List Tok :=
  let w := match readS H w with
    | [.andc s] => s
    | _ => w
  let cs := readS H w
  match firstNonOr cs 0 with
  | some (i + 1) =>
    if copies then (H, buildExprs fuel H (swapped cs i) .and true)
    else
      let c0 := cs.getD 0 default
      let ci := cs.getD (i + 1) default
      let H1 := writeAt (writeAt H w.arr w.off ci) w.arr (w.off + i + 1) c0
      (H1, buildExprs fuel H1 (readS H1 w) .and true)
  | _ => (H, buildExprs fuel H cs .and true)

def atomsOf (H : Heap) (s : Slice) : List Nat :=
  (readS H s).filterMap (fun c => match c with | .atom n => some n | _ => none)

/-! ## histories -/

inductive Op where
  | session (src : Nat)             -- Session(&Session{}) / Debug(): statement shared, clone = 2
  | newdb (src : Nat)               -- Session(&Session{NewDB: true}): clone = 1
  | ctx (src : Nat)                 -- WithContext / Session{SkipHooks}: statement cloned, clone = 2
  | begin (src : Nat)               -- Begin(): getInstance, then Session{Context, NewDB: clone == 1}
  | cond (kind : Nat) (src : Nat) (a : Nat)        -- Where(0) / Or(1) / Not(2) with a plain condition
  | condG (kind : Nat) (src : Nat) (arg : Nat)     -- Where/Or/Not with handle `arg` as group condition
  | order (src : Nat) (a : Nat)
  | orderC (src : Nat) (sl : Nat) (k : Nat)        -- Clauses(clause.OrderBy{Columns: callerSlice[:k]})
  | group (src : Nat) (a : Nat)
  | having (src : Nat) (a : Nat)
  | havingG (src : Nat) (arg : Nat)
  | ret (src : Nat) (cols : List Nat)              -- Clauses(clause.Returning{Columns: []Column{…}})
  | retStar (src : Nat)                            -- Clauses(clause.Returning{})
  | limit (src : Nat) (n : Nat)
  | offset (src : Nat) (n : Nat)
  | select (src : Nat) (cols : List Nat)           -- Select("c1", "c2", …)
  | selectS (src : Nat) (sl : Nat) (k : Nat) (extra : List Nat)   -- Select(callerSlice[:k], extra…)
  | omit (src : Nat) (cols : List Nat)
  | joins (src : Nat) (a : Nat)
  | scopes (src : Nat) (a : Nat)
  | distinct (src : Nat)
  | table (src : Nat) (a : Nat)
  | unscoped (src : Nat)
  | lock (src : Nat) (a : Nat)
  | render (src : Nat) (fin : Nat)                 -- 0 Find, 1 First, 2 Count, 3 Delete
  | skip
deriving Repr, DecidableEq, Inhabited

structure State where
  heap : Heap
  env : List Handle
  outs : List (List Tok)
deriving Repr, DecidableEq, Inhabited

def State.handle (S : State) (i : Nat) : Handle := S.env.getD i ⟨{}, 1⟩

/-- caller-owned slice number `sl` (allocated before the history starts): `callerSlice[:k]` -/
def callerSlice (slices : List (List Nat × Nat)) (sl k : Nat) : Slice :=
  match slices[sl]? with
  | some (cs, cap) => ⟨sl, 0, min k cs.length, max cap cs.length⟩
  | none => Slice.nil

def initHeap (slices : List (List Nat × Nat)) : Heap :=
  ⟨slices.map (fun p => p.1.map Cell.atom), 0⟩

/-- processor.Execute: `for len(scopes) > 0 { executeScopes }` — scope n is `func(d) { return d.Where(cond n) }` -/
def execScopes (m : MergeCfg) (H : Heap) (st : Stmt) : Heap × Stmt :=
  (atomsOf H st.scopes).foldl (fun (p : Heap × Stmt) a => addWhere m (condAtom p.1 a).1 p.2 (condAtom p.1 a).2)
    (H, { st with scopes := Slice.nil })

/-- First: `db.Limit(1).Order(pk)` on the instance -/
def firstPrep (m : MergeCfg) (fin : Nat) (H : Heap) (st : Stmt) : Heap × Stmt :=
  if fin = 1 then addOrder m (alloc H [.atom 0] 1).1 (addLimit st (some 1) 0) (alloc H [.atom 0] 1).2 else (H, st)

def whereToks (copies : Bool) (fuel : Nat) (H : Heap) (st : Stmt) : Heap × List Tok :=
  match st.wher with
  | some w => ((whereBuild copies fuel H w).1, [Tok.whereKw] ++ (whereBuild copies fuel H w).2)
  | none => (H, [])

def groupToks (copies : Bool) (fuel : Nat) (H : Heap) (st : Stmt) : Heap × List Tok :=
  match st.group with
  | some (c, hv) =>
    -- GroupBy.MergeClause: no columns ⇒ clause name "" (the clause is still built: Having only)
    if hv.len > 0 then ((whereBuild copies fuel H hv).1, [Tok.groupKw] ++ (atomsOf H c).map Tok.gcol ++ [Tok.havingKw] ++ (whereBuild copies fuel H hv).2)
    else (H, [Tok.groupKw] ++ (atomsOf H c).map Tok.gcol)
  | none => (H, [])

def headToks (H : Heap) (st : Stmt) (fin : Nat) : List Tok :=
  let sels := atomsOf H st.selects
  let selToks : List Tok :=
    if fin = 2 then
      (match sels with
       | [] => [Tok.countStar]
       | [a] => if st.distinct then [Tok.countD a] else [Tok.count a]
       | _ => [Tok.countStar])
    else (if st.distinct then [Tok.distinct] else []) ++
      (if sels.isEmpty then (atomsOf H st.omits).map Tok.omit else sels.map Tok.sel)
  selToks ++ (match st.table with | some t => [Tok.table t] | none => []) ++ (atomsOf H st.joins).map Tok.join

def tailToks (H : Heap) (st : Stmt) (fin : Nat) : List Tok :=
  (match st.order with
   | some o => if fin = 2 ∧ st.group = none then [] else if o.len > 0 then [Tok.orderKw] ++ (atomsOf H o).map (fun a => if a = 0 then Tok.pk else Tok.ocol a) else []
   | none => []) ++
  (match st.limit with
   | some (l, o) => (match l with | some n => [Tok.limit n] | none => []) ++ (if o > 0 then [Tok.offset o] else [])
   | none => []) ++
  (match st.lock with | some k => [Tok.lock k] | none => [])

def retToks (H : Heap) (st : Stmt) : List Tok :=
  match st.ret with
  | none => []
  | some none => [Tok.retKw, Tok.retStar]
  | some (some s) => if s.len > 0 then [Tok.retKw] ++ (atomsOf H s).map Tok.rcol else [Tok.retKw, Tok.retStar]

/-- executeScopes + the finisher's own chain calls + the build of the statement (callbacks/query.go
    BuildQuerySQL, callbacks/delete.go).  Returns the heap (the swap in Where.Build writes!) and the tokens. -/
def renderStmt (m : MergeCfg) (copies : Bool) (fuel : Nat) (H : Heap) (st : Stmt) (fin : Nat) : Heap × List Tok :=
  let p1 := execScopes m H st
  let p2 := firstPrep m fin p1.1 p1.2
  let w := whereToks copies fuel p2.1 p2.2
  if fin = 3 then
    (w.1, [Tok.fin fin] ++ (match p2.2.table with | some t => [Tok.table t] | none => []) ++ w.2 ++ retToks w.1 p2.2)
  else
    let g := groupToks copies fuel w.1 p2.2
    (g.1, [Tok.fin fin] ++ headToks p2.1 p2.2 fin ++ w.2 ++ g.2 ++ tailToks g.1 p2.2 fin)

/-- statement.go `BuildCondition`, `case *DB`, first statement: the ARGUMENT's pending scopes.
    * `v.executeScopes()` on the argument itself (unchanged tree): a chain instance (clone 0) runs its scopes
      in place (`scopes = nil`, every scope's `Where` lands in the argument's statement, which the group then
      reads); a REUSABLE handle (clone 1/2) gets `scopes = nil` written into its own — shared — statement
      while every `scope(db)` result lands in a derived instance that is thrown away: the group does not see
      the scopes' conditions and the handle has lost them (`argAfter`).
    * `v.Session(&Session{}).getInstance().executeScopes()` when scopes are pending (`groupInstance`): the
      scopes run on a clone of the argument's statement; the argument is untouched.
    Returns the heap and the statement whose WHERE the group reads. -/
def groupArgStmt (c : CloneCfg) (m : MergeCfg) (inst : Bool) (H : Heap) (arg : Handle) : Heap × Stmt :=
  if arg.st.scopes.len = 0 then (H, arg.st)
  else if inst then
    let p := cloneStmt c H arg.st
    execScopes m p.1 p.2
  else if arg.clone = 0 then execScopes m H arg.st
  else (H, arg.st)

/-- what using handle `arg` as a group condition leaves behind IN the argument -/
def argAfter (inst : Bool) (arg : Handle) : Handle :=
  if inst then arg else { arg with st := { arg.st with scopes := Slice.nil } }

/-- chain method on an instance already obtained from `getInstance` -/
def chainOn (c : Cfg) (slices : List (List Nat × Nat)) (S : State) (H : Heap) (st : Stmt) : Op → Heap × Stmt
  | .cond kind _ a =>
    let (H1, conds) := condAtom H a
    (match wrapCond H1 kind conds with
     | (H2, some w) => addWhere c.mg H2 st w
     | (H2, none) => (H2, st))
  | .condG kind _ arg =>
    let (H0, ast) := groupArgStmt c.cl c.mg c.fx.groupInstance H (S.handle arg)
    let (H1, conds) := buildCondGroup c.fx.groupCopies H0 ast
    (match wrapCond H1 kind conds with
     | (H2, some w) => addWhere c.mg H2 st w
     | (H2, none) => (H2, st))
  | .order _ a => let (H1, s) := alloc H [.atom a] 1; addOrder c.mg H1 st s
  | .orderC _ sl k => addOrder c.mg H st (callerSlice slices sl k)
  | .group _ a => let (H1, s) := alloc H [.atom a] 1; addGroup c.mg H1 st s Slice.nil
  | .having _ a => let (H1, s) := condAtom H a; addGroup c.mg H1 st Slice.nil s
  | .havingG _ arg =>
    let (H0, ast) := groupArgStmt c.cl c.mg c.fx.groupInstance H (S.handle arg)
    let (H1, s) := buildCondGroup c.fx.groupCopies H0 ast
    addGroup c.mg H1 st Slice.nil s
  | .ret _ cols => let (H1, s) := alloc H (cols.map .atom) cols.length; addRet c.mg H1 st (some s)
  | .retStar _ => addRet c.mg H st none
  | .limit _ n => (H, addLimit st (some n) 0)
  | .offset _ n => (H, addLimit st none n)
  | .select _ cols =>
    -- `Selects = []string{v}` then `append(Selects, arg)` per further argument
    (match cols with
     | [] => (H, st)
     | a :: rest =>
       let (H1, s) := alloc H [.atom a] 1
       let (H2, s2) := rest.foldl (fun (p : Heap × Slice) b => appendS p.1 p.2 [.atom b]) (H1, s)
       (H2, { st with selects := s2 }))
  | .selectS _ sl k extra =>
    -- `Selects = v` (the caller's slice itself, or — `selectCopies` — make+copy of it) then
    -- `append(Selects, arg)` per further argument
    let p0 := if c.fx.selectCopies then makeCopy H (callerSlice slices sl k) else (H, callerSlice slices sl k)
    let (H2, s2) := extra.foldl (fun (p : Heap × Slice) b => appendS p.1 p.2 [.atom b]) p0
    (H2, { st with selects := s2 })
  | .omit _ cols => let (H1, s) := alloc H (cols.map .atom) cols.length; (H1, { st with omits := s })
  | .joins _ a => let (H1, s) := appendS H st.joins [.atom a]; (H1, { st with joins := s })
  | .scopes _ a => let (H1, s) := appendS H st.scopes [.atom a]; (H1, { st with scopes := s })
  | .distinct _ => (H, { st with distinct := true })
  | .table _ a => (H, { st with table := some a })
  | .unscoped _ => (H, { st with unscoped := true })
  | .lock _ a => (H, { st with lock := some a })
  | _ => (H, st)

def Op.src : Op → Nat
  | .session s | .newdb s | .ctx s | .begin s | .cond _ s _ | .condG _ s _ | .order s _ | .orderC s _ _
  | .group s _ | .having s _ | .havingG s _ | .ret s _ | .retStar s | .limit s _ | .offset s _
  | .select s _ | .selectS s _ _ _ | .omit s _ | .joins s _ | .scopes s _ | .distinct s | .table s _
  | .unscoped s | .lock s _ | .render s _ => s
  | .skip => 0

/-- handles an op reads besides `src` -/
def Op.args : Op → List Nat
  | .condG _ _ a | .havingG _ a => [a]
  | _ => []

def push (S : State) (H : Heap) (h : Handle) : State := { S with heap := H, env := S.env ++ [h] }

/-- the environment after the op's effect on its ARGUMENT handles (only a group argument with pending
    scopes on the unchanged tree, see `groupArgStmt`) -/
def envAfter (c : Cfg) (S : State) (op : Op) : List Handle :=
  match op with
  | .condG _ _ a | .havingG _ a =>
    if a < S.env.length ∧ (S.handle a).st.scopes.len ≠ 0 then S.env.set a (argAfter c.fx.groupInstance (S.handle a)) else S.env
  | _ => S.env

/-- one op; every op appends exactly one handle to the environment -/
def step (c : Cfg) (slices : List (List Nat × Nat)) (fuel : Nat) (S : State) (op : Op) : State :=
  let h := S.handle op.src
  match op with
  | .skip => push S S.heap ⟨{}, 1⟩
  | .session _ => push S S.heap ⟨h.st, 2⟩
  | .newdb _ => push S S.heap ⟨h.st, 1⟩
  | .ctx _ => push S (cloneStmt c.cl S.heap h.st).1 ⟨(cloneStmt c.cl S.heap h.st).2, 2⟩
  | .begin _ =>
    let g := getInstance c.cl S.heap h
    push S (cloneStmt c.cl g.1 g.2.st).1 ⟨(cloneStmt c.cl g.1 g.2.st).2, if h.clone = 1 then 1 else 2⟩
  | .render _ fin =>
    let g := getInstance c.cl S.heap h
    { heap := (renderStmt c.mg c.fx.buildCopies fuel g.1 g.2.st fin).1, env := S.env ++ [⟨g.2.st, 0⟩],
      outs := S.outs ++ [(renderStmt c.mg c.fx.buildCopies fuel g.1 g.2.st fin).2] }
  | op =>
    let g := getInstance c.cl S.heap h
    { heap := (chainOn c slices S g.1 g.2.st op).1,
      env := envAfter c S op ++ [⟨(chainOn c slices S g.1 g.2.st op).2, 0⟩],
      outs := S.outs }

structure History where
  slices : List (List Nat × Nat)
  ops : List Op
deriving Repr, DecidableEq, Inhabited

def initState (slices : List (List Nat × Nat)) : State := ⟨initHeap slices, [⟨{}, 1⟩], []⟩

def runFrom (c : Cfg) (slices : List (List Nat × Nat)) (fuel : Nat) (S : State) (ops : List Op) : State :=
  ops.foldl (step c slices fuel) S

/-- handle 0 is the root (`gorm.Open`, clone = 1); op number `i` creates handle `i + 1` -/
def run (c : Cfg) (fuel : Nat) (h : History) : State := runFrom c h.slices fuel (initState h.slices) h.ops

/-! ## the dependency slice of an op: "the same chain replayed alone" -/

/-- mark the ops (by index) that op `k` depends on, walking backwards: `need` = handles still required -/
def depMask : List Op → Nat → List Nat → List Bool
  | [], _, _ => []
  | op :: before, idx, need =>
    -- `before` is the REVERSED prefix; `op` has index `idx` and creates handle `idx + 1`
    if need.contains (idx + 1) then
      true :: depMask before (idx - 1) (op.src :: op.args ++ need)
    else false :: depMask before (idx - 1) need

/-- the history in which every op that op number `k` does not depend on is replaced by `skip` -/
def sliceFor (h : History) (k : Nat) : History :=
  let pre := (h.ops.take (k + 1)).reverse
  let mask := (depMask pre k [k + 1]).reverse
  { h with ops := (h.ops.take (k + 1)).zipWith (fun op b => if b then op else Op.skip) mask }

/-- rendering number `n` (in order of the `render` ops) -/
def State.out (S : State) (n : Nat) : List Tok := S.outs.getD n []

/-- renderings of a history in order: (op index, tokens in the history, tokens alone) -/
def compareAll (c : Cfg) (fuel : Nat) (h : History) : List (Nat × List Tok × List Tok) :=
  let full := run c fuel h
  let idxs := (List.range h.ops.length).filter (fun i => match h.ops.getD i .skip with | .render _ _ => true | _ => false)
  idxs.zipIdx.map (fun (i, n) =>
    let alone := run c fuel (sliceFor h i)
    (i, full.out n, alone.outs.getLast?.getD []))

end Gorm.Heap
