/-
  C01 — the SPECIFICATION side of the placeholder / bound-parameter property.

  `Model/Bind.lean` is the executable transcription of gorm's builders (state threading, fuel, byte scanners).
  This file says, without any builder state and without fuel, WHICH inputs are well formed and WHAT list of
  bound values a well-formed input must produce:

    `spec d v : Sp β`    one structural traversal of the value `v` (dialect `d` matters only for an already
                         rendered sub-query, whose text is in the dialect) returning
        `.ok`   — `WellFormed d v`  (decidable, explicit)
        `.xs`   — `flatten d v`     (the left-to-right list of bound values)

  WellFormed (the `ok` component) demands exactly:
    * arity    : a `clause.Expr` template has as many `?` bytes as arguments (gorm leaves a surplus `?` in the
                 text and appends surplus arguments WITHOUT placeholder — both break the property and are caller
                 errors); in a `clause.NamedExpr` every `?` finds a positional argument;
    * F21      : no `sql.NamedArg` is consumed by a positional slot or handed to `AddVar` in any other value
                 position (`AddVar`'s NamedArg arm appends a value and writes no placeholder) — named arguments
                 are legal only as members of a NamedExpr's argument list, where they are looked up by name;
    * sub-query: an already rendered sub-query (`db.Raw(..)` handle) is well formed iff its text, re-templated the
                 way `AddVar case *DB` does it (`strings.Replace(sql, "$i", "?", 1)`), is a well-formed template for
                 its own vars and, under `$n`, no `$` is left over (finding F26: a `$1…` inside a literal of the raw
                 text is hit by the loop)  — `C01_retemplate` proves that both hold for every ALIGNED rendering
                 without `$` in its literal text;
    * modelled : identifier positions hold a Column / Table / Expr, `clause.Set` has at least one column.

  flatten (the `xs` component):
    scalar, nil, pointer, map, struct, []byte, driver.Valuer  ↦ the value itself (ONE bound value)
    list / []interface{}                                      ↦ the flattenings of the elements, in order
                                                                 (empty: NO value — the text gets `(NULL)`)
    a list in a `?` slot directly after `(`                   ↦ the same, but an empty list binds ONE nil
                                                                 (`Expr.Build` calls `AddVar(nil)`)
    a []byte in a `?` slot directly after `(`                 ↦ one value per byte (reflect sees a slice)
    Expr / NamedExpr                                          ↦ the flattenings of the slots / named look-ups in
                                                                 template order
    Eq/Neq/IN/…, Values, Set, Limit, OnConflict, Where, Clause, Statement, sub-query ↦ concatenation in build order
  Core Lean only.
-/
import GormModel.Model.Bind
namespace Gorm.Bind

/-- result of the specification: well-formedness flag and the flattening -/
structure Sp (β : Type) where
  ok : Bool
  xs : List (Val β)
deriving Repr

namespace Sp
variable {β : Type}
/-- nothing bound -/
def none : Sp β := ⟨true, []⟩
/-- ill-formed -/
def bad : Sp β := ⟨false, []⟩
/-- one bound value -/
def one (v : Val β) : Sp β := ⟨true, [v]⟩
def app (a b : Sp β) : Sp β := ⟨a.ok && b.ok, a.xs ++ b.xs⟩
def cat : List (Sp β) → Sp β
  | [] => none
  | s :: r => s.app (cat r)
end Sp

section helpers
variable {β : Type}

/-- for each `?` byte of a template, left to right: is it DIRECTLY after `(` (`afterParenthesis` in Expr.Build)? -/
def slotFlags : List Char → Bool → List Bool
  | [], _ => []
  | c :: cs, ap => if c = '?' then ap :: slotFlags cs ap else slotFlags cs (c == '(')

/-- a `?` directly followed by a digit: under `$n` the printed placeholder `$k` would run into the digit -/
def qDigit : List Char → Bool
  | [] => false
  | c :: r => (c == '?' && (match r with | c' :: _ => c'.isDigit | [] => false)) || qDigit r

/-- what a `?` slot binds when it is directly after `(` (or `WithoutParentheses`), given the value and the
    spec `s` of the value in plain `AddVar` position -/
def expandSp (v : Val β) (s : Sp β) : Sp β :=
  match v with
  | .list _ vs => if vs.isEmpty then .one .nil else s
  | .ilist vs => if vs.isEmpty then .one .nil else s
  | .bytes _ bs => if bs.isEmpty then .one .nil else ⟨true, bs.map Val.scalar⟩
  | .clauseI _ (.set cols vals) =>
    if (assignments cols vals).isEmpty then .one .nil else ⟨true, assignments cols vals⟩
  | _ => s

/-- an identifier position (`WriteQuoted`): Column / Table bind nothing, an Expr binds its own arguments,
    anything else is outside the model -/
def colSp (c : Val β) (s : Sp β) : Sp β :=
  match c with
  | .column .. => s
  | .table .. => s
  | .expr .. => s
  | _ => .bad

/-- Expr.Build: the i-th `?` takes the i-th argument; arity must match exactly -/
def pickSlots (wop : Bool) : List Bool → List (Val β × Sp β) → Sp β
  | [], [] => .none
  | e :: es, p :: ps => (if e || wop then expandSp p.1 p.2 else p.2).app (pickSlots wop es ps)
  | _, _ => .bad

/-- the events of the NamedExpr.Build scanner, in template order -/
inductive Item where
  | slot (afterParen : Bool)   -- a `?` that consumes the next positional argument
  | name (nm : List Char)      -- the end of an `@name`
  | stray                      -- a `?` with no positional argument left
deriving Repr, DecidableEq

/-- NamedExpr.Build, control flow only (`avail` = number of positional arguments not yet consumed) -/
def nexprItems : List Char → Nat → Bool → List Char → Bool → List Item
  | [], _, inName, name, _ => if inName then [.name name] else []
  | c :: cs, avail, inName, name, ap =>
    if c == '@' && !inName then nexprItems cs avail true [] ap
    else if isTerm c then
      (if inName then [Item.name name] else []) ++ nexprItems cs avail false name false
    else
      match decide (c = '?'), avail with
      | true, k+1 => .slot ap :: nexprItems cs k inName name ap
      | true, 0 => .stray :: (if inName then nexprItems cs 0 true (name ++ [c]) ap else nexprItems cs 0 false name (c == '('))
      | false, _ => if inName then nexprItems cs avail true (name ++ [c]) ap else nexprItems cs avail false name (c == '(')

def lookupLastSp (m : List (List Char × Sp β)) (nm : List Char) : Option (Sp β) :=
  match m.reverse.find? (fun e => e.1 == nm) with
  | some e => some e.2
  | none => none

/-- NamedExpr.Build: slots take the positional arguments in order, names are looked up in the name map
    (an unknown name stays in the text and binds nothing); surplus arguments are ignored by NamedExpr -/
def itemsSp (m : List (List Char × Sp β)) : List Item → List (Val β × Sp β) → Sp β
  | [], _ => .none
  | .slot e :: is, p :: ps => (if e then expandSp p.1 p.2 else p.2).app (itemsSp m is ps)
  | .slot _ :: _, [] => .bad
  | .name nm :: is, ps => ((lookupLastSp m nm).getD .none).app (itemsSp m is ps)
  | .stray :: _, _ => .bad

def catSnd (ps : List (Val β × Sp β)) : Sp β := Sp.cat (ps.map (·.2))
def catCols (ps : List (Val β × Sp β)) : Sp β := Sp.cat (ps.map fun p => colSp p.1 p.2)

/-- clause.Set: `column = value` pairs up to the shorter list -/
def setSp : List (Val β × Sp β) → List (Val β × Sp β) → Sp β
  | c :: cs, v :: vs => ((colSp c.1 c.2).app v.2).app (setSp cs vs)
  | _, _ => .none

end helpers

mutual
/-- **the specification**: well-formedness and flattening of a value handed to `AddVar` -/
def spec {β : Type} (d : Dialect) : Val β → Sp β
  -- ONE bound value
  | .nil => .one .nil
  | .scalar b => .one (.scalar b)
  | .dvaluer i b => .one (.dvaluer i b)
  | .nmap ks vs => .one (.nmap ks vs)
  | .strct fs vs => .one (.strct fs vs)
  | .assign c v => .one (.assign c v)
  | .bytes named bs => if named && bs.isEmpty then .none else .one (.bytes named bs)
  -- gorm.Valuer: the value it yields
  | .gvaluer nilPtr inner => if nilPtr then .one .nil else spec d inner
  -- slices: one per element, empty: none (text `(NULL)`)
  | .list _ vs => catSnd (annot d vs)
  | .ilist vs => catSnd (annot d vs)
  -- F21: a sql.NamedArg in a value position
  | .named _ _ => .bad
  | .column .. => .none
  | .table .. => .none
  | .expr sql args wop => pickSlots wop (slotFlags sql false) (annot d args)
  | .nexpr sql args => itemsSp (tableSp d args) (nexprItems sql args.length false [] false) (annot d args)
  | .cmp op col x =>
    (colSp col (spec d col)).app (if (op == .eq || op == .neq) && eqNil x then .none else spec d x)
  | .inn _ col vs => (colSp col (spec d col)).app (catSnd (annot d vs))
  | .values cols rows => if cols.isEmpty then .none else (catCols (annot d cols)).app (catSnd (annot d rows))
  | .set cols vals => if cols.isEmpty then .bad else setSp (annot d cols) (annot d vals)
  | .limit hasLimit limNonNeg lim offPos off =>
    (if hasLimit && limNonNeg then Sp.one (.scalar lim) else .none).app (if offPos then .one (.scalar off) else .none)
  | .onConflict cons cols tw doNothing doUpdates whr =>
    ((if !cons.isEmpty then Sp.none else (catCols (annot d cols)).app (catSnd (annot d tw))).app
      (if doNothing then .none else spec d doUpdates)).app (catSnd (annot d whr))
  | .whereC es => catSnd (annot d es)
  | .clauseI _ e => spec d e
  | .clauses ns es => catSnd ((annot d es).take ns.length)
  | .subq ns es => catSnd ((annot d es).take ns.length)
  | .rsub text vars =>
    let t := retemplate d 1 vars.length text
    -- F26: every `$` of the rendered text must have been a placeholder the loop turned back into `?`, and no
    -- re-templated placeholder may run into a following digit (`$1` hit as the head of `$10` leaves `?0`)
    if d == .dollar && (t.contains '$' || qDigit t) then .bad
    else if containsSub t ['@'] then itemsSp (tableSp d vars) (nexprItems t vars.length false [] false) (annot d vars)
    else pickSlots false (slotFlags t false) (annot d vars)
/-- every element with its spec -/
def annot {β : Type} (d : Dialect) : List (Val β) → List (Val β × Sp β)
  | [] => []
  | v :: vs => (v, spec d v) :: annot d vs
/-- the name-map entries ONE element of `NamedExpr.Vars` contributes (cf. `namedEntries`) -/
def entSp {β : Type} (d : Dialect) : Val β → List (List Char × Sp β)
  | .named nm v => [(nm, spec d v)]
  | .nmap ks vs => ks.zip ((annot d vs).map (·.2))
  | .strct fs vs => fieldsSp d 7 fs vs
  | _ => []
def fieldsSp {β : Type} (d : Dialect) : Nat → List (List Char × Bool) → List (Val β) → List (List Char × Sp β)
  | n, (nm, anon) :: fs, v :: vs =>
    (if isExported nm then (nm, spec d v) :: (if anon then structSp d n v else []) else []) ++ fieldsSp d n fs vs
  | _, _, _ => []
def structSp {β : Type} (d : Dialect) : Nat → Val β → List (List Char × Sp β)
  | n+1, .strct fs vs => fieldsSp d n fs vs
  | _, _ => []
def tableSp {β : Type} (d : Dialect) : List (Val β) → List (List Char × Sp β)
  | [] => []
  | a :: as => entSp d a ++ tableSp d as
end

/-- **WellFormed** (decidable): arity of every template, no NamedArg in a value position (F21), rendered
    sub-queries re-template to well-formed templates, only modelled forms -/
def WellFormed {β : Type} (d : Dialect) (v : Val β) : Prop := (spec d v).ok = true

instance {β : Type} (d : Dialect) (v : Val β) : Decidable (WellFormed d v) := by unfold WellFormed; infer_instance

/-- **flatten**: the bound values a well-formed input must hand to the driver, left to right -/
def flatten {β : Type} (d : Dialect) (v : Val β) : List (Val β) := (spec d v).xs

end Gorm.Bind
