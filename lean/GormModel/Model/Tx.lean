/-
  Model.Tx — transactions of gorm over a snapshot-stack database (core Lean only).

  Layer 1 (database/sql + SQLite, ASSUMED semantics, observed by the tie):  `drv*`
     committed store + at most one open transaction {working store, save-point stack};
     every driver call consults a fault oracle indexed by the call number (`DB.calls`).
  Layer 2 (gorm, TRANSCRIBED):  finisher_api.go `Begin/Commit/Rollback/SavePoint/RollbackTo/Transaction`,
     prepare_stmt.go `PreparedStmtDB.BeginTx`, `PreparedStmtTX.Commit/Rollback`, callbacks/transaction.go,
     gorm.go `AddError` (sticky `db.Error` of a handle, copied by getInstance/Session).
  Layer 3 (user programs):  trees of Transaction blocks / manual sequences / writes / reads.
  `spec*` is the short functional reference (a block either keeps the store its body produced or
  returns the store it was entered with) — no tx state, no handles, no save-point names.
-/
namespace Gorm.Tx

abbrev Store := List Nat

inductive ErrAtom where
  | inj (k : Nat)        -- injected driver fault at call k
  | user (t : Nat)       -- error value returned by the user function (identity = tag)
  | invalidTx            -- gorm.ErrInvalidTransaction
  | txDone               -- sql.ErrTxDone
  | noSavepoint          -- SQLite "no such savepoint"
  | conflict             -- SQLite UNIQUE constraint failed
  | notFound             -- gorm.ErrRecordNotFound (a `First` that matched no row)
deriving DecidableEq, Repr

/-- a Go `error`: `[]` is nil; gorm.go AddError joins messages with "; " -/
abbrev Err := List ErrAtom

/-- gorm.go `AddError`: `if err != nil { if db.Error == nil { db.Error = err } else { db.Error = fmt.Errorf("%v; %w", db.Error, err) } }` -/
def addError (cur e : Err) : Err :=
  if e = [] then cur else if cur = [] then e else cur ++ e

inductive Res where
  | ok
  | err (e : Err)
  | panic (t : Nat)
deriving DecidableEq, Repr

def resOf (e : Err) : Res := if e = [] then .ok else .err e

inductive Write where
  | ins (k : Nat)
  | del (k : Nat)
  | nop                  -- a DELETE whose WHERE (chained `id <> k` condition of the handle AND `id = k`) matches no row
deriving DecidableEq, Repr

def insSorted (k : Nat) : Store → Store
  | [] => [k]
  | x :: xs => if k ≤ x then k :: x :: xs else x :: insSorted k xs

/-- SQLite: INSERT of an existing key fails (statement-level abort, transaction continues); DELETE of a missing key is a no-op -/
def Write.apply : Write → Store → Except ErrAtom Store
  | .ins k, s => if k ∈ s then .error .conflict else .ok (insSorted k s)
  | .del k, s => .ok (s.filter (· ≠ k))
  | .nop, s => .ok s

inductive SpName where
  | manual (n : Nat)
  | auto (k : Nat)     -- finisher_api.go:627 `sp%d` of a fresh random 64-bit value; modelled by the (unique) call number of its SAVEPOINT
deriving DecidableEq, Repr

structure TxSt where
  cur : Store
  saves : List (SpName × Store)    -- head = most recent save point
deriving DecidableEq, Repr

inductive K where | B | C | R | S | T | W | Q
deriving DecidableEq, Repr

structure DB where
  committed : Store
  tx : Option TxSt := none          -- the open driver-level transaction (its connection is checked out while it is `some`)
  calls : Nat := 0                  -- number of driver calls made so far (index into the fault oracle)
  trace : List (K × Bool) := []     -- ghost: kinds of the driver calls, reversed; flag = failed
  txof : List Nat := []             -- ghost, parallel to `trace`: ordinal of the driver transaction the call ran in (0 = on a pool
                                    --   connection outside any driver transaction; BEGIN itself is tagged 0)
  nbegun : Nat := 0                 -- ghost: number of driver transactions begun so far
  reads : List Store := []          -- ghost: results of successful reads, reversed
  stale : Bool := false             -- ghost: an operation was started on a handle whose sticky Error was already set
  rbFault : Bool := false           -- ghost: a fault was injected into a ROLLBACK TO statement
  rbFaultable : Bool := true        -- environment: may the oracle fail ROLLBACK TO statements at all (harness `allow_rb`)
  leaked : Nat := 0                 -- ghost: driver transactions that were begun and that NO live handle can commit or roll back
                                    --   any more (their connections never go back to the pool): finding F27, see `drvBeginOrphan`
deriving Repr

abbrev Oracle := Nat → Bool

/-- driver-level open transactions = checked-out connections between operations -/
def DB.open (db : DB) : Nat := (if db.tx.isSome then 1 else 0) + db.leaked

/-- tag of a driver call: the ordinal of the open driver transaction, 0 when the call runs outside any -/
def DB.tag (db : DB) : Nat := if db.tx.isSome then db.nbegun else 0

/-- one driver call of kind `k`: logged, numbered; returns whether the oracle fails it -/
def tick (o : Oracle) (k : K) (db : DB) : DB × Bool :=
  let f := o db.calls
  ({ db with calls := db.calls + 1, trace := (k, f) :: db.trace, txof := db.tag :: db.txof }, f)

/-- ROLLBACK cannot be failed (rec.go `recTx.Rollback` discards the hook's result; gorm discards Rollback's result anyway) -/
def tickR (db : DB) : DB :=
  { db with calls := db.calls + 1, trace := (K.R, false) :: db.trace, txof := db.tag :: db.txof }

/-! ### Layer 1: database/sql + SQLite -/

/-- `sql.DB.BeginTx`: takes a connection, driver BEGIN -/
def drvBegin (o : Oracle) (db : DB) : DB × Err :=
  let n := db.calls
  let (db, f) := tick o .B db
  if f then (db, [.inj n]) else ({ db with tx := some { cur := db.committed, saves := [] }, nbegun := db.nbegun + 1 }, [])

/-- `BeginTx` reached through a handle whose `Error` is ALREADY set (finisher_api.go Begin without the early return): the driver
    transaction is opened on a fresh connection, but the only handle that owns it carries an error — `Transaction` returns at
    :642 (`if tx.Error != nil { return tx.Error }`, before the deferred rollback is installed), the documented manual caller
    returns on `tx.Error != nil`, and every operation through that handle is refused — so nothing ever commits it or rolls it
    back. It is unreachable from then on: counted in the ghost `leaked`, the model's single reachable-transaction slot `tx`
    stays as it was. -/
def drvBeginOrphan (o : Oracle) (db : DB) : DB × Err :=
  let n := db.calls
  let (db, f) := tick o .B db
  if f then (db, [.inj n]) else ({ db with leaked := db.leaked + 1, nbegun := db.nbegun + 1 }, [])

/-- statement on the pool (no transaction): auto-commit -/
def drvExecPool (o : Oracle) (w : Write) (db : DB) : DB × Err :=
  let n := db.calls
  let (db, f) := tick o .W db
  if f then (db, [.inj n]) else
    match w.apply db.committed with
    | .ok s => ({ db with committed := s }, [])
    | .error a => (db, [a])

/-- statement on a `*sql.Tx`: `ErrTxDone` without a driver call once the tx is finished -/
def drvExecTx (o : Oracle) (w : Write) (db : DB) : DB × Err :=
  match db.tx with
  | none => (db, [.txDone])
  | some t =>
    let n := db.calls
    let (db, f) := tick o .W db
    if f then (db, [.inj n]) else
      match w.apply t.cur with
      | .ok s => ({ db with tx := some { t with cur := s } }, [])
      | .error a => (db, [a])

/-- rows a SELECT with the handle's chained `id <> k` conditions returns -/
def visible (cond : List Nat) (s : Store) : Store := s.filter (fun x => !cond.contains x)

def drvQueryPool (o : Oracle) (cond : List Nat) (db : DB) : DB × Err :=
  let n := db.calls
  let (db, f) := tick o .Q db
  if f then (db, [.inj n]) else ({ db with reads := visible cond db.committed :: db.reads }, [])

def drvQueryTx (o : Oracle) (cond : List Nat) (db : DB) : DB × Err :=
  match db.tx with
  | none => (db, [.txDone])
  | some t =>
    let n := db.calls
    let (db, f) := tick o .Q db
    if f then (db, [.inj n]) else ({ db with reads := visible cond t.cur :: db.reads }, [])

/-- `SAVEPOINT name` on the tx connection -/
def drvSavepoint (o : Oracle) (name : SpName) (db : DB) : DB × Err :=
  match db.tx with
  | none => (db, [.txDone])
  | some t =>
    let n := db.calls
    let (db, f) := tick o .S db
    if f then (db, [.inj n]) else ({ db with tx := some { t with saves := (name, t.cur) :: t.saves } }, [])

/-- SQLite: most recent save point with that name; later ones are cancelled, the named one stays -/
def findSp (name : SpName) : List (SpName × Store) → Option (Store × List (SpName × Store))
  | [] => none
  | (n, s) :: rest => if n = name then some (s, (n, s) :: rest) else findSp name rest

/-- `ROLLBACK TO SAVEPOINT name` -/
def drvRollbackTo (o : Oracle) (name : SpName) (db : DB) : DB × Err :=
  match db.tx with
  | none => (db, [.txDone])
  | some t =>
    let n := db.calls
    let (db, f) := tick (fun k => o k && db.rbFaultable) .T db
    if f then ({ db with rbFault := true }, [.inj n]) else
      match findSp name t.saves with
      | none => (db, [.noSavepoint])
      | some (s, sv) => ({ db with tx := some { cur := s, saves := sv } }, [])

/-- `sql.Tx.Commit`: a failed COMMIT discards the transaction; the connection is released either way -/
def drvCommit (o : Oracle) (db : DB) : DB × Err :=
  match db.tx with
  | none => (db, [.txDone])
  | some t =>
    let n := db.calls
    let (db, f) := tick o .C db
    if f then ({ db with tx := none }, [.inj n]) else ({ db with committed := t.cur, tx := none }, [])

/-- `sql.Tx.Rollback` -/
def drvRollback (db : DB) : DB × Err :=
  match db.tx with
  | none => (db, [.txDone])
  | some _ => ({ tickR db with tx := none }, [])

/-! ### Layer 2: gorm -/

/-- dynamic type of `Statement.ConnPool` -/
inductive Pool where
  | sqlDB      -- *sql.DB
  | prepDB     -- *PreparedStmtDB   (Config.PrepareStmt)
  | sqlTx      -- *sql.Tx
  | prepTx     -- *PreparedStmtTX
deriving DecidableEq, Repr

/-- finisher_api.go:624 `db.Statement.ConnPool.(TxCommitter)` -/
def Pool.isCommitter : Pool → Bool
  | .sqlTx | .prepTx => true
  | _ => false

structure Cfg where
  prep : Bool    -- PrepareStmt
  dis : Bool     -- DisableNestedTransaction
  skip : Bool    -- SkipDefaultTransaction
  beginGuard : Bool := false   -- NOT a gorm setting — which CODE is being modelled: finisher_api.go `Begin` returns the new handle
                               --   before touching the pool when it already carries an error (`if tx.Error != nil { return tx }`,
                               --   the repair of finding F27). The driver sets it from the regenerated fact `Gen.beginChecksError`.
deriving DecidableEq, Repr

/-- `DB.clone`: 0 = a chained instance (result of Where/Model/…; operations run ON it), 1 = operations start from a NEW
    Statement (gorm.go:408), 2 = operations start from a CLONE of the handle's Statement (gorm.go:420) -/
inductive Clone where | c0 | c1 | c2
deriving DecidableEq, Repr

/-- a `*gorm.DB` handle: the dynamic type of `Statement.ConnPool`, its sticky `Error`, the per-handle copy of the Config
    flags a `Session` can switch on (gorm.go:227 `txConfig = *db.Config`), the chained conditions its Statement holds and
    its clone mode -/
structure Handle where
  pool : Pool
  err : Err := []
  skip : Bool := false      -- Session{SkipDefaultTransaction: true} was applied on the way to this handle
  dis : Bool := false       -- Session{DisableNestedTransaction: true} was applied on the way to this handle
  cond : List Nat := []     -- `Where("id <> ?", k)` conditions held by the handle's Statement
  clone : Clone := .c1
deriving DecidableEq, Repr

/-- the conditions an operation issued on the handle runs with: a clone = 1 handle starts from a new Statement -/
def Handle.effCond (h : Handle) : List Nat := if h.clone = .c1 then [] else h.cond

def Cfg.root (c : Cfg) : Handle := { pool := if c.prep then .prepDB else .sqlDB }

/-- ways of deriving a handle from a handle (user code inside or outside a transaction) -/
inductive Derive where
  | keep         -- Session{} / SkipHooks / Context / Logger / NowFunc / QueryFields / CreateBatchSize / AllowGlobalUpdate /
                 -- FullSaveAssociations / PropagateUnscoped / DryRun:false, WithContext
  | prep         -- Session{PrepareStmt: true}
  | newDB        -- Session{NewDB: true}
  | skipTx       -- Session{SkipDefaultTransaction: true}
  | disNested    -- Session{DisableNestedTransaction: true}
  | chain        -- a chain method without conditions: Model / Table / Select / Set (getInstance; the result has clone = 0)
  | whereNe (k : Nat)   -- chained `.Where("id <> ?", k)`
  | initialized  -- Session{Initialized: true}: Session, then getInstance
  | debug        -- Debug(): getInstance, then Session{Logger}
deriving DecidableEq, Repr

/-- gorm.go:405 `getInstance` on (conditions, clone): clone = 1 → new Statement; clone = 2 → cloned; clone = 0 → the handle itself -/
def stChain (s : List Nat × Clone) : List Nat × Clone := (if s.2 = .c1 then [] else s.1, .c0)

/-- effect of a derivation on (Statement conditions, clone). `Session` keeps the Statement POINTER (gorm.go:230) and sets
    clone = 2 unless NewDB (:299); NewDB keeps clone = 1 — the old conditions stay in the Statement and are only ignored
    by getInstance, so a later plain Session on that handle brings them back. -/
def deriveSt : Derive → List Nat × Clone → List Nat × Clone
  | .keep, s | .prep, s | .skipTx, s | .disNested, s => (s.1, .c2)
  | .newDB, s => (s.1, .c1)
  | .chain, s => stChain s
  | .whereNe k, s => (k :: (stChain s).1, .c0)
  | .initialized, s => (s.1, .c0)
  | .debug, s => ((stChain s).1, .c2)

/-- finisher_api.go:667 `db.getInstance().Session(&Session{Context: …, NewDB: db.clone == 1})` -/
def beginSt (s : List Nat × Clone) : List Nat × Clone := if s.2 = .c1 then ([], .c1) else (s.1, .c2)

/-- finisher_api.go:639 `db.Session(&Session{NewDB: db.clone == 1})` -/
def nestSt (s : List Nat × Clone) : List Nat × Clone := if s.2 = .c1 then (s.1, .c1) else (s.1, .c2)

/-- gorm.go:226 `Session` (and :405 `getInstance` for chain methods): `Error` and `Statement.ConnPool` are COPIED, so the new
    handle stays on the transaction's connection. Session{PrepareStmt} (:262-283): `case Tx:` wraps the transaction
    (`*sql.Tx`, a `*PreparedStmtTX` — double wrapping — or a custom pool's Tx) in a `*PreparedStmtTX`; `default:` a
    `*PreparedStmtDB` over the pool. -/
def derive (k : Derive) (h : Handle) : Handle :=
  { h with
    pool := match k, h.pool with | .prep, .sqlDB => .prepDB | .prep, .sqlTx => .prepTx | _, p => p
    skip := h.skip || k = .skipTx
    dis := h.dis || k = .disNested
    cond := (deriveSt k (h.cond, h.clone)).1
    clone := (deriveSt k (h.cond, h.clone)).2 }

/-- the handle a nested Transaction passes to its function -/
def nestH (h : Handle) : Handle :=
  { h with cond := (nestSt (h.cond, h.clone)).1, clone := (nestSt (h.cond, h.clone)).2 }

/-- `AddError` of a SavePoint/RollbackTo result: on a clone = 0 handle the dialector's `tx.Exec` runs ON the handle
    (getInstance returns it), so the error is already in `db.Error` when `db.AddError(…)` adds it again -/
def spErr (h : Handle) (e : Err) : Err := addError (if h.clone = .c0 then e else h.err) e

def markStale (h : Handle) (db : DB) : DB := if h.err = [] then db else { db with stale := true }

def beginH (h : Handle) (p : Pool) (e : Err) : Handle :=
  { h with pool := p, err := e, cond := (beginSt (h.cond, h.clone)).1, clone := (beginSt (h.cond, h.clone)).2 }

/-- `BeginTx` as `Begin` calls it: through a clean handle the transaction it opens is the one the new handle works on;
    through a handle that carries an error it is an orphan -/
def drvBeginVia (o : Oracle) (h : Handle) (db : DB) : DB × Err :=
  if h.err = [] then drvBegin o db else drvBeginOrphan o db

/-- finisher_api.go:664 `Begin`: new handle (Session copies Error and ConnPool); [repaired tree only, `g`: `if tx.Error != nil
    { return tx }` — the handle is handed back as it is, pool untouched;] type switch TxBeginner (`*sql.DB`) /
    ConnPoolBeginner (`*PreparedStmtDB`, prepare_stmt.go:139 → `&PreparedStmtTX{Tx: tx}`) / default ErrInvalidTransaction.
    Without the early return `BeginTx` is called WHATEVER `tx.Error` is, and `tx.AddError(err)` only adds to it. -/
def gormBegin (g : Bool) (o : Oracle) (h : Handle) (db : DB) : DB × Handle :=
  if g = true ∧ h.err ≠ [] then (db, beginH h h.pool h.err) else
  match h.pool with
  | .sqlDB => let (db, e) := drvBeginVia o h db; (db, beginH h .sqlTx (addError h.err e))
  | .prepDB => let (db, e) := drvBeginVia o h db; (db, beginH h .prepTx (addError h.err e))
  | p => (db, beginH h p (addError h.err [.invalidTx]))

/-- finisher_api.go:692 `Commit` (+ prepare_stmt.go:213 `PreparedStmtTX.Commit` forwarding to `tx.Tx.Commit()`) -/
def gormCommit (o : Oracle) (h : Handle) (db : DB) : DB × Handle :=
  match h.pool with
  | .sqlTx => let (db, e) := drvCommit o db; (db, { h with err := addError h.err e })
  | .prepTx => let (db, e) := drvCommit o db; (db, { h with err := addError h.err e })
  | _ => (db, { h with err := addError h.err [.invalidTx] })

/-- finisher_api.go:702 `Rollback` (+ prepare_stmt.go:220) -/
def gormRollback (h : Handle) (db : DB) : DB × Handle :=
  match h.pool with
  | .sqlTx => let (db, e) := drvRollback db; (db, { h with err := addError h.err e })
  | .prepTx => let (db, e) := drvRollback db; (db, { h with err := addError h.err e })
  | _ => (db, { h with err := addError h.err [.invalidTx] })

/-- the dialector's `tx.Exec("SAVEPOINT …")`: getInstance copies `h.Error`; callbacks/raw.go RawExec runs only `if db.Error == nil` -/
def execRawTx (h : Handle) (call : DB → DB × Err) (db : DB) : DB × Err :=
  if h.err = [] then call db else (db, h.err)

/-- finisher_api.go:714 `SavePoint`: (unwrap *PreparedStmtTX to its Tx,) run the statement, `db.AddError` ON THE HANDLE ITSELF -/
def gormSavePoint (o : Oracle) (h : Handle) (name : SpName) (db : DB) : DB × Handle :=
  let (db, e) := execRawTx h (drvSavepoint o name) db
  (db, { h with err := spErr h e })

/-- finisher_api.go:738 `RollbackTo` -/
def gormRollbackTo (o : Oracle) (h : Handle) (name : SpName) (db : DB) : DB × Handle :=
  let (db, e) := execRawTx h (drvRollbackTo o name) db
  (db, { h with err := spErr h e })

/-- `DELETE … WHERE id <> k AND id = k` touches nothing -/
def effWrite (cond : List Nat) : Write → Write
  | .del k => if cond.contains k then .nop else .del k
  | w => w

/-- `h.Create(&item)` / `h.Delete(&item, id)`: fresh statement instance (Error copied from the handle);
    callbacks/transaction.go BeginTransaction (skipped when SkipDefaultTransaction or Error ≠ nil; ErrInvalidTransaction of a
    tx pool is swallowed), the statement (`if db.Error != nil return`), CommitOrRollbackTransaction. The handle is not modified. -/
def gormWrite (c : Cfg) (o : Oracle) (h : Handle) (w0 : Write) (db : DB) : DB × Err :=
  let w := effWrite h.effCond w0
  if h.err ≠ [] then (db, h.err) else
  if h.pool.isCommitter then drvExecTx o w db
  else if c.skip || h.skip then drvExecPool o w db
  else
    let (db, tx) := gormBegin c.beginGuard o h db
    if tx.err ≠ [] then (db, tx.err) else
      let (db, e) := drvExecTx o w db
      if e ≠ [] then
        let (db, _) := gormRollback tx db
        (db, e)
      else
        let (db, tx) := gormCommit o tx db
        (db, tx.err)

/-- `h.Find(&items)`: query pipeline has no transaction callbacks; callbacks/query.go `if db.Error == nil` -/
def gormQuery (o : Oracle) (h : Handle) (db : DB) : DB × Err :=
  if h.err ≠ [] then (db, h.err) else
  if h.pool.isCommitter then drvQueryTx o h.effCond db else drvQueryPool o h.effCond db

/-- `h.First(&item, -1)`: a query that matches no row (callbacks/query.go `if db.Error == nil`; no transaction callbacks).
    Returns the error the RESULT handle carries: the handle's own when it already had one (nothing is executed), the injected
    fault, sql.ErrTxDone on a finished transaction, else gorm.ErrRecordNotFound. Nothing is recorded in `reads`. -/
def gormMiss (o : Oracle) (h : Handle) (db : DB) : DB × Err :=
  if h.err ≠ [] then (db, h.err) else
  if h.pool.isCommitter && db.tx.isNone then (db, [.txDone]) else
    let n := db.calls
    let (db, f) := tick o .Q db
    (db, if f then [.inj n] else [.notFound])

/-- where a handle that ALREADY CARRIES AN ERROR comes from (user code) -/
inductive FailSrc where
  | addErr (t : Nat)     -- `h2 := h.Session(&Session{})` (or WithContext); `h2.AddError(errT)`
  | firstMiss            -- `h2 := h.First(&item, -1)`: the handle RETURNED by a failed finisher (a chained, clone = 0 instance)
deriving DecidableEq, Repr

/-- the failed handle user code goes on working through (gorm.go:226 Session / :405 getInstance copy `Error`) -/
def failH (o : Oracle) (src : FailSrc) (h : Handle) (db : DB) : DB × Handle :=
  match src with
  | .addErr t => (db, { derive .keep h with err := addError h.err [.user t] })
  | .firstMiss => let (db, e) := gormMiss o h db; (db, { derive .chain h with err := e })

/-! ### Layer 3: programs -/

inductive Out where | retNil | retErr | panic
deriving DecidableEq, Repr

inductive Fin where | commit | rollback
deriving DecidableEq, Repr

inductive Prog where
  | write (w : Write) (must : Bool)
  | read (must : Bool)
  | blk (body : List Prog) (out : Out) (tag : Nat) (must : Bool)     -- h.Transaction(func(tx) error { body; out })
  | man (body : List Prog) (fin : Fin) (must : Bool)                 -- tx := h.Begin(); body; tx.Commit()/tx.Rollback()
  | sp (name : Nat) (must : Bool)                                    -- h.SavePoint(name)
  | rb (name : Nat) (must : Bool)                                    -- h.RollbackTo(name)
  | dv (k : Derive) (body : List Prog) (must : Bool)                 -- h2 := derive k h; body on h2 (h itself is not modified)
  | endtx (must : Bool)                                              -- the transaction is ended UNDERNEATH the running function:
                                                                     --   `h.Rollback()` called inside the block, or the context the
                                                                     --   transaction was begun with is cancelled and database/sql's
                                                                     --   watcher has rolled it back (connection released)
  | fh (src : FailSrc) (body : List Prog) (must : Bool)              -- h2 := a handle derived from h that carries an error; body on h2
deriving Repr

def Prog.must : Prog → Bool
  | .write _ m | .read m | .blk _ _ _ m | .man _ _ m | .sp _ m | .rb _ m | .dv _ _ m | .endtx m | .fh _ _ m => m

def outRes (out : Out) (tag : Nat) : Res :=
  match out with
  | .retNil => .ok
  | .retErr => .err [.user tag]
  | .panic => .panic tag

/-- end of the user function: a failed `must` child has already decided the result, otherwise the block's own outcome;
    returning nil on a handle whose Error is set counts as a stale use (the caller will Commit on it) -/
def fnEnd (h : Handle) (r : Res) (out : Out) (tag : Nat) (db : DB) : DB × Res :=
  match r with
  | .ok => (if out = .retNil then markStale h db else db, outRes out tag)
  | r => (db, r)

/-- finisher_api.go:653-656 + the deferred handler :646-651, top-level branch, after `fc(tx)` returned/panicked:
    `if err = fc(tx); err == nil { panicked = false; return tx.Commit().Error }` … `defer if panicked || err != nil { tx.Rollback() }` -/
def finishRoot (o : Oracle) (h : Handle) (out : Out) (tag : Nat) : DB × Handle × Res → DB × Handle × Res
  | (db, tx, r) =>
    let (db, r) := fnEnd tx r out tag db
    match r with
    | .ok =>
      let (db, tx) := gormCommit o tx db                       -- :655 `return tx.Commit().Error` (err := tx.Error, sticky)
      if tx.err ≠ [] then
        let (db, _) := gormRollback tx db                      -- :648 deferred: err != nil ⇒ tx.Rollback() (ErrTxDone, discarded)
        (db, h, .err tx.err)
      else (db, h, .ok)
    | r =>
      let (db, _) := gormRollback tx db                        -- :648 deferred rollback on error / panic
      (db, h, r)

/-- finisher_api.go:632-639,659, nested branch with save point `name`, after `fc(…)` returned/panicked -/
def finishNested (o : Oracle) (h1 : Handle) (name : SpName) (out : Out) (tag : Nat) : DB × Handle × Res → DB × Handle × Res
  | (db, inner, r) =>
    let (db, r) := fnEnd inner r out tag db
    match r with
    | .ok => (db, h1, .ok)                                     -- :659 panicked = false; return (no RELEASE)
    | r =>                                                     -- :632 deferred `if panicked || err != nil { db.RollbackTo(…) }`
      let (db, h2) := gormRollbackTo o h1 name db              --      result discarded (but AddError hits the handle)
      (db, h2, r)

/-- finisher_api.go:639 with DisableNestedTransaction: fc runs on the same transaction, nothing is undone here -/
def finishDis (h : Handle) (out : Out) (tag : Nat) : DB × Handle × Res → DB × Handle × Res
  | (db, inner, r) =>
    let (db, r) := fnEnd inner r out tag db
    (db, h, r)

/-- the well-behaved manual caller after its body (harness/c04_run.go runMan) -/
def finishMan (o : Oracle) (h : Handle) (fin : Fin) : DB × Handle × Res → DB × Handle × Res
  | (db, tx, r) =>
    match r with
    | .ok =>
      let db := markStale tx db
      match fin with
      | .commit => let (db, tx) := gormCommit o tx db; (db, h, resOf tx.err)
      | .rollback => let (db, tx) := gormRollback tx db; (db, h, resOf tx.err)
    | r =>
      let (db, _) := gormRollback tx db
      (db, h, r)

mutual
/-- one child statement of a function body executed on handle `h`; returns the handle (its sticky Error may have changed) -/
def runChild (c : Cfg) (o : Oracle) (h : Handle) : Prog → DB → DB × Handle × Res
  | .write w _, db =>
    let (db, e) := gormWrite c o h w (markStale h db)
    (db, h, resOf e)
  | .read _, db =>
    let (db, e) := gormQuery o h (markStale h db)
    (db, h, resOf e)
  | .sp n _, db =>
    let (db, h') := gormSavePoint o h (.manual n) (markStale h db)
    (db, h', resOf h'.err)
  | .rb n _, db =>
    let (db, h') := gormRollbackTo o h (.manual n) (markStale h db)
    (db, h', resOf h'.err)
  -- finisher_api.go:621 `Transaction`
  | .blk body out tag _, db =>
    let db := markStale h db
    if h.pool.isCommitter then                                   -- :624 TxCommitter type test
      if !(c.dis || h.dis) then                                  -- :626
        let name := SpName.auto db.calls                         -- :627
        let (db, h1) := gormSavePoint o h name db                -- :628 `err = db.SavePoint(…).Error`
        if h1.err ≠ [] then (db, h1, .err h1.err)                -- :629 fc is not run
        else
          -- :639 `fc(db.Session(&Session{NewDB: db.clone == 1}))`: a NEW handle with the same pool and a copy of Error
          finishNested o h1 name out tag (runBody c o (nestH h1) body db)
      else
        finishDis h out tag (runBody c o (nestH h) body db)
    else
      let (db, tx) := gormBegin c.beginGuard o h db              -- :641
      if tx.err ≠ [] then (db, h, .err tx.err)                   -- :642
      else finishRoot o h out tag (runBody c o tx body db)       -- :653 fc(tx)
  -- a well-behaved caller of the manual API (user code; see harness/c04_run.go runMan)
  | .man body fin _, db =>
    let db := markStale h db
    let (db, tx) := gormBegin c.beginGuard o h db
    if tx.err ≠ [] then (db, h, .err tx.err)
    else finishMan o h fin (runBody c o tx body db)
  -- user code derives a handle (Session / WithContext / Debug / chain method) and goes on working through it
  | .dv k body _, db =>
    match runBody c o (derive k h) body (markStale h db) with
    | (db, _, r) => (db, h, r)
  -- finisher_api.go:702 `Rollback` called by user code INSIDE the function on the handle it works through (`db.AddError` hits
  -- that handle); at driver level a cancelled context whose watcher goroutine finished is the same event
  | .endtx _, db =>
    let (db, h') := gormRollback h (markStale h db)
    (db, h', resOf h'.err)
  -- user code goes on working through a handle that already carries an error: its own AddError, or the handle a failed
  -- finisher returned (everything issued through it is refused — except that an unrepaired Begin still calls BeginTx)
  | .fh src body _, db =>
    match runBody c o (failH o src h (markStale h db)).2 body (failH o src h (markStale h db)).1 with
    | (db, _, r) => (db, h, r)

/-- the statements of a function body in order; a `must` child that fails ends the body with its error / panic,
    a non-`must` child's error is ignored and its panic recovered -/
def runBody (c : Cfg) (o : Oracle) (h : Handle) : List Prog → DB → DB × Handle × Res
  | [], db => (db, h, .ok)
  | p :: ps, db =>
    match runChild c o h p db with
    | (db1, h1, r) =>
      match r with
      | .ok => runBody c o h1 ps db1
      | r => if p.must then (db1, h1, r) else runBody c o h1 ps db1
end

/-- a whole program = a body run on the root handle of a fresh database -/
def run (c : Cfg) (o : Oracle) (ps : List Prog) (db : DB) : DB × Res :=
  let (db, _, r) := runBody c o c.root ps db
  (db, r)

/-! programs the model covers: SavePoint/RollbackTo are only issued on transaction handles -/
mutual
def wfChild (inTx : Bool) : Prog → Bool
  | .write _ _ | .read _ => true
  | .sp _ _ | .rb _ _ => inTx
  | .blk body _ _ _ => wfBody true body
  | .man body _ _ => wfBody true body
  | .dv _ body _ => wfBody inTx body
  | .endtx _ => inTx
  | .fh _ body _ => wfBody inTx body
def wfBody (inTx : Bool) : List Prog → Bool
  | [] => true
  | p :: ps => wfChild inTx p && wfBody inTx ps
end

/-! programs in which no transaction is ended underneath its function -/
mutual
def noEndChild : Prog → Bool
  | .endtx _ => false
  | .blk body _ _ _ | .man body _ _ | .dv _ body _ | .fh _ body _ => noEndBody body
  | _ => true
def noEndBody : List Prog → Bool
  | [] => true
  | p :: ps => noEndChild p && noEndBody ps
end

/-! the payload tags of all `panic` outcomes a program can raise -/
mutual
def panicTagsChild : Prog → List Nat
  | .blk body out tag _ => (if out = .panic then [tag] else []) ++ panicTagsBody body
  | .man body _ _ | .dv _ body _ | .fh _ body _ => panicTagsBody body
  | _ => []
def panicTagsBody : List Prog → List Nat
  | [] => []
  | p :: ps => panicTagsChild p ++ panicTagsBody ps
end

/-! programs without handles that carry a user-made error (the fragment the functional reference `spec` covers) -/
mutual
def noFailChild : Prog → Bool
  | .fh _ _ _ => false
  | .blk body _ _ _ | .man body _ _ | .dv _ body _ => noFailBody body
  | _ => true
def noFailBody : List Prog → Bool
  | [] => true
  | p :: ps => noFailChild p && noFailBody ps
end

/-! the pattern of finding F27, negated: no `Transaction` / `Begin` is invoked OUTSIDE a transaction on a handle that carries an
    error. `failed` = the handle the statements run on may carry one. (Outside transactions only `.fh` makes such handles;
    inside a transaction Begin never reaches the pool, so block / manual-sequence bodies need no inspection.) -/
mutual
def safeChild (failed : Bool) : Prog → Bool
  | .blk _ _ _ _ | .man _ _ _ => !failed
  | .dv _ body _ => safeBody failed body
  | .fh _ body _ => safeBody true body
  | _ => true
def safeBody (failed : Bool) : List Prog → Bool
  | [] => true
  | p :: ps => safeChild failed p && safeBody failed ps
end

def noBeginOnFailed (ps : List Prog) : Bool := safeBody false ps

/-! ### callbacks/transaction.go on `Statement.ConnPool` of the statement instance an operation runs on

  For a chained (clone = 0) handle kept in a variable that instance IS the handle, so what the two callbacks leave in
  `Statement.ConnPool` decides where the NEXT operation through the handle runs. -/

structure OpSt where
  stmtPool : Pool           -- db.Statement.ConnPool
  cfgPool : Pool            -- db.ConnPool (Config.ConnPool of the handle: the pool it was opened on / Session{PrepareStmt} put there)
  started : Bool := false   -- InstanceGet("gorm:started_transaction")
deriving DecidableEq, Repr

/-- callbacks/transaction.go:7 `BeginTransaction`: `if !SkipDefaultTransaction && db.Error == nil { if tx := db.Begin(); tx.Error == nil
    { db.Statement.ConnPool = tx.Statement.ConnPool; InstanceSet("gorm:started_transaction", true) } else if ErrInvalidTransaction … }`;
    `db.Begin()` succeeds only on a TxBeginner / ConnPoolBeginner pool (finisher_api.go:676) whose BEGIN is not failed -/
def beginTransactionSt (skip errNil beginOk : Bool) (s : OpSt) : OpSt :=
  if !skip && errNil then
    match s.stmtPool with
    | .sqlDB => if beginOk then { s with stmtPool := .sqlTx, started := true } else s
    | .prepDB => if beginOk then { s with stmtPool := .prepTx, started := true } else s
    | _ => s                                        -- a transaction pool: ErrInvalidTransaction, swallowed, no mark
  else s

/-- callbacks/transaction.go:20 `CommitOrRollbackTransaction`: only `if _, ok := db.InstanceGet("gorm:started_transaction"); ok`
    the transaction is finished and `db.Statement.ConnPool = db.ConnPool` -/
def commitOrRollbackSt (skip : Bool) (s : OpSt) : OpSt :=
  if !skip then (if s.started then { s with stmtPool := s.cfgPool, started := false } else s) else s

/-- a whole create / update / delete pipeline, as far as `Statement.ConnPool` goes -/
def writeSt (skip errNil beginOk : Bool) (s : OpSt) : OpSt :=
  commitOrRollbackSt skip (beginTransactionSt skip errNil beginOk s)

/-! ### The reference: transactions as functional state restore

  `view` is the store the current function sees (the committed store at top level, the transaction's working store inside);
  `n` is the driver-call counter, needed only to consult the same fault oracle. -/

/-- what the reference knows about the handle an operation goes through: inside a transaction or not, the two per-handle
    Config flags, the chained conditions — no pools, no errors, no save-point names -/
structure Env where
  inTx : Bool
  skip : Bool
  dis : Bool
  cond : List Nat := []     -- conditions held by the Statement of the handle
  clone : Clone := .c1

def Env.effCond (e : Env) : List Nat := if e.clone = .c1 then [] else e.cond

def specDerive (k : Derive) (e : Env) : Env :=
  { e with skip := e.skip || k = .skipTx, dis := e.dis || k = .disNested,
           cond := (deriveSt k (e.cond, e.clone)).1, clone := (deriveSt k (e.cond, e.clone)).2 }

def Env.begin (e : Env) : Env :=
  { e with inTx := true, cond := (beginSt (e.cond, e.clone)).1, clone := (beginSt (e.cond, e.clone)).2 }
def Env.nest (e : Env) : Env :=
  { e with cond := (nestSt (e.cond, e.clone)).1, clone := (nestSt (e.cond, e.clone)).2 }

/-- a SAVEPOINT error is recorded twice on a clone = 0 handle (see `spErr`) -/
def spErrSpec (e : Env) (n : Nat) : Err := if e.clone = .c0 then [.inj n, .inj n] else [.inj n]

def specWrite (o : Oracle) (w : Write) (view : Store) (n : Nat) : Store × Nat × Res :=
  if o n then (view, n + 1, .err [.inj n]) else
    match w.apply view with
    | .ok s => (s, n + 1, .ok)
    | .error a => (view, n + 1, .err [a])

/-- result of the user function: its body's failure, else the block's own outcome -/
def specFnOut (out : Out) (tag : Nat) : Store × Nat × Res → Store × Nat × Res
  | (s, n', .ok) => (s, n', outRes out tag)
  | x => x

mutual
def specChild (o : Oracle) (e : Env) : Prog → Store → Nat → Store × Nat × Res
  | .write w0 _, v, n =>
    let w := effWrite e.effCond w0
    if e.inTx || e.skip then specWrite o w v n
    else if o n then (v, n + 1, .err [.inj n])                       -- implicit BEGIN fails
    else match specWrite o w v (n + 1) with
      | (s, _, .ok) => if o (n + 2) then (v, n + 3, .err [.inj (n + 2)]) else (s, n + 3, .ok)   -- implicit COMMIT
      | (_, _, r) => (v, n + 3, r)                                    -- implicit ROLLBACK
  | .read _, v, n => if o n then (v, n + 1, .err [.inj n]) else (v, n + 1, .ok)
  | .sp _ _, v, n => if o n then (v, n + 1, .err (spErrSpec e n)) else (v, n + 1, .ok)
  | .rb _ _, v, n => (v, n + 1, .err [.noSavepoint])                 -- outside the fragment the reference covers
  | .dv k body _, v, n => specBody o (specDerive k e) body v n       -- a derived handle is the same transaction
  | .endtx _, v, n => (v, n + 1, .ok)                                -- outside the fragment the reference covers (`noEnds`)
  | .fh _ _ _, v, n => (v, n, .ok)                                   -- outside the fragment the reference covers (`noFailBody`)
  | .blk body out tag _, v, n =>
    if e.inTx then
      if e.dis then specFnOut out tag (specBody o e.nest body v n)                       -- nothing of its own to undo
      else if o n then (v, n + 1, .err (spErrSpec e n))               -- SAVEPOINT fails: function not run
      else match specFnOut out tag (specBody o e.nest body v (n + 1)) with
        | (s, n', .ok) => (s, n', .ok)
        | (_, n', r) => (v, n' + 1, r)                                -- back to the entry store
    else if o n then (v, n + 1, .err [.inj n])                        -- BEGIN fails
    else match specFnOut out tag (specBody o e.begin body v (n + 1)) with
      | (s, n', .ok) => if o n' then (v, n' + 1, .err [.inj n']) else (s, n' + 1, .ok)     -- COMMIT
      | (_, n', r) => (v, n' + 1, r)                                  -- ROLLBACK
  | .man body fin _, v, n =>
    if e.inTx then (v, n, .err [.invalidTx])
    else if o n then (v, n + 1, .err [.inj n])
    else match specBody o e.begin body v (n + 1) with
      | (s, n', .ok) =>
        match fin with
        | .commit => if o n' then (v, n' + 1, .err [.inj n']) else (s, n' + 1, .ok)
        | .rollback => (v, n' + 1, .ok)
      | (_, n', r) => (v, n' + 1, r)
def specBody (o : Oracle) (e : Env) : List Prog → Store → Nat → Store × Nat × Res
  | [], v, n => (v, n, .ok)
  | p :: ps, v, n =>
    match specChild o e p v n with
    | (v1, n1, r) =>
      match r with
      | .ok => specBody o e ps v1 n1
      | r => if p.must then (v1, n1, r) else specBody o e ps v1 n1
end

def spec (c : Cfg) (o : Oracle) (ps : List Prog) (committed : Store) : Store × Res :=
  match specBody o { inTx := false, skip := c.skip, dis := c.dis } ps committed 0 with
  | (s, _, r) => (s, r)

end Gorm.Tx
