/-
  C06 (round 2) — the clause MAP of a statement (`Statement.Clauses : map[string]clause.Clause`), entries of every
  shape, through copy-on-derive (`Statement.clone`'s copy loop), `AddClause`, StatementModifiers, and through a
  query: `BuildQuerySQL` appending the generated joins to the caller's FROM clause and `AfterQuery` restoring it.

  What the copy loop / the restore DO is read from the regenerated facts in `Gen/C06Round2.lean`
  (extract/gen_c06r.go): the loop body as source text and the number of guards in it; the fields of the
  `clause.From{…}` literal `AfterQuery` stores.
-/
import GormModel.Gen.C06Round2
namespace Gorm.ClauseMap

/-- one entry of `Statement.Clauses`.  `Option Nat` = identity of an expression, `none` = nil.  Hint-style
    StatementModifiers (gorm.io/hints) create entries with `expr = none` and only `before` / `afterName` / `after` /
    `builder` set; `SoftDeleteQueryClause` leaves the completely empty marker `soft_delete_enabled`. -/
structure CEntry where
  key : String
  expr : Option Nat := none
  before : Option Nat := none
  afterName : Option Nat := none
  after : Option Nat := none
  builder : Bool := false
deriving Repr, DecidableEq

abbrev CMap := List CEntry

/-! ## statement.go `Statement.clone`: the copy loops, from the regenerated facts -/

/-- does the loop `for k, x := range <ranged>` of clone consist of exactly the one assignment `assign`, with no
    guard (if / switch / continue / break / return) anywhere in its body? -/
def copiesAll (ranged assign : String) : Bool :=
  match Gen.cloneRangeLoops.filter (fun l => l.1 == ranged) with
  | [l] => l.2.1 == [assign] && l.2.2 == 0
  | _ => false

/-- the copy of a map by a loop: every entry when the loop is the unconditional assignment; otherwise the model
    does not know what the loop copies -/
def cloneMapWith (all : Bool) (m : CMap) : Option CMap := if all then some m else none

/-- `newStmt.Clauses` after `Statement.clone` -/
def cloneMap (m : CMap) : Option CMap := cloneMapWith (copiesAll "stmt.Clauses" "newStmt.Clauses[k] = c") m

/-! ## statement.go `AddClause`, StatementModifiers -/

def lookup : CMap → String → CEntry
  | [], k => { key := k }
  | e :: r, k => if e.key = k then e else lookup r k

def store : CMap → CEntry → CMap
  | [], e => [e]
  | x :: r, e => if x.key = e.key then e :: r else x :: store r e

def remove : CMap → String → CMap
  | [], _ => []
  | e :: r, k => if e.key = k then remove r k else e :: remove r k

/-- what a chain method can do to the map of the statement it works on -/
inductive Op where
  | add (k : String) (x : Nat)              -- `AddClause(v)`: `c := Clauses[name]; c.Name = name; v.MergeClause(&c); Clauses[name] = c` (expression replaced/merged, decorations kept)
  | modify (k : String) (pos : Nat) (x : Nat) -- a hint: 0 BeforeExpression, 1 AfterNameExpression, else AfterExpression
  | setBuilder (k : String)
  | mark (k : String)                        -- `Clauses[k] = clause.Clause{}`
  | del (k : String)                         -- `delete(Clauses, k)`
deriving Repr, DecidableEq

def Op.key : Op → String
  | .add k _ | .modify k _ _ | .setBuilder k | .mark k | .del k => k

def apply (m : CMap) : Op → CMap
  | .add k x => store m { lookup m k with key := k, expr := some x }
  | .modify k 0 x => store m { lookup m k with key := k, before := some x }
  | .modify k 1 x => store m { lookup m k with key := k, afterName := some x }
  | .modify k _ x => store m { lookup m k with key := k, after := some x }
  | .setBuilder k => store m { lookup m k with key := k, builder := true }
  | .mark k => store m { key := k }
  | .del k => remove m k

/-- the map a chain method starts from: the receiver's own (clone 0), an empty one (clone 1), a copy (clone ≥ 2) -/
def start (clone : Nat) (m : CMap) : Option CMap :=
  match clone with
  | 0 => some m
  | 1 => some []
  | _ => cloneMap m

/-! ## a query: callbacks/query.go `BuildQuerySQL` + `AfterQuery` on the FROM clause's joins -/

/-- utils.RTrimSlice -/
def rtrim {α : Type} (l : List α) (n : Nat) : List α := if n ≥ l.length then [] else l.take (l.length - n)

inductive FromRestore where
  | rtrimJoins   -- `Joins: utils.RTrimSlice(v.Joins, len(db.Statement.Joins))`
  | keepJoins    -- `Joins: v.Joins`
  | dropJoins    -- no `Joins` field in the literal
  | unknown
deriving Repr, DecidableEq

/-- what the regenerated `clause.From{…}` literal of `AfterQuery` does with the joins -/
def fromRestore : FromRestore :=
  match Gen.afterQueryFromLiteral.filter (fun f => f.1 == "Joins") with
  | [] => .dropJoins
  | [f] => if f.2 == "utils.RTrimSlice(v.Joins, len(db.Statement.Joins))" then .rtrimJoins
           else if f.2 == "v.Joins" then .keepJoins else .unknown
  | _ => .unknown

/-- `BuildQuerySQL`: `fromClause = <the statement's FROM>`; every element of `Statement.Joins` appends the join
    clauses it generates (`gens`: one list per element — one clause for a raw / single-relation join) -/
def buildFrom (caller : List Nat) (gens : List (List Nat)) : List Nat := caller ++ gens.flatten

def afterQueryWith (r : FromRestore) (joins : List Nat) (nStmtJoins : Nat) : Option (List Nat) :=
  match r with
  | .rtrimJoins => some (rtrim joins nStmtJoins)
  | .keepJoins => some joins
  | .dropJoins => some []
  | .unknown => none

/-- the FROM joins of the statement after one executed query -/
def queryRound (r : FromRestore) (caller : List Nat) (gens : List (List Nat)) : Option (List Nat) :=
  afterQueryWith r (buildFrom caller gens) gens.length

def queryRounds (r : FromRestore) (gens : List (List Nat)) : Nat → List Nat → Option (List Nat)
  | 0, caller => some caller
  | k + 1, caller => (queryRound r caller gens).bind (queryRounds r gens k)

/-! ## finisher_api.go `Count`: what it writes and what it restores -/

/-- the statement target a "now" write of `Count` changes and that must be restored afterwards -/
def countTarget (w : String × String × String) : Option String :=
  if w.2.1 == "AddClause" then (if w.2.2 == "clause.Select" then some "tx.Statement.Clauses[\"SELECT\"]" else some ("AddClause " ++ w.2.2))
  else if w.2.1 == "tx.Statement.Dest" then none   -- Dest: every finisher sets its own
  else some w.2.1

/-- every immediate write of `Count` to the clause map / Model / Selects / Distinct has a deferred write to the
    same target -/
def countRestoresAll : Bool :=
  Gen.countStmtWrites.all (fun w =>
    w.1 != "now" ||
    match countTarget w with
    | none => true
    | some t => Gen.countStmtWrites.any (fun d => d.1 == "defer" && d.2.1 == t))

end Gorm.ClauseMap
