/-
  The TYPE of a condition value (C02 round 4): "This holds whatever form a unit takes …; slice values mean IN".

  Transcription of the dispatch statement.go `Statement.BuildCondition` and clause/expression.go `Eq.Build` / `Neq.Build`
  (+ statement.go `Statement.AddVar`) perform on the Go value of a condition — which depends ONLY on what reflection and
  interface assertions see of it (`GoVal`): its kind behind pointers, its length, whether it implements `driver.Valuer` /
  gorm's `Valuer`, whether its dynamic type is one of the exact slice types `Eq.Build` lists, whether `eqNil` holds.

    * `mapArm`   — `case map[string]interface{}`: per key `switch reflect.Indirect(reflect.ValueOf(v[key])).Kind()`;
                   `case reflect.Slice, reflect.Array:` first the Valuer guards (regenerated fact `Gen.mapSliceArmGuards`:
                   `if _, ok := v[key].(driver.Valuer); ok { Eq } else if _, ok := v[key].(Valuer); ok { Eq }`), only then
                   `clause.IN{Column: key, Values: <every element>}`; `default: clause.Eq{key, v[key]}`
    * `colArm`   — `Where("name", v)`: always ONE `clause.Eq{Column: s, Value: args[0]}`
    * `cvEqText` / `cvNeqText` — what `Eq.Build` / `Neq.Build` write (type switch on the listed slice types → IN list;
                   `eqNil` → IS [NOT] NULL; otherwise ` = ` / ` <> ` followed by `AddVar(value)`)
    * `cvAddVarText` — `Statement.AddVar` on one value: gorm `Valuer` → its GormValue expression (one placeholder for the
                   types the harness generates), `driver.Valuer` / `[]byte` → ONE bound value; otherwise by
                   `reflect.ValueOf(v).Kind()` (NOT indirected): slice/array of bytes → one value, empty → `(NULL)`, other
                   slice/array → `(?,…,?)`

  Tied to the real code by suite val.dispatch (harness/c02_vals.go) on generated typed values.
-/
import GormModel.Model.InList
import GormModel.Gen.CondKeyFacts
namespace Gorm

/-- `reflect.Indirect(reflect.ValueOf(v)).Kind()`; `invalid` = untyped nil or nil pointer -/
inductive GoKind | slice | array | invalid | other
deriving DecidableEq, Repr

structure GoVal where
  kind : GoKind
  len : Nat            -- `reflectValue.Len()` (slice / array)
  direct : Bool        -- `reflect.ValueOf(v).Kind()` itself is Slice/Array (no pointer in between)
  dv : Bool            -- `v.(driver.Valuer)` succeeds
  gv : Bool            -- `v.(gorm.Valuer)` succeeds
  eqListed : Bool      -- dynamic type ∈ {[]string, []int, []int32, []int64, []uint, []uint32, []uint64, []interface{}}
  isNil : Bool         -- clause `eqNil(v)`: nil, nil pointer, or a non-nil driver.Valuer whose Value() is nil
  elemByte : Bool      -- element type uint8
deriving DecidableEq, Repr

def GoKind.isList : GoKind → Bool
  | .slice | .array => true
  | _ => false

/-- which Valuer guards the slice/array arm of the map branch has (from the source, `Gen.mapSliceArmGuards`) -/
structure MapSliceGuards where
  driverValuer : Bool
  gormValuer : Bool
deriving DecidableEq, Repr

def genMapSliceGuards : MapSliceGuards :=
  { driverValuer := Gen.mapSliceArmGuards.contains "driver.Valuer", gormValuer := Gen.mapSliceArmGuards.contains "Valuer" }

inductive CondShape | eq | inList (n : Nat)
deriving DecidableEq, Repr

/-- statement.go BuildCondition, `case map[string]interface{}`, one key -/
def mapArm (g : MapSliceGuards) (v : GoVal) : CondShape :=
  if v.kind.isList then
    if g.driverValuer && v.dv then .eq
    else if g.gormValuer && v.gv then .eq
    else .inList v.len
  else .eq

/-- statement.go BuildCondition, string query without space / `?` / `@` and ONE argument -/
def colArm (_ : GoVal) : CondShape := .eq

/-- statement.go `AddVar` on one value -/
def cvAddVarText (v : GoVal) : String :=
  if v.gv then "?"                                   -- `case Valuer:` GormValue(…) of the generated types is `?`
  else if v.dv then "?"                              -- `case driver.Valuer:` one bound value
  else if v.kind.isList && v.direct then
    if v.len = 0 then "(NULL)"
    else if v.elemByte then "?"                      -- `case []byte:` / `rv.Type().Elem() == uint8`
    else "(" ++ qmarks v.len ++ ")"
  else "?"

/-- clause/expression.go `Eq.Build` after the column -/
def cvEqText (col : String) (v : GoVal) : String :=
  col ++ (if v.eqListed then (if v.len = 0 then " IN (NULL)" else " IN (" ++ qmarks v.len ++ ")")
          else if v.isNil then " IS NULL" else " = " ++ cvAddVarText v)

/-- clause/expression.go `Neq.Build` -/
def cvNeqText (col : String) (v : GoVal) : String :=
  col ++ (if v.eqListed then " NOT IN (" ++ qmarks v.len ++ ")"
          else if v.isNil then " IS NOT NULL" else " <> " ++ cvAddVarText v)

/-- the shape `Eq.Build` gives the value of an `Eq` comparison, in the vocabulary of Model/Where.lean -/
def GoVal.valShape (v : GoVal) : ValShape :=
  if v.eqListed then .list v.len else if v.isNil then .nil else .scalar

/-- the comparison the map branch builds for `key: v` as an `Atom` of the WHERE model; `id` = its base predicate
    (`col = Value()` for a scalar, `col IN elements` for a list) -/
def mapAtom (g : MapSliceGuards) (col : String) (id : Nat) (v : GoVal) : Atom :=
  match mapArm g v with
  | .eq => { col := col, kind := .eq, val := v.valShape, id := id }
  | .inList n => { col := col, kind := .inK, val := .list n, id := id }

/-- a value that reaches the database as ONE bound parameter -/
def GoVal.oneVar (v : GoVal) : Bool := cvAddVarText v == "?"

/-- what the Go type system guarantees about the flags: the exact slice types `Eq.Build` lists are unnamed (no methods),
    direct slices, and never `eqNil` -/
def GoVal.wellTyped (v : GoVal) : Bool :=
  !v.eqListed || (v.kind == .slice && v.direct && !v.dv && !v.gv && !v.isNil)

end Gorm
