/-
  C11 — the parts of an eager load that are neither key strings nor conditions:

  (1) scan.go `(*DB).scanIntoStruct`: how the columns `Rel__Sub__col` of an association join are distributed over the
      nested relation structs of one result row, and which relation pointers get allocated ("did the LEFT JOIN match a
      row for this relation?");
  (2) callbacks/query.go `Preload`, callbacks/preload.go `preloadEntryPoint` / `preloadDB` / `preload`: the tree of
      sessions a load derives, and the `Statement.Unscoped` flag each of them runs its SELECT with;
  (3) callbacks/preload.go `preload`: the queries it sends in order and whether the error of each is returned.

  Core Lean only.
-/
namespace Gorm

/-! ## (1) scanIntoStruct -/

/-- full name of a nested relation, `utils.JoinNestedRelationNames` before joining with `__` -/
abbrev RelPath := List (List Char)

/-- one hop of a joined column's relation chain (`joinFields[idx][:len-1]`): the relation field and whether that field is a
    pointer (`relValue.Kind() == reflect.Ptr`) -/
structure JLevel where
  name : List Char
  ptr : Bool
deriving DecidableEq, Repr

/-- one joined column of one result row: relation chain, column, "the scanned value is a nil pointer" (SQL NULL) -/
structure JCell where
  chain : List JLevel
  col : List Char
  isNull : Bool
deriving DecidableEq, Repr

def JCell.path (c : JCell) : RelPath := c.chain.map (·.name)

/-- state of the per-row loop: `joinedNestedSchemaMap` (the relation structs allocated for THIS row) and the `f.Set` calls
    made so far (owner path, column, value is NULL) -/
structure ScanSt where
  alloc : List RelPath
  sets : List (RelPath × List Char × Bool)
deriving Repr

/-- scan.go:84-101, the loop `for _, joinSchema := range nestedJoinSchemas` for one column.
    Result: (isNilPtrValue, joinedNestedSchemaMap afterwards). -/
def walkChain (isNull : Bool) : RelPath → List JLevel → List RelPath → Bool × List RelPath
  | _, [], alloc => (false, alloc)
  | pre, l :: rest, alloc =>
    let full := pre ++ [l.name]                        -- fullRels = append(fullRels, joinSchema.Name)
    if l.ptr then                                      -- if relValue.Kind() == reflect.Ptr
      if alloc.contains full then                      --   if _, ok := joinedNestedSchemaMap[fullRelsName]; !ok {
        walkChain isNull full rest alloc
      else if isNull then (true, alloc)                --     if value … IsNil() { isNilPtrValue = true; break }
      else walkChain isNull full rest (alloc ++ [full]) --    relValue.Set(reflect.New(…)); joinedNestedSchemaMap[…] = nil
    else walkChain isNull full rest alloc

/-- scan.go:69-111 for one joined column -/
def scanCell (st : ScanSt) (c : JCell) : ScanSt :=
  let r := walkChain c.isNull [] c.chain st.alloc
  if r.1 then { st with alloc := r.2 }                 -- if !isNilPtrValue { f.Set(...) }
  else { alloc := r.2, sets := st.sets ++ [(c.path, c.col, c.isNull)] }

/-- one result row (the columns in SELECT order) -/
def scanRow (cells : List JCell) : ScanSt := cells.foldl scanCell ⟨[], []⟩

/-- the pointer-typed relation structs a column lies in or below: full names of the pointer hops of its chain -/
def ptrPrefixes : RelPath → List JLevel → List RelPath
  | _, [] => []
  | pre, l :: rest =>
    let full := pre ++ [l.name]
    if l.ptr then full :: ptrPrefixes full rest else ptrPrefixes full rest

/-- SPEC: relation `p` of a row is attached iff some column in or below it carries a value -/
def attachedSpec (cells : List JCell) (p : RelPath) : Prop :=
  ∃ c ∈ cells, c.isNull = false ∧ p ∈ ptrPrefixes [] c.chain

/-- the fault class "decide once per row from the FIRST column seen for the relation" (what the code must NOT do):
    a relation whose first column is NULL is never allocated for the row -/
def walkChainFirst (isNull : Bool) : RelPath → List JLevel → List (RelPath × Bool) → Bool × List (RelPath × Bool)
  | _, [], seen => (false, seen)
  | pre, l :: rest, seen =>
    let full := pre ++ [l.name]
    if l.ptr then
      match seen.find? (fun e => e.1 == full) with
      | some e => if e.2 then walkChainFirst isNull full rest seen else (true, seen)
      | none =>
        if isNull then (true, seen ++ [(full, false)])
        else walkChainFirst isNull full rest (seen ++ [(full, true)])
    else walkChainFirst isNull full rest seen

def scanRowFirst (cells : List JCell) : List RelPath :=
  ((cells.foldl (fun seen c => (walkChainFirst c.isNull [] c.chain seen).2) []).filter (·.2)).map (·.1)

/-! ## (2) the session tree of a load and `Statement.Unscoped` -/

/-- how the code derives the session of the next level -/
structure SessionRule where
  /-- `Session{NewDB: true}`: the new session starts from a fresh Statement (Unscoped = false) -/
  newDB : Bool
  /-- followed by `tx.Statement.Unscoped = db.Statement.Unscoped` -/
  copies : Bool
deriving DecidableEq, Repr

def SessionRule.derive (r : SessionRule) (parent : Bool) : Bool :=
  if r.copies then parent else if r.newDB then false else parent

/-- one step down the load tree -/
inductive LoadHop
  /-- through a JOINED relation of a slice destination (preloadEntryPoint, `case reflect.Slice, reflect.Array`) -/
  | joinedSlice
  /-- through a JOINED relation of a single record (`case reflect.Struct, reflect.Pointer`) -/
  | joinedStruct
  /-- through a PRELOADED relation: `preload` runs the child query, whose own Preload callback starts the next level -/
  | preloaded
deriving DecidableEq, Repr

structure PreloadSessions where
  /-- callbacks.Preload: the session handed to preloadEntryPoint -/
  root : SessionRule
  joinedSlice : SessionRule
  joinedStruct : SessionRule
  /-- preloadEntryPoint, relation not joined: the session handed to `preload` -/
  entry : SessionRule
  /-- Statement.clone copies `Unscoped` (the chain `tx.Where(..).Find(..)` inside `preload` runs on clones) -/
  cloneKeeps : Bool
deriving DecidableEq, Repr

def PreloadSessions.keep (s : PreloadSessions) (b : Bool) : Bool := if s.cloneKeeps then b else false

/-- Unscoped of the child query `preload` sends when it is handed entry-point session flag `flag` -/
def PreloadSessions.query (s : PreloadSessions) (flag : Bool) : Bool := s.keep (s.entry.derive flag)

/-- flag of the entry-point session reached from one with `flag` through `hops` -/
def sessionAt (s : PreloadSessions) (flag : Bool) : List LoadHop → Bool
  | [] => flag
  | .joinedSlice :: rest => sessionAt s (s.joinedSlice.derive flag) rest
  | .joinedStruct :: rest => sessionAt s (s.joinedStruct.derive flag) rest
  | .preloaded :: rest => sessionAt s (s.root.derive (s.query flag)) rest

/-- the `Unscoped` flag of the SELECT that loads a relation reached through `hops`, for a finisher whose statement has
    `Unscoped = u` -/
def childQueryUnscoped (s : PreloadSessions) (u : Bool) (hops : List LoadHop) : Bool :=
  s.query (sessionAt s (s.root.derive u) hops)

def SessionRule.Inherits (r : SessionRule) : Prop := r.copies = true ∨ r.newDB = false

instance (r : SessionRule) : Decidable r.Inherits := by unfold SessionRule.Inherits; exact inferInstance

def PreloadSessions.Inherits (s : PreloadSessions) : Prop :=
  s.root.Inherits ∧ s.joinedSlice.Inherits ∧ s.joinedStruct.Inherits ∧ s.entry.Inherits ∧ s.cloneKeeps = true

instance (s : PreloadSessions) : Decidable s.Inherits := by unfold PreloadSessions.Inherits; exact inferInstance

/-! ## (3) the queries of one `preload` call and their errors -/

inductive LoadOutcome
  | complete           -- every query ran: the attachment is the one the theorems above describe
  | errorReported      -- the finisher's Error is non-nil
  | silentlyIncomplete -- a query failed, its rows are missing, and no error is reported
deriving DecidableEq, Repr

/-- `checked[i]` = the error of the i-th query of the load is tested and returned (`if err := ….Find(…).Error; err != nil
    { return err }`); `failAt` = index of the query the driver fails (none = no fault) -/
def loadOutcome (checked : List Bool) (failAt : Option Nat) : LoadOutcome :=
  match failAt with
  | none => .complete
  | some k =>
    match checked[k]? with
    | none => .complete            -- no such query: nothing failed
    | some true => .errorReported
    | some false => .silentlyIncomplete

end Gorm
