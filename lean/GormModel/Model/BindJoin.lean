/-
  C01 — the places OUTSIDE `Statement.AddVar` that render on a private statement and re-template, and the
  entry points that decide between `clause.Expr` and `clause.NamedExpr`.

  Transcribed from
    callbacks/query.go   BuildQuerySQL, genJoinClause: the block that renders the ON handle of a relation join
                         (`Joins("Company", db.Where(..))`) on `onStmt`, re-templates and re-binds it; and the raw-join
                         branches (`clause.Join{Expression: clause.NamedExpr{SQL: join.Name, Vars: join.Conds}}`)
    clause/joins.go      Join.Build (` ON ` + ON.Build)
    chainable_api.go     DB.Raw, DB.Select (string query with args)
    finisher_api.go      DB.Exec
  Tied to the real code by the harness suites "join-on" and "dispatch" (harness/c01_corr2.go).
  Core Lean only.
-/
import GormModel.Model.Bind
namespace Gorm.Bind

section
variable {β : Type}

/-- callbacks/query.go genJoinClause:
    ```
    onStmt := gorm.Statement{Table: tableAliasName, DB: db, Clauses: …}
    for _, c := range relation.FieldSchema.QueryClauses { onStmt.AddClause(c) }; if join.On != nil { onStmt.AddClause(join.On) }
    … where.Build(&onStmt)
    if onSQL := onStmt.SQL.String(); onSQL != "" {
      vars := onStmt.Vars
      for idx, v := range vars { bindvar := strings.Builder{}; onStmt.Vars = vars[0 : idx+1]
        db.Dialector.BindVarTo(&bindvar, &onStmt, v); onSQL = strings.Replace(onSQL, bindvar.String(), "?", 1) }
      exprs = append(exprs, clause.Expr{SQL: onSQL, Vars: vars}) }
    ```
    `on` = the members of the merged WHERE of the private statement (QueryClauses of the joined model first, then
    the handle's conditions; plain members).  `BindVarTo` on `vars[0:idx+1]` prints the placeholder of the
    (idx+1)-th var: the same loop as `retemplate d 1 n`. -/
def joinOnExpr (d : Dialect) (on : List (Val β)) : Option (Val β) :=
  let st := render d (.whereC on)
  let onSQL := concretize d st.segs
  if onSQL.isEmpty then none
  else some (.expr (retemplate d 1 st.vars.length onSQL) st.vars false)

/-- the ON condition list of the generated `clause.Join`: `exprs` (one Eq per reference) plus the re-bound handle -/
def joinOnExprs (d : Dialect) (refs : List (Val β)) (on : List (Val β)) : List (Val β) :=
  match joinOnExpr d on with
  | some e => refs ++ [e]
  | none => refs

/-- the fragment of the outer statement around ONE relation join, as `Statement.Build` sees it:
    the SELECT expression (`pre`: its vars are bound before the join), clause/joins.go Join.Build
    (`… ON ` + `join.ON.Build`), then the outer WHERE.  Text: `<pre> ON <on> WHERE <outer>`. -/
def joinStmt (d : Dialect) (pre : Val β) (refs on outer : List (Val β)) : Val β :=
  if outer.isEmpty then .clauses [[], "ON".toList] [pre, .whereC (joinOnExprs d refs on)]
  else .clauses [[], "ON".toList, "WHERE".toList] [pre, .whereC (joinOnExprs d refs on), .whereC outer]

/-- chainable_api.go DB.Raw / finisher_api.go DB.Exec:
    `if strings.Contains(sql, "@") { clause.NamedExpr{SQL: sql, Vars: values}.Build(..) } else { clause.Expr{SQL: sql, Vars: values}.Build(..) }` -/
def rawDispatch (sql : List Char) (args : List (Val β)) : Val β :=
  if containsSub sql ['@'] then .nexpr sql args else .expr sql args false

/-- callbacks/query.go BuildQuerySQL, a join whose name is not a relation: always `clause.NamedExpr{SQL: join.Name, Vars: join.Conds}` -/
def rawJoinDispatch (sql : List Char) (args : List (Val β)) : Val β := .nexpr sql args

def countChar (c : Char) (s : List Char) : Nat := (s.filter (· == c)).length

/-- chainable_api.go DB.Select, `case string:` first two branches
    (`strings.Count(v, "?") >= len(args) && len(args) > 0` → Expr; `strings.Count(v, "@") > 0 && len(args) > 0` → NamedExpr);
    `none` = the column-list branch (not a bound-parameter path unless an argument is not a string: not modelled) -/
def selectDispatch (sql : List Char) (args : List (Val β)) : Option (Val β) :=
  if countChar '?' sql ≥ args.length ∧ args.length > 0 then some (.expr sql args false)
  else if countChar '@' sql > 0 ∧ args.length > 0 then some (.nexpr sql args)
  else none

end
end Gorm.Bind
