/-
  C19 — executable model of `processor.Execute` (callbacks.go) over the callback bodies of package
  callbacks, instantiated from the REGENERATED table `Gen.dryFns` (extract/gen_c19.go): every
  function reachable from a registered callback, its calls in source order, each with the
  conditions that dominate it.

  A callback body is split into
    * the BUILD part  — every call that can shape the statement or the data it is built from
                        (hooks through callMethod, association saving, clause building,
                        ConvertTo*, Statement.Build, error raising, nested finishers …): class `shape`
    * the EXECUTE part — the driver calls (`driver`) and what only consumes their results (`consume`)
    * transaction control (`tx`)
  Classification is by explicit name lists below; anything unknown is `shape` (conservative:
  unknown work must not depend on DryRun).
-/
import GormModel.Model.Pipeline
import GormModel.Gen.Pipelines
import GormModel.Gen.Misc
import GormModel.Gen.DryRunFacts
import GormModel.Gen.DryRunRepair
namespace Gorm
open Gen

inductive DCls where
  | driver | tx | consume | pkgcall | shape
deriving Repr, DecidableEq

def driverNames : List String := ["ExecContext", "QueryContext", "QueryRowContext", "PrepareContext"]
def txNames : List String := ["Begin", "BeginTx", "Commit", "Rollback", "Transaction", "SavePoint", "RollbackTo"]

/-- package-level helpers of package callbacks that only inspect the statement (no write, no send):
    callbacks/helper.go `hasReturning` -/
def pureLocals : List String := ["hasReturning"]

/-- (callee, receiver) pairs that only consume the result of a driver call, or look something up on
    the way to it: rows/result accessors, gorm.Scan, back-filling of the inserted key
    (callbacks/create.go after ExecContext), the `rows` setting of callbacks/row.go -/
def consumePairs : List (String × String) := [
  ("String", "db.Statement.SQL"), ("Scan", "gorm"), ("Close", "rows"),
  ("RowsAffected", "result"), ("LastInsertId", "result"),
  ("func-literal", ""), ("int64", ""), ("len", ""),
  ("Kind", "db.Statement.ReflectValue"), ("Len", "db.Statement.ReflectValue"),
  ("Index", "db.Statement.ReflectValue"), ("Addr", "db.Statement.ReflectValue"),
  ("Interface", "db.Statement.ReflectValue.Addr()"),
  ("Kind", "reflect.Indirect(rv)"), ("Indirect", "reflect"),
  ("ValueOf", "pkField"), ("Set", "pkField"),
  ("preset", ""), -- local closure of the map back-fill: does the caller's map already carry a key? (fix F26-C03)
  ("Get", "db"), ("Delete", "db.Statement.Settings")]

/-- `db.AddError(x)` consumes a driver result when x is the driver's error, `rows.Close()` or the
    key back-fill; any other AddError raises an error of gorm's own (statement shaping) -/
def consumeErrArgs : List String := [
  "err", "rows.Close()", "pkField.Set(db.Statement.Context, rv, insertID)",
  "pkField.Set(db.Statement.Context, db.Statement.ReflectValue,"]

def Gen.DCall.cls (c : DCall) : DCls :=
  if c.what ∈ driverNames then .driver
  else if c.what ∈ txNames then .tx
  else if c.what = "AddError" then (if c.recv = "db" ∧ c.arg0 ∈ consumeErrArgs then .consume else .shape)
  else if c.pkgLocal then (if c.what ∈ pureLocals then .consume else .pkgcall)
  else if (c.what, c.recv) ∈ consumePairs then .consume
  else .shape

/-- is the call dominated by a test of DryRun? -/
def Gen.DCall.hasDry (c : DCall) : Bool :=
  c.guards.any (fun g => g = "!db.DryRun" || g = "db.DryRun")

def Gen.DCall.enabled (c : DCall) (st : RunSt) (env : String → Bool) : Bool :=
  c.guards.all (atomVal st env)

structure DEv where
  cls : DCls
  fn : String
  what : String
deriving Repr, DecidableEq

def findFn (fns : List DFn) (name : String) : Option DFn := fns.find? (fun f => f.name = name)

/-- trace of one function body: the enabled calls in source order, package-level callees expanded
    (bounded by `fuel`; preloadEntryPoint is recursive) -/
def runFn (fns : List DFn) (st : RunSt) (env : String → Bool) : Nat → String → List DEv
  | 0, _ => []
  | fuel + 1, name =>
    match findFn fns name with
    | none => []
    | some f => f.calls.flatMap fun c =>
        if c.enabled st env then
          (if c.cls = .pkgcall then runFn fns st env fuel c.what else [⟨c.cls, name, c.what⟩])
        else []

structure ExecOut where
  built : List DEv     -- build part: statement/data shaping work performed, in order
  sent : List DEv      -- execute part: prepare/exec/query calls issued
  txs : List DEv       -- transaction control calls issued
  keepsSQL : Bool      -- Statement.SQL/Vars still there after Execute
deriving Repr, DecidableEq

def pipelineTrace (fns : List DFn) (regs : List CbReg) (st : RunSt) (env : String → Bool) (fuel : Nat) : List DEv :=
  regs.flatMap fun r => if r.active st then runFn fns st env fuel r.handler else []

/-- finisher_api.go `DB.Begin` / `DB.Commit` / `DB.Rollback`: does a transaction-control call made on a pool handle in
    state `st` reach the pool?  `beginDry` says which `DB.Begin` exists (regenerated fact `Gen.beginSkipsDryRun`: every
    `BeginTx` call site of `DB.Begin` is dominated by `!tx.DryRun`):
      * false (tree without the repair of F25): `Begin` calls `ConnPool.BeginTx` whatever DryRun says; the handle then
        holds a `*sql.Tx`, so the matching `Commit`/`Rollback` reach it too;
      * true: a DryRun handle stays on its pool — `BeginTx` is skipped, and `Commit`/`Rollback` find no `TxCommitter` on
        the statement's pool, so they call nothing (`else if !db.DryRun { AddError(ErrInvalidTransaction) }`). -/
def txReaches (beginDry : Bool) (st : RunSt) : Bool := !(beginDry && st.dryRun)

/-- callbacks.go `processor.Execute`: run the compiled callbacks, then reset SQL/Vars unless DryRun.
    `txs` are the transaction-control calls of the callbacks (callbacks/transaction.go `db.Begin()`, `db.Commit()`,
    `db.Rollback()`) that reach the pool (`txReaches`). -/
def execute (beginDry : Bool) (fns : List DFn) (regs : List CbReg) (st : RunSt) (env : String → Bool) (fuel : Nat) : ExecOut :=
  let tr := pipelineTrace fns regs st env fuel
  { built := tr.filter (fun e => e.cls = .shape)
    sent := tr.filter (fun e => e.cls = .driver)
    txs := if txReaches beginDry st then tr.filter (fun e => e.cls = .tx) else []
    keepsSQL := executeKeepsSQLOnDryRun && st.dryRun }

def RunSt.real (st : RunSt) : RunSt := { st with dryRun := false }

/-! ### finisher level (finisher_api.go): which handle's statement is exposed -/

/-- a finisher as far as C19 is concerned -/
structure FinSpec where
  name : String
  pipeline : String
  batched : Bool      -- runs its pipeline on `tx.getInstance()` of a Session{} handle and returns the OUTER handle
  explicitTx : Bool   -- the user opened an explicit transaction on the handle (Transaction / Begin)
deriving Repr, DecidableEq

/-- what the returned handle's Statement shows after a DryRun run: the build part of its OWN
    pipeline run — nothing when the batches ran on cloned statements -/
def exposed (beginDry : Bool) (fns : List DFn) (f : FinSpec) (st : RunSt) (env : String → Bool) (fuel : Nat) : List DEv :=
  if f.batched then [] else
    match pipelines.find? (fun p => p.1 = f.pipeline) with
    | some p => (execute beginDry fns p.2 st env fuel).built
    | none => []

/-- driver-level transaction calls of a whole finisher run: those of the pipeline plus the explicit
    `Begin` of finisher_api.go `DB.Transaction`/`DB.Begin`.  Its `BeginTx` call site carries no
    SkipDefaultTransaction condition (`Gen.txSites`); whether it carries a DryRun condition is `beginDry`
    (`txReaches`; the atom is spelled `!tx.DryRun`, which `atomVal` does not interpret) -/
def finisherTx (beginDry : Bool) (fns : List DFn) (f : FinSpec) (st : RunSt) (env : String → Bool) (fuel : Nat) : List DEv :=
  let own := match pipelines.find? (fun p => p.1 = f.pipeline) with
    | some p => (execute beginDry fns p.2 st env fuel).txs
    | none => []
  let beginGuards := (txSites.filter (fun s => s.fn = "DB.Begin" ∧ s.method = "BeginTx")).map (·.guards)
  let explicitEnabled := beginGuards.any (fun gs => gs.all (atomVal st env))
  (if f.explicitTx && explicitEnabled && txReaches beginDry st then [⟨.tx, "DB.Begin", "BeginTx"⟩] else []) ++ own

end Gorm
