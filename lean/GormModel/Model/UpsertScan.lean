/-
  C16 (round 4) — two pieces of code the earlier models took for granted.

  A. WHICH row the lookup of FirstOrInit / FirstOrCreate returns when SEVERAL rows match and the table is NOT stored in
     key order (finisher_api.go: `queryTx := db[.Session(&Session{})].Limit(1).Order(<primary key>)`, then
     `queryTx.Find(dest, conds...)`). The table is a list in STORAGE order (the order a scan yields); whether the lookup
     sorts is not written here: it is `LookupCfg`, instantiated by `genLookupCfg` from the regenerated derivation of
     `queryTx` (`Gen.lookupDerivs`: every selector call with its argument text).
     `ORDER BY <table>.<primary key>` names the FIRST key column only (statement.go QuoteTo: `PrioritizedPrimaryField`,
     else `DBNames[0]`), the sort is stable, LIMIT 1 takes the head: `least`.

  B. WHICH returned row goes to WHICH slice element after `INSERT … ON CONFLICT … RETURNING` (callbacks/create.go Create →
     scan.go Scan, slice branch with `update`): rows are handed out by position; in the mode `ScanOnConflictDoNothing`
     an element that already holds a non-zero value in a RETURNING column is stepped over (`db.RowsAffected++; goto
     BEGIN`) on the assumption that it conflicted and has no row. WHEN that mode is on is not written here: it is
     `ScanCfg`, instantiated by `genScanCfg` from the regenerated condition in callbacks/create.go
     (`Gen.createSkipModeReads`).
-/
import GormModel.Model.UpsertKeys
import GormModel.Gen.UpsertScanFacts
namespace Gorm.UpsertScan
open Gorm.UpsertK

/-! ### A. the lookup over a table in storage order -/

structure LookupCfg where
  limit1 : Bool     -- `Limit(1)` on the lookup handle
  ordered : Bool    -- `Order(clause.OrderByColumn{Column: {Table: CurrentTable, Name: PrimaryKey}})`, ascending
deriving DecidableEq, Repr

/-- the ORDER BY column: the first key column -/
def k0 (r : KRow) : Nat := r.key.headD 0

/-- stable ascending sort by `k0`, then LIMIT 1: the LEFTMOST row among those with the least `k0` -/
def least : List KRow → Option KRow
  | [] => none
  | r :: rs =>
    match least rs with
    | none => some r
    | some m => if k0 m < k0 r then some m else some r

/-- rows the lookup's WHERE lets through: soft-delete filter (unless Unscoped) and every condition -/
def matching (st : MStmt) (q : List (Nat × Nat)) (t : Tbl) : List KRow :=
  t.filter (fun r => live st.unscoped r && holds q r)

/-- the row `queryTx.Find(dest, conds…)` loads; `t` is in STORAGE order -/
def lookupK (cfg : LookupCfg) (st : MStmt) (q : List (Nat × Nat)) (t : Tbl) : Option KRow :=
  if cfg.ordered then least (matching st q t) else (matching st q t).head?

def orderByPk : String := "clause.OrderByColumn{Column: clause.Column{Table: clause.CurrentTable, Name: clause.PrimaryKey}}"

/-- the facts of the CURRENT source tree, per finisher -/
def genLookupCfg (fn : String) : LookupCfg :=
  match Gen.lookupDerivs.find? (fun d => d.1 == fn) with
  | some d => { limit1 := d.2.2.contains ("Limit", "1"), ordered := d.2.2.contains ("Order", orderByPk) }
  | none => { limit1 := false, ordered := false }

/-- bring the looked-up row to the front: `UpsertK.firstMatchK` (which reads the table in ORDER BY order) then finds it -/
def front (o : Option KRow) (t : Tbl) : Tbl :=
  match o with
  | some r => r :: t.filter (fun x => x != r)
  | none => t

/-! ### B. RETURNING rows → slice elements -/

/-- what scan.go sees of one slice element -/
structure Elem where
  nz : Bool          -- some RETURNING column of the element already holds a non-zero value (scan.go: `field.ValueOf … !isZero`)
  ret : Option Nat   -- the row the statement returns for this element (`none`: DO NOTHING conflict, DO UPDATE guard false)
deriving DecidableEq, Repr

/-- RETURNING emits one row per stored element, in VALUES order -/
def rowsOf (es : List Elem) : List Nat := es.filterMap (·.ret)

/-- scan.go Scan l.297-318 (`update` = true): `elem = reflectValue.Index(RowsAffected)`; in skip mode an element with a
    non-zero RETURNING field is stepped over without consuming the row; otherwise the row is scanned into it and
    `RowsAffected++`; the loop ends with the rows (`rows.Next()`) or with the elements (`RowsAffected >= Len`) -/
def assign (skip : Bool) : List Elem → List Nat → List (Option Nat)
  | [], _ => []
  | _ :: es, [] => none :: assign skip es []
  | e :: es, r :: rs =>
    if skip && e.nz then none :: assign skip es (r :: rs) else some r :: assign skip es rs

/-- the fields of the clause.OnConflict on the statement AFTER ConvertToCreateValues (UpsertClause.OC.expand) -/
structure OCFlags where
  doNothing : Bool
  updateAll : Bool
  doUpdates : Bool   -- `len(DoUpdates) > 0`
  where_ : Bool      -- `len(Where.Exprs) > 0`
deriving DecidableEq, Repr

/-- an unknown field name is read as "may be set": nothing can be claimed for it -/
def OCFlags.get (f : OCFlags) : String → Bool
  | "DoNothing" => f.doNothing
  | "UpdateAll" => f.updateAll
  | "DoUpdates" => f.doUpdates
  | "Where" => f.where_
  | _ => true

structure ScanCfg where
  skipWhen : List String   -- callbacks/create.go: the OnConflict fields whose truth switches ScanOnConflictDoNothing on
deriving DecidableEq, Repr

def skipMode (cfg : ScanCfg) (f : OCFlags) : Bool := cfg.skipWhen.any f.get

/-- the facts of the CURRENT source tree: one site, guarded by a condition over the fields listed -/
def genScanCfg : ScanCfg :=
  { skipWhen := if Gen.createSkipModeSites == 1 then Gen.createSkipModeReads else ["?"] }

/-- the elements after `Create(&slice)`: the row each one received -/
def scanUpsert (cfg : ScanCfg) (f : OCFlags) (es : List Elem) : List (Option Nat) :=
  assign (skipMode cfg f) es (rowsOf es)

/-- rowless elements only at the end of the slice -/
def rowlessSuffix : List Elem → Bool
  | [] => true
  | e :: es => if e.ret.isSome then rowlessSuffix es else es.all (fun x => x.ret.isNone)

end Gorm.UpsertScan
