/-
  C15 round 4 — which SELECT LIST each read finisher sends, as a function of how the chain's SELECT was given,
  and what a map destination reports per result column.

  Statement state that matters (statement.go / chainable_api.go DB.Select):
    `Statement.Selects`            one entry per STRING argument of Select (an entry may spell several items:
                                   `Select("id, name, age*2 AS dbl")` is ONE entry)
    `Statement.Clauses["SELECT"]`  filled by `Select("… ? …", args…)` / named args (clause.Select{Expression}) and by
                                   `Clauses(clause.Select{…})`; a string-only Select sets its Expression to nil

  Finishers (finisher_api.go, callbacks/query.go):
    Find / First / Take / Last / Rows / Scan / FindInBatches : BuildQuerySQL computes a clause.Select from Selects (or `*`,
          or the destination's columns for a smaller struct) and installs it with AddClauseIfNotExists — a clause the
          chain already carries wins
    Pluck : `if len(Selects) != 1 { AddClauseIfNotExists(clause.Select{Columns: [column]}) }`, then the Find rule
    Count : AddClause(count expression) — overwrites; the previous clause is put back by a deferred func

  Which AddClause variant each finisher uses is REGENERATED (extract/gen_c15c.go → Gen/ReadSelectFacts.lean) and
  enters the model as `Facts`.  Tied to the code by the `select.resolve` correspondence (the select list of the SQL
  every finisher sends, for generated chains).
-/
import GormModel.Gen.ReadSelectFacts
namespace Gorm.ReadSelect

/-- `Statement.AddClause` (for SELECT: clause/select.go MergeClause REPLACES the expression) vs
    `Statement.AddClauseIfNotExists` (only when Clauses[name] is absent or its Expression is nil) -/
inductive AddKind
  | always
  | ifAbsent
deriving DecidableEq, Repr

/-- a select list as the SQL carries it; `ι` = items (a column, or an aliased expression with its bind args) -/
inductive SelList (ι : Type)
  | star
  | list (items : List ι)
  | count
deriving DecidableEq, Repr

structure SelState (ι : Type) where
  selects : List (List ι) := []
  clause  : Option (SelList ι) := none
deriving DecidableEq, Repr

/-- the chain calls that give a SELECT -/
inductive SelCall (ι : Type)
  /-- `Select("a, b")`, `Select("a", "b")`, `Select([]string{…})`: fills Selects, nils the clause's Expression -/
  | strings (entries : List (List ι))
  /-- `Select("… ? …", args…)`, `Select("… @x …", named…)`: AddClause(clause.Select{Expression}); Selects untouched -/
  | expr (items : List ι)
  /-- `Clauses(clause.Select{Expression: …})` / `Clauses(clause.Select{Columns: …})` -/
  | clause (l : SelList ι)
deriving DecidableEq, Repr

def SelState.call {ι : Type} (st : SelState ι) : SelCall ι → SelState ι
  | .strings es => { selects := es, clause := none }
  | .expr is => { st with clause := some (.list is) }
  | .clause l => { st with clause := some l }

def SelState.calls {ι : Type} (st : SelState ι) (cs : List (SelCall ι)) : SelState ι := cs.foldl SelState.call st

/-- the select list the call asks for -/
def SelCall.asked {ι : Type} : SelCall ι → SelList ι
  | .strings es => if es.isEmpty then .star else .list es.flatten
  | .expr is => .list is
  | .clause l => l

/-- regenerated: which variant each finisher uses for SELECT -/
structure Facts where
  buildAdd : AddKind        -- callbacks/query.go BuildQuerySQL
  pluckAdd : AddKind        -- finisher_api.go Pluck
  pluckGuard : Bool         -- … inside `if len(tx.Statement.Selects) != 1`
  countAdd : AddKind        -- finisher_api.go Count
  countRestores : Bool      -- … and a deferred func puts Clauses["SELECT"] back (or deletes it)
deriving DecidableEq, Repr

/-- the tree as the property needs it -/
def Facts.good : Facts :=
  { buildAdd := .ifAbsent, pluckAdd := .ifAbsent, pluckGuard := true, countAdd := .always, countRestores := true }

def kindOf (s : String) : AddKind := if s == "AddClauseIfNotExists" then .ifAbsent else .always

/-- the tree being verified (Gen/ReadSelectFacts.lean) -/
def Facts.current : Facts :=
  { buildAdd := kindOf Gen.buildQuerySelectAdd
    pluckAdd := kindOf Gen.pluckSelectAdd
    pluckGuard := Gen.pluckSelectGuard == "len(tx.Statement.Selects) != 1"
    countAdd := if Gen.countSelectAdds.all (fun s => s == "AddClause") && !Gen.countSelectAdds.isEmpty then .always else .ifAbsent
    countRestores := Gen.countRestoresSelect }

def SelState.add {ι : Type} (k : AddKind) (st : SelState ι) (v : SelList ι) : SelState ι :=
  match k, st.clause with
  | .ifAbsent, some _ => st
  | _, _ => { st with clause := some v }

/-- BuildQuerySQL's own clauseSelect: Selects → columns; else the columns of a smaller destination struct; else `*` -/
def SelState.computed {ι : Type} (st : SelState ι) (dest : Option (List ι)) : SelList ι :=
  if st.selects.isEmpty then (match dest with | some d => .list d | none => .star) else .list st.selects.flatten

/-- the select list of the query a Find-like finisher sends -/
def SelState.query {ι : Type} (f : Facts) (st : SelState ι) (dest : Option (List ι)) : SelList ι :=
  ((st.add f.buildAdd (st.computed dest)).clause).getD (st.computed dest)

def find {ι : Type} (f : Facts) (st : SelState ι) (dest : Option (List ι)) : SelList ι := st.query f dest

/-- Pluck(c, &slice) -/
def pluckState {ι : Type} (f : Facts) (st : SelState ι) (c : ι) : SelState ι :=
  if f.pluckGuard && st.selects.length == 1 then st else st.add f.pluckAdd (.list [c])

def pluck {ι : Type} (f : Facts) (st : SelState ι) (c : ι) : SelList ι := (pluckState f st c).query f none

/-- Count(&n) on a chain whose select list has no `count(` item of its own -/
def countQuery {ι : Type} (f : Facts) (st : SelState ι) : SelList ι := (st.add f.countAdd .count).query f none

/-- the SELECT state of the handle Count returns -/
def afterCount {ι : Type} (f : Facts) (st : SelState ι) : SelState ι :=
  if f.countRestores then st else st.add f.countAdd .count

/-- values of one result row: `ev item row`, `all` = the table's columns (what `*` expands to) -/
def SelList.eval {ι ρ ν : Type} (ev : ι → ρ → ν) (all : List ι) (cnt : ν) : SelList ι → ρ → List ν
  | .star, r => all.map (fun i => ev i r)
  | .list is, r => is.map (fun i => ev i r)
  | .count, _ => [cnt]

/-! ## map destinations: one holder per result column (scan.go prepareValues → rows.Scan → scanIntoMap) -/

/-- `rows.Scan(values...)`: column i's value is written through holder `holders[i]`, in column order -/
def scanWrites {ν : Type} (holders : List Nat) (vals : List ν) : List (Nat × ν) := holders.zip vals

/-- content of holder `h` after the writes (the LAST write wins) -/
def holderVal {ν : Type} (w : List (Nat × ν)) (h : Nat) : Option ν := w.reverse.lookup h

/-- scanIntoMap: the map entry of column i is read from `holders[i]` after rows.Scan returned -/
def mapRow {ν : Type} (holders : List Nat) (vals : List ν) : List (Option ν) :=
  holders.map (holderVal (scanWrites holders vals))

/-- prepareValues on a Model-bound chain: `isField[i]` = column i is a field of the model.  `perColumn` (regenerated):
    every `values[idx] = …` allocates inside the loop; otherwise (the shape the fact rules out) all non-field
    columns share one holder. -/
def prepareHolders (perColumn : Bool) (isField : List Bool) : List Nat :=
  if perColumn then List.range isField.length
  else (List.range isField.length).zip isField |>.map (fun p => if p.2 then p.1 else isField.length)

/-! ## Count's expression for a single `Selects` entry (finding F7g) -/

/-- finisher_api.go Count, `len(Selects) == 1`: `fields := strings.FieldsFunc(entry, utils.IsValidDBNameChar)` (runs of
    name characters); under `len(fields) == 1 || (len(fields) == 3 && (strings.ToUpper(fields[1]) == "AS" ||
    fields[1] == "."))` Count sends COUNT(<the WHOLE entry quoted as one column name>) -/
def isAS (f : String) : Bool := f == "AS" || f == "as" || f == "As" || f == "aS"   -- strings.ToUpper(f) == "AS"

def countsWholeString (fields : List String) : Bool :=
  fields.length == 1 || (fields.length == 3 && (isAS (fields.getD 1 "") || fields.getD 1 "" == "."))

/-- the column NAME Count quotes for a single Selects entry (`none`: the expression stays `count(*)`) -/
def countColumn (entry : String) (fields : List String) : Option String :=
  if countsWholeString fields then some entry else none

end Gorm.ReadSelect
