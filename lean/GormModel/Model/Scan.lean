/-
  Model.Scan — C03 "what Create stores is what queries load back".

  (i)   `setField`  : schema/field.go `setupValuerAndSetter`, the `field.Set` closures: one clause per
                      (field kind × source dynamic type) arm of the big type switches + `fallbackSetter`.
  (ii)  `valueOf`   : schema/field.go `field.ValueOf` (interface value + reflect `IsZero`).
  (iii) `store`/`load` : database/sql argument conversion + go-sqlite3 + `convertAssign` into the `**T`
                      scan destination (`field.NewValuePool`).  MODELLED, validated by the differential
                      round-trip suite and the E2E run; not verified.
  (iv)  key back-fill: the loops after the INSERT in callbacks/create.go `Create` (struct, slice forward,
                      slice reversed, maps) and the RETURNING path (scan.go `Scan` in `ScanUpdate` mode).
  (v)   `batchSlices`: finisher_api.go `CreateInBatches` slicing loop.

  Core Lean only (this file is linked into the driver executable).
-/
namespace Gorm.Scan

/-! ## (0) value universe -/

/-- Go basic dynamic types that occur as case labels in `Field.Set`'s type switches -/
inductive Ty
  | bool | int | i8 | i16 | i32 | i64 | uint | u8 | u16 | u32 | u64 | f32 | f64 | str | bytes | time
  deriving DecidableEq, Repr, Inhabited

/-- integer widths (`int`/`uint` are 64 bit on the platform the harness runs on) -/
inductive W | w8 | w16 | w32 | w64
  deriving DecidableEq, Repr, Inhabited

/-- `2^bits` as a literal (so that `omega` can use it after `cases w`) -/
def W.pow : W → Int
  | .w8 => 256 | .w16 => 65536 | .w32 => 4294967296 | .w64 => 18446744073709551616
/-- `2^(bits-1)` -/
def W.half : W → Int
  | .w8 => 128 | .w16 => 32768 | .w32 => 2147483648 | .w64 => 9223372036854775808

/-- Go's `intN(x)` conversion / what `reflect.Value.SetInt` stores in an N-bit field: wrap, no check -/
def wrapS (w : W) (x : Int) : Int := (x + w.half) % w.pow - w.half
/-- Go's `uintN(x)` conversion / what `reflect.Value.SetUint` stores -/
def wrapU (w : W) (x : Int) : Int := x % w.pow

def Ty.isSigned : Ty → Bool
  | .int | .i8 | .i16 | .i32 | .i64 => true | _ => false
def Ty.isUnsigned : Ty → Bool
  | .uint | .u8 | .u16 | .u32 | .u64 => true | _ => false
def Ty.isFloat : Ty → Bool
  | .f32 | .f64 => true | _ => false

/-- values of the basic types.  Strings/byte slices are byte lists; floats are IEEE-754 *double* bit
    patterns (a float32 value is represented by the pattern of its exact widening); a time is a UTC instant. -/
inductive Val
  | bool (b : Bool)
  | int (t : Ty) (n : Int)
  | flt (t : Ty) (bits : Nat)
  | str (s : List Nat)
  | bytes (s : List Nat)
  | time (sec : Int) (nsec : Nat)
  deriving DecidableEq, Repr, Inhabited

def Val.ty : Val → Ty
  | .bool _ => .bool | .int t _ => t | .flt t _ => t | .str _ => .str | .bytes _ => .bytes | .time _ _ => .time

/-- seconds of Go's zero `time.Time{}` (0001-01-01T00:00:00Z) relative to the Unix epoch -/
def zeroTimeSec : Int := -62135596800

inductive TimeUnit | sec | milli | nano
  deriving DecidableEq, Repr, Inhabited

inductive Base
  | bool | int (w : W) | uint (w : W) | float (is32 : Bool) | string | bytes | time
  deriving DecidableEq, Repr, Inhabited

/-- a column-backed struct field as `Field.Set` sees it -/
structure FKind where
  base  : Base
  /-- field type is `*T` -/
  ptr   : Bool := false
  /-- `T` is a defined type (`type MyInt int32`): type-switch arms on the underlying type do not fire for
      values whose dynamic type is `T`, `*T`, `**T` -/
  named : Bool := false
  /-- autoCreateTime/autoUpdateTime unit of an integer field (`:nano`, `:milli`, else seconds) -/
  tu    : TimeUnit := .sec
  deriving DecidableEq, Repr, Inhabited

/-- content of a field: `none` = nil pointer / nil slice; non-pointer non-slice fields always hold `some` -/
abbrev FVal := Option Val

def sTy : W → Ty | .w8 => .i8 | .w16 => .i16 | .w32 => .i32 | .w64 => .i64
def uTy : W → Ty | .w8 => .u8 | .w16 => .u16 | .w32 => .u32 | .w64 => .u64

/-- the Go type of `T` (for w64 we use the `int64`/`uint64` label; `int`/`uint` fields behave identically
    and are distinguished only as *source* dynamic types) -/
def Base.ty : Base → Ty
  | .bool => .bool | .int w => sTy w | .uint w => uTy w | .float true => .f32 | .float false => .f64
  | .string => .str | .bytes => .bytes | .time => .time

def Base.zero : Base → FVal
  | .bool => some (.bool false)
  | .int w => some (.int (sTy w) 0)
  | .uint w => some (.int (uTy w) 0)
  | .float true => some (.flt .f32 0)
  | .float false => some (.flt .f64 0)
  | .string => some (.str [])
  | .bytes => none
  | .time => some (.time zeroTimeSec 0)

/-- `reflect.New(field.FieldType).Elem()` -/
def FKind.zero (k : FKind) : FVal := if k.ptr then none else k.base.zero

/-- the `v interface{}` handed to `field.Set` -/
inductive Src
  /-- untyped nil -/
  | nil
  /-- a value of basic type (`named`: its dynamic type is the field's own defined type `T`) -/
  | val (named : Bool) (v : Val)
  /-- `*T`: nil or pointing to a value -/
  | ptr (named : Bool) (t : Ty) (v : Option Val)
  /-- `**T`: outer nil / inner nil / value (this is what `field.NewValuePool` hands to `rows.Scan`) -/
  | pp (named : Bool) (t : Ty) (v : Option (Option Val))
  /-- a non-pointer `driver.Valuer` of a type neither assignable nor convertible to the field type;
      `Value()` returns an error (`none`), nil (`some none`) or a driver value -/
  | valuer (r : Option (Option Val))
  /-- any other non-pointer value of an unrelated type (struct, map, …) -/
  | other
  deriving DecidableEq, Repr, Inhabited

inductive SetErr
  /-- `failed to set value … to field …` (fallbackSetter) or a Valuer error -/
  | failed
  /-- strconv syntax / range error -/
  | parse
  /-- outside the modelled fragment (float rounding, `now.Parse`, base-prefixed integer literals …):
      the correspondence suite skips and counts these -/
  | unmodelled
  deriving DecidableEq, Repr, Inhabited

abbrev R := Except SetErr FVal

/-! ## (i-a) helper conversions (strconv / float) -/

def c0 : Nat := 48 -- '0'

def isDigit (c : Nat) : Bool := 48 ≤ c && c ≤ 57

/-- value of a non-empty all-digit byte string -/
def digitsVal : List Nat → Nat → Nat
  | [], acc => acc
  | c :: cs, acc => digitsVal cs (acc * 10 + (c - 48))

inductive Parsed | ok (n : Int) | syntaxErr | unmodelled
  deriving DecidableEq, Repr

/-- the fragment of `strconv.ParseInt(s, 0, 64)` / `ParseUint(s, 0, 64)` that is modelled: optional sign
    (ParseInt only), then plain decimal digits without a leading `0` (base prefixes / `_` separators ⇒ `unmodelled`);
    a byte outside `[0-9a-zA-Z_+-]`, or an empty string ⇒ syntax error. -/
def parseDec (signed : Bool) (s : List Nat) : Parsed :=
  let (neg, body) := match s with
    | 45 :: r => (true, r)    -- '-'
    | 43 :: r => (false, r)   -- '+'
    | _ => (false, s)
  let hadSign := body.length != s.length
  if body.isEmpty then .syntaxErr
  else if hadSign && !signed then .syntaxErr
  else if body.all isDigit then
    if body.length > 1 && body.head? == some 48 then .unmodelled   -- leading 0 ⇒ octal in base 0
    else
      let n : Int := digitsVal body 0
      .ok (if neg then -n else n)
  else if body.any (fun c => !(isDigit c || (65 ≤ c && c ≤ 90) || (97 ≤ c && c ≤ 122) || c == 95)) then .syntaxErr
  else .unmodelled

/-- strconv.ParseBool; `Field.Set` ignores its error, so everything else is `false` -/
def parseBool (s : List Nat) : Bool :=
  s == [49] || s == [116] || s == [84] || s == [84, 82, 85, 69] || s == [116, 114, 117, 101] || s == [84, 114, 117, 101]

/-- decimal rendering (`utils.ToString` → strconv.FormatInt/FormatUint base 10) -/
def natDigits : Nat → Nat → List Nat → List Nat
  | 0, _, acc => acc
  | fuel + 1, n, acc => if n < 10 then (48 + n) :: acc else natDigits fuel (n / 10) ((48 + n % 10) :: acc)
def fmtInt (n : Int) : List Nat :=
  if n < 0 then 45 :: natDigits 25 n.natAbs [] else natDigits 25 n.natAbs []

/-- IEEE-754 double pattern of an integer, exact for |n| ≤ 2^53 (`float64(n)`), else unmodelled -/
def intToF64 (n : Int) : Option Nat :=
  if n = 0 then some 0
  else
    let a := n.natAbs
    if a > 9007199254740992 then none
    else
      let e := Nat.log2 a
      let mant := a * 2 ^ (52 - e) - 2 ^ 52
      let sign := if n < 0 then 2 ^ 63 else 0
      some (sign + (e + 1023) * 2 ^ 52 + mant)

/-- truncation toward zero of a finite double (`int64(f)` / `uint64(f)` before range considerations);
    `none` for NaN/Inf -/
def f64Trunc (bits : Nat) : Option Int :=
  let neg := bits / 2 ^ 63 % 2 == 1
  let e := bits / 2 ^ 52 % 2048
  let m := bits % 2 ^ 52
  if e == 2047 then none
  else if e == 0 then some 0
  else
    let mm := m + 2 ^ 52
    let mag : Nat := if e ≥ 1075 then mm * 2 ^ (e - 1075) else mm / 2 ^ (1075 - e)
    some (if neg then -(mag : Int) else mag)

/-- is this double pattern the exact widening of a *normal* float32 or ±0 (conservative: float32 subnormals,
    Inf and NaN are reported as not exact and become `unmodelled`) -/
def isF32Exact (bits : Nat) : Bool :=
  let e := bits / 2 ^ 52 % 2048
  let m := bits % 2 ^ 52
  (e == 0 && m == 0) || (897 ≤ e && e ≤ 1150 && m % 2 ^ 29 == 0)

def isNaN (bits : Nat) : Bool := bits / 2 ^ 52 % 2048 == 2047 && bits % 2 ^ 52 != 0

/-- `reflect.Value.SetFloat(x)` into a float32/float64 field -/
def setFloat (is32 : Bool) (bits : Nat) : R :=
  if is32 then (if isF32Exact bits then .ok (some (.flt .f32 bits)) else .error .unmodelled)
  else .ok (some (.flt .f64 bits))

/-- `data.Unix()`, `UnixMilli()`, `UnixNano()` (int64 arithmetic wraps) -/
def timeUnits (tu : TimeUnit) (sec : Int) (nsec : Nat) : Int :=
  match tu with
  | .sec => sec
  | .milli => wrapS .w64 (sec * 1000 + nsec / 1000000)
  | .nano => wrapS .w64 (sec * 1000000000 + nsec)

/-! ## (i-b) `field.Set`, per kind, for a plain (non-pointer) source value -/

/-- reflect `Convert` between basic types as reached from `fallbackSetter`'s `ConvertibleTo` branches -/
def convertTo (b : Base) (v : Val) : Option R :=
  match b, v with
  | .int w, .int _ n => some (.ok (some (.int (sTy w) (wrapS w n))))
  | .uint w, .int _ n => some (.ok (some (.int (uTy w) (wrapU w n))))
  | .int _, .flt _ _ => some (.error .unmodelled)
  | .uint _, .flt _ _ => some (.error .unmodelled)
  | .float is32, .int _ n => some (match intToF64 n with | some f => setFloat is32 f | none => .error .unmodelled)
  | .float is32, .flt _ f => some (setFloat is32 f)
  | .string, .str s => some (.ok (some (.str s)))
  | .string, .bytes s => some (.ok (some (.str s)))
  | .string, .int _ _ => some (.error .unmodelled)     -- string(rune(n))
  | .bytes, .str s => some (.ok (some (.bytes s)))
  | .bytes, .bytes s => some (.ok (some (.bytes s)))
  | .bool, .bool x => some (.ok (some (.bool x)))
  | .time, .time s n => some (.ok (some (.time s n)))
  | _, _ => none

/-- `fallbackSetter` for a non-pointer, non-Valuer source value `v` of dynamic type `v.ty`
    (`named` = the field's own defined type).  field.go:536-569 and 584-585. -/
def fallbackVal (k : FKind) (named : Bool) (v : Val) : R :=
  -- reflectValType.AssignableTo(field.FieldType) — identical types only
  if !k.ptr && named == k.named && v.ty == k.base.ty then .ok (some v)
  else if !k.ptr then
    -- ConvertibleTo(field.FieldType)
    match convertTo k.base v with
    | some r => r
    | none => .error .failed
  else
    -- field.FieldType.Kind() == reflect.Ptr: AssignableTo / ConvertibleTo the element type
    if named == k.named && v.ty == k.base.ty then .ok (some v)
    else match convertTo k.base v with
      | some r => r
      | none => .error .failed

/-- the `case string:` arm of the integer kinds -/
def setIntFromStr (w : W) (signed : Bool) (s : List Nat) : R :=
  match parseDec signed s with
  | .ok n =>
    if signed then
      if -9223372036854775808 ≤ n ∧ n ≤ 9223372036854775807 then .ok (some (.int (sTy w) (wrapS w n))) else .error .parse
    else
      if n ≤ 18446744073709551615 then .ok (some (.int (uTy w) (wrapU w n))) else .error .parse
  | .syntaxErr => .error .parse
  | .unmodelled => .error .unmodelled

/-- which definitional arm fired (reported to the harness for the branch histogram) -/
def setVal (k : FKind) (named : Bool) (v : Val) : R :=
  if k.ptr then
    -- pointer fields: `*time.Time` has its own closure, every other `*T` uses fallbackSetter (field.go:858, 939)
    match k.base, named, v with
    | .time, false, .time s n => if k.named then fallbackVal k named v else .ok (some (.time s n))
    | .time, false, .str _ => if k.named then fallbackVal k named v else .error .unmodelled
    | _, _, _ => fallbackVal k named v
  else if named then fallbackVal k named v   -- no type-switch arm matches a defined type
  else
  match k.base, v with
  -- reflect.Bool (field.go:594)
  | .bool, .bool b => .ok (some (.bool b))
  | .bool, .int .i64 n => .ok (some (.bool (decide (n > 0))))
  | .bool, .str s => .ok (some (.bool (parseBool s)))
  -- reflect.Int… (field.go:613)
  | .int w, .int _ n => .ok (some (.int (sTy w) (wrapS w (wrapS .w64 n))))
  | .int w, .flt _ f =>
    (match f64Trunc f with
     | some n => if -9223372036854775808 ≤ n ∧ n ≤ 9223372036854775807 then .ok (some (.int (sTy w) (wrapS w n))) else .error .unmodelled
     | none => .error .unmodelled)
  | .int w, .bytes s => setIntFromStr w true s
  | .int w, .str s => setIntFromStr w true s
  | .int w, .time s n => .ok (some (.int (sTy w) (wrapS w (timeUnits k.tu s n))))
  -- reflect.Uint… (field.go:693)
  | .uint w, .int _ n => .ok (some (.int (uTy w) (wrapU w n)))
  | .uint w, .flt _ f =>
    (match f64Trunc f with
     | some n => if 0 ≤ n ∧ n ≤ 9223372036854775807 then .ok (some (.int (uTy w) (wrapU w n))) else .error .unmodelled
     | none => .error .unmodelled)
  | .uint w, .bytes s => setIntFromStr w false s
  | .uint w, .str s => setIntFromStr w false s
  | .uint w, .time s n => .ok (some (.int (uTy w) (wrapU w (timeUnits k.tu s n))))
  -- reflect.Float… (field.go:761)
  | .float is32, .flt _ f => setFloat is32 f
  | .float is32, .int _ n => (match intToF64 n with | some f => setFloat is32 f | none => .error .unmodelled)
  | .float _, .bytes _ => .error .unmodelled
  | .float _, .str _ => .error .unmodelled
  -- reflect.String (field.go:809)
  | .string, .str s => .ok (some (.str s))
  | .string, .bytes s => .ok (some (.str s))
  | .string, .int _ n => .ok (some (.str (fmtInt n)))
  | .string, .flt _ _ => .error .unmodelled
  -- time.Time (field.go:832)
  | .time, .time s n => if k.named then fallbackVal k named v else .ok (some (.time s n))
  | .time, .str _ => if k.named then fallbackVal k named v else .error .unmodelled
  -- everything else: `default: return fallbackSetter(...)`
  | _, _ => fallbackVal k named v

/-! ## (i-c) pointer sources -/

/-- does the kind's own type switch have a `case **T` arm for this pointee type? (field.go:597, 616-635,
    696-715, 764-771, 812, 835, 861) -/
def hasPPArm (k : FKind) (named : Bool) (t : Ty) : Bool :=
  if named then false
  else if k.ptr then (k.base == .time && !k.named && t == .time)
  else match k.base with
    | .bool => t == .bool
    | .int _ => t == .int || t == .i8 || t == .i16 || t == .i32 || t == .i64
    | .uint _ => t == .uint || t == .u8 || t == .u16 || t == .u32 || t == .u64
    | .float _ => t == .f32 || t == .f64
    | .string => t == .str
    | .bytes => false
    | .time => !k.named && t == .time

/-- source `*T` -/
def setPtr (k : FKind) (cur : FVal) (named : Bool) (t : Ty) (p : Option Val) : R :=
  let _ := cur
  -- explicit `case *time.Time` arms: signed-int kinds (field.go:676), time.Time (841), *time.Time (871)
  if !named && t == .time && !k.ptr && (match k.base with | .int _ => true | .time => !k.named | _ => false) then
    match k.base, p with
    | .int w, none => .ok (some (.int (sTy w) 0))
    | .time, none => .ok (some (.time zeroTimeSec 0))
    | _, some v => setVal k false v
    | _, none => .error .failed
  else if !named && t == .time && !k.named && k.ptr && k.base == .time then
    .ok p    -- field.ReflectValueOf(ctx, value).Set(reflect.ValueOf(v))
  -- fallbackSetter
  else if k.ptr && named == k.named && t == k.base.ty then .ok p           -- AssignableTo(field.FieldType)
  else match p with
    | none => .ok k.zero                                                   -- reflectV.IsNil() ⇒ zero value
    | some v => setVal k named v    -- Elem assignable ⇒ Set(elem); otherwise setter(elem.Interface()): same result

/-- source `**T` -/
def setPP (k : FKind) (cur : FVal) (named : Bool) (t : Ty) (pp : Option (Option Val)) : R :=
  if hasPPArm k named t then
    -- `if data != nil && *data != nil { … }` — NULL leaves the field as it is
    match pp with
    | some (some v) =>
      if k.ptr then .ok (some v)            -- *time.Time field: Set(reflect.ValueOf(*data))
      else setVal k false v
    | _ => .ok cur
  else
    -- fallbackSetter: not assignable/convertible; reflectV.Kind() == Ptr
    match pp with
    | none => .ok k.zero
    | some p =>
      if k.ptr && named == k.named && t == k.base.ty then .ok p    -- `*T` assignable to the `*T` field
      else setPtr k cur named t p                                   -- setter(ctx, value, reflectV.Elem().Interface())

/-- `field.Set(ctx, value, v)` where the field currently holds `cur` -/
def setField (k : FKind) (cur : FVal) : Src → R
  | .nil => .ok k.zero
  | .val named v => setVal k named v
  | .ptr named t p => setPtr k cur named t p
  | .pp named t pp => setPP k cur named t pp
  | .valuer none => .error .failed
  | .valuer (some none) => .ok k.zero
  | .valuer (some (some v)) => setVal k false v
  | .other => .error .failed

/-! ## (ii) `field.ValueOf` -/

def Val.isZero : Val → Bool
  | .bool b => !b
  | .int _ n => n == 0
  | .flt _ bits => bits == 0 || bits == 9223372036854775808   -- reflect: `v.Float() == 0` (so -0.0 IS zero)
  | .str s => s.isEmpty
  | .bytes _ => false                  -- non-nil slice (nil slice is `none`)
  | .time s n => s == zeroTimeSec && n == 0

/-- interface value of the field + `reflect.Value.IsZero()` -/
def valueOf (k : FKind) (fv : FVal) : Src × Bool :=
  if k.ptr then (.ptr k.named k.base.ty fv, fv.isNone)
  else match fv with
    | some v => (.val k.named v, v.isZero)
    | none => (.nil, true)     -- nil []byte: a typed nil slice; `Set` and `store` treat it exactly like untyped nil

/-! ## (iii) database/sql + go-sqlite3 (modelled) -/

inductive DVal
  | null | int (n : Int) | real (bits : Nat) | text (s : List Nat) | blob (s : List Nat) | time (sec : Int) (nsec : Nat)
  deriving DecidableEq, Repr, Inhabited

inductive StoreErr | outOfRange | notStorable | unmodelled
  deriving DecidableEq, Repr

/-- `driver.DefaultParameterConverter` + go-sqlite3 `bind`: what reaches the table for a bound argument.
    Pointers are dereferenced (nil ⇒ NULL), defined types go by kind, bool is stored as 0/1, time as a time,
    uint64 with the high bit set is rejected, NaN becomes NULL inside SQLite. -/
def storeVal : Val → Except StoreErr DVal
  | .bool b => .ok (.int (if b then 1 else 0))
  | .int t n => if t.isUnsigned && n ≥ 9223372036854775808 then .error .outOfRange else .ok (.int n)
  | .flt _ bits => if isNaN bits then .ok .null
                   else if bits = 9223372036854775808 then .ok (.real 0)   -- SQLite keeps integral REALs as integers: -0.0 comes back as 0.0
                   else .ok (.real bits)
  | .str s => .ok (.text s)
  | .bytes s => .ok (.blob s)
  | .time s n => .ok (.time s n)

def store : Src → Except StoreErr DVal
  | .nil => .ok .null
  | .val true (.time _ _) => .error .notStorable      -- a defined struct type over time.Time is not a driver.Value
  | .val true (.bytes []) => .ok .null                -- statement.go AddVar writes `(NULL)` for an EMPTY slice of a defined type
  | .val _ v => storeVal v
  | .ptr _ _ none => .ok .null
  | .ptr true _ (some (.time _ _)) => .error .notStorable
  | .ptr _ _ (some v) => storeVal v
  | _ => .error .notStorable

/-- `rows.Scan` into the pooled `**T` destination of a field of kind `k` (`convertAssign`): NULL ⇒ inner nil;
    otherwise a fresh `T` parsed from the column value.  Only the storage class written by `store` for the same
    kind is modelled (the diagonal); integers are range-checked by strconv with the destination's bit size. -/
def load (k : FKind) (d : DVal) : Except StoreErr Src :=
  let t := k.base.ty
  match k.base, d with
  | _, .null => .ok (.pp k.named t (some none))
  | .bool, .int n => if k.named then .error .notStorable   -- convertAssign has no reflect.Bool case: a defined bool type cannot be scanned
                     else if n = 0 then .ok (.pp k.named t (some (some (.bool false))))
                     else if n = 1 then .ok (.pp k.named t (some (some (.bool true)))) else .error .outOfRange
  | .int w, .int n => if -w.half ≤ n ∧ n < w.half then .ok (.pp k.named t (some (some (.int t n)))) else .error .outOfRange
  | .uint w, .int n => if 0 ≤ n ∧ n < w.pow then .ok (.pp k.named t (some (some (.int t n)))) else .error .outOfRange
  | .float is32, .real b => if is32 && !isF32Exact b then .error .unmodelled else .ok (.pp k.named t (some (some (.flt t b))))
  | .string, .text s => .ok (.pp k.named t (some (some (.str s))))
  | .bytes, .blob s => .ok (.pp k.named t (some (some (.bytes s))))
  | .time, .time s n => .ok (.pp k.named t (some (some (.time s n))))
  | _, _ => .error .unmodelled

/-- Create one value of a single field, read it back into a fresh struct: the composite the round-trip
    theorem is about and the `rt` correspondence op computes -/
def roundTrip (k : FKind) (fv : FVal) : Except StoreErr R :=
  match store (valueOf k fv).1 with
  | .error e => .error e
  | .ok d => match load k d with
    | .error e => .error e
    | .ok s => .ok (setField k k.zero s)

/-- the values of a kind that the column type can hold (hypothesis of the round-trip theorem and the
    exclusion list of the E2E generator): integers within the field's width, unsigned below 2^63 (database/sql
    rejects larger uint64), floats that are not NaN (SQLite stores NaN as NULL), float32 as exact widenings,
    nor -0.0 (SQLite hands it back as 0.0), times within years 1..9999 (go-sqlite3 writes a text timestamp); defined
    bool types are excluded altogether (database/sql cannot scan SQLite's integer into them) and so are defined
    types over time.Time without Valuer (database/sql cannot bind a struct) -/
def repVal : Base → Val → Bool
  | .bool, .bool _ => true
  | .int w, .int t n => t == sTy w && decide (-w.half ≤ n) && decide (n < w.half)
  | .uint w, .int t n => t == uTy w && decide (0 ≤ n) && decide (n < w.pow) && decide (n < 9223372036854775808)
  | .float true, .flt t b => t == .f32 && isF32Exact b && b != 9223372036854775808
  | .float false, .flt t b => t == .f64 && !isNaN b && b != 9223372036854775808
  | .string, .str _ => true
  | .bytes, .bytes _ => true      -- (an empty non-nil slice of a DEFINED byte-slice type comes back nil: excluded in `representable`)
  | .time, .time s n => decide (zeroTimeSec ≤ s) && decide (s ≤ 253402300799) && decide (n < 1000000000)
  | _, _ => false

def representable (k : FKind) : FVal → Bool
  | none => k.ptr || k.base == .bytes
  | some v => repVal k.base v && !((k.base == .bool || k.base == .time) && k.named) &&
              !(k.named && !k.ptr && v == .bytes [])

/-! ## (iv) primary-key back-fill (callbacks/create.go `Create`, after the INSERT) -/

/-- keys are integers, `0` = zero value (`pkField.ValueOf` reports `isZero`) -/
abbrev Key := Int

/-- forward loop (`!config.LastInsertIDReversed`), create.go:170-180 -/
def backfillFwd (inc : Int) : List Key → Int → List Key
  | [], _ => []
  | k :: ks, id => if k = 0 then id :: backfillFwd inc ks (id + inc) else k :: backfillFwd inc ks id

/-- the reversed loop walks indices `len-1 … 0`, decrementing: written over the reversed list -/
def backfillDown (inc : Int) : List Key → Int → List Key
  | [], _ => []
  | k :: ks, id => if k = 0 then id :: backfillDown inc ks (id - inc) else k :: backfillDown inc ks id

/-- reversed loop (`config.LastInsertIDReversed`), create.go:156-169 -/
def backfillRev (inc : Int) (ks : List Key) (id : Int) : List Key :=
  (backfillDown inc ks.reverse id).reverse

/-- single struct, create.go:182-186 -/
def backfillOne (k : Key) (id : Int) : Key := if k = 0 then id else k

/-- `[]map[string]interface{}`, create.go:128-147: the maps get `insertID`, stepping by 1 per slice POSITION.
    `ms`: `none` = nil map (skipped but still counted), `some k` = a map whose key entry is `k` (`0` = no key entry /
    zero value).  `skipPreset` (regenerated fact `Gen.backfillMapsSkipPreset`): the loop looks at the map before writing
    and leaves a map that already carries a non-zero key alone; the unrepaired loop writes into EVERY non-nil map
    (finding F26).  Result: the key entry of every map afterwards. -/
def backfillMaps (skipPreset reversed : Bool) (ms : List (Option Key)) (id : Int) : List (Option Key) :=
  let start := if reversed then id - ((ms.length : Int) - 1) else id
  let rec go : List (Option Key) → Int → List (Option Key)
    | [], _ => []
    | none :: ps, i => none :: go ps (i + 1)
    | some k :: ps, i => some (if skipPreset && k != 0 then k else i) :: go ps (i + 1)
  go ms start

/-- result of the Exec: `RowsAffected`, `LastInsertId` (none = driver error) -/
structure ExecResult where
  rowsAffected : Int
  lastInsertId : Option Int
  deriving Repr

/-- the guard prefix of the no-RETURNING branch (create.go:100-125) followed by the slice loops.
    `hasAutoPk` = the guards on the key pass (`backfillGuard`; for an auto-increment integer key:
    `PrioritizedPrimaryField != nil && HasDefaultValue`). -/
def createBackfillSlice (reversed hasAutoPk : Bool) (inc : Int) (ks : List Key) (r : ExecResult) : List Key :=
  if r.rowsAffected = 0 then ks
  else match r.lastInsertId with
    | none => ks
    | some id =>
      if id ≤ 0 then ks
      else if !hasAutoPk then ks
      else if reversed then backfillRev inc ks id else backfillFwd inc ks id

/-- the guards on the KEY in front of the back-fill (create.go:125-131): the prioritized primary field must have a default
    value (`hasDefault` = `PrioritizedPrimaryField != nil && HasDefaultValue`) and — `guardKind`, regenerated fact
    `Gen.backfillGuardsKeyKind` — be a key the insert id can stand for: `autoInc` = `field.AutoIncrement`, `intType` =
    `GORMDataType ∈ {Int, Uint}`.  The unrepaired guard tests `hasDefault` only (finding F25). -/
def backfillGuard (guardKind hasDefault autoInc intType : Bool) : Bool :=
  hasDefault && (!guardKind || autoInc || intType)

/-- the no-RETURNING back-fill of a slice of structs whose prioritized primary field is described by
    (`hasDefault`, `autoInc`, `intType`) -/
def createBackfill (guardKind reversed hasDefault autoInc intType : Bool) (inc : Int) (ks : List Key) (r : ExecResult) : List Key :=
  createBackfillSlice reversed (backfillGuard guardKind hasDefault autoInc intType) inc ks r

/-- the same guard prefix in front of the slice-of-maps loop (`keyOk` = `backfillGuard …`, or `true` without a schema:
    `Table("t").Create(&maps)` stores the insert id as "@id") -/
def createBackfillMaps (skipPreset reversed keyOk : Bool) (ms : List (Option Key)) (r : ExecResult) : List (Option Key) :=
  if r.rowsAffected = 0 then ms
  else match r.lastInsertId with
    | none => ms
    | some id =>
      if id ≤ 0 then ms
      else if !keyOk then ms
      else backfillMaps skipPreset reversed ms id

/-- RETURNING path: scan.go `Scan` with `ScanUpdate`: row `j` of the result set is scanned into element
    `db.RowsAffected = j`; surplus rows are ignored, surplus elements untouched.  `rows` = returned keys. -/
def scanUpdate : List Key → List Key → List Key
  | [], _ => []
  | ks, [] => ks
  | _ :: ks, r :: rs => r :: scanUpdate ks rs

/-- the table side (MODELLED: SQLite rowid assignment for one multi-row INSERT): a zero key is sent as
    NULL/omitted and receives `max+1`; a preset key is stored as is.  Returns the keys of the inserted rows in
    insertion order and the new maximum.  (Unique-key conflicts are outside the model.) -/
def dbInsert : Int → List Key → List Key × Int
  | m, [] => ([], m)
  | m, k :: ks =>
    let id := if k = 0 then m + 1 else k
    let m' := if id > m then id else m
    let (rest, mf) := dbInsert m' ks
    (id :: rest, mf)

/-- `sqlite3_last_insert_rowid` after the statement = rowid of the last inserted row -/
def lastRowId (rows : List Key) : Option Int := rows.getLast?

/-- one `Create(&slice)` against a table whose maximum rowid is `m`, SQLite-like dialector
    (`LastInsertIDReversed`), with or without RETURNING.  Returns (in-memory keys, row keys, new max). -/
def createSlice (returning : Bool) (m : Int) (ks : List Key) : List Key × List Key × Int :=
  let (rows, m') := dbInsert m ks
  let mem := if returning then scanUpdate ks rows
             else createBackfillSlice true true 1 ks ⟨rows.length, lastRowId rows⟩
  (mem, rows, m')

/-- `Create` from a slice of `n` non-nil maps WITHOUT key entries through a model with an auto-increment key, SQLite-like
    dialector, table maximum `m`.  Result: the key each of the caller's `n` maps carries afterwards and the length of the
    caller's slice; `none` = Create returns an error.
    * no RETURNING: create.go:128-147 (`backfillMaps`).
    * RETURNING, `*[]map[string]interface{}`: scan.go `case *[]map[string]interface{}` APPENDS one new map per
      returned row to the caller's slice; the caller's own maps are not touched.
    * RETURNING, `[]map[string]interface{}` by value: scan.go falls into the struct/slice branch and `rows.Scan`
      into a map element fails (`unsupported Scan … into type *map[string]interface {}`). -/
def createMaps (skipPreset returning ptrDest : Bool) (m : Int) (n : Nat) : Option (List (Option Key) × Nat) :=
  if returning then
    if ptrDest then some (List.replicate n none, n + n) else (if n = 0 then some ([], 0) else none)
  else some (backfillMaps skipPreset true (List.replicate n (some 0)) (m + n), n)

/-- `Create(&maps)` WITHOUT RETURNING from non-nil maps whose key entries are `ks` (`0` = no entry) through a model with an
    auto-increment integer key, SQLite-like dialector (`LastInsertIDReversed`), table maximum `m`: a map without a key is
    sent with NULL and receives a generated id, a preset key is stored as is (`dbInsert`).  Returns (key entry of every map
    afterwards, row keys, new max). -/
def createMapsKeys (skipPreset : Bool) (m : Int) (ks : List Key) : List (Option Key) × List Key × Int :=
  let (rows, m') := dbInsert m ks
  (createBackfillMaps skipPreset true true (ks.map some) ⟨rows.length, lastRowId rows⟩, rows, m')

/-! ## (v) `CreateInBatches` slicing (finisher_api.go:35-50) -/

/-- `for i := 0; i < n; i += b { ends := min(i+b, n); … Slice(i, ends) }` with fuel -/
def batchBounds (n b : Nat) : Nat → Nat → List (Nat × Nat)
  | 0, _ => []
  | fuel + 1, i => if i < n then (i, if i + b > n then n else i + b) :: batchBounds n b fuel (i + b) else []

def batchSlices {α : Type} (l : List α) (b : Nat) : List (List α) :=
  (batchBounds l.length b l.length 0).map (fun (i, e) => (l.drop i).take (e - i))

/-- `CreateInBatches(&slice, b)`: one `createSlice` per batch, threading the table state -/
def createBatchesAux (returning : Bool) : Int → List (List Key) → List Key × List Key × Int
  | m, [] => ([], [], m)
  | m, b :: bs =>
    let (mem, rows, m') := createSlice returning m b
    let (mem2, rows2, m2) := createBatchesAux returning m' bs
    (mem ++ mem2, rows ++ rows2, m2)

def createInBatches (returning : Bool) (m : Int) (ks : List Key) (b : Nat) : List Key × List Key × Int :=
  createBatchesAux returning m (batchSlices ks b)

/-! ## (vi) column ↔ field resolution: the registration loop of schema/schema.go `ParseWithSpecialTableName`
    (`for _, field := range schema.Fields { … FieldsByDBName / FieldsByName … }`) and `Schema.LookUpField`.
    Names are an arbitrary type with decidable equality (Go strings in the driver). -/

/-- what the registration loop reads of a parsed `*schema.Field` -/
structure PField (α : Type) where
  /-- `field.Name` (Go struct field name) -/
  name : α
  /-- `field.DBName`; `none` = "" (no column) -/
  dbName : Option α
  /-- `len(field.BindNames)` (1 = top level, 2 = member of an embedded struct, …) -/
  depth : Nat := 1
  /-- `field.Creatable || field.Updatable || field.Readable` -/
  perm : Bool := true
  /-- `field.TagSettings["-"] == "-"` -/
  ignored : Bool := false
  deriving Repr

/-- a registered field: its index in `schema.Fields` and the field -/
abbrev Ent (α : Type) := Nat × PField α

/-- Go map as association list, newest binding first -/
def assoc {α β : Type} [DecidableEq α] (k : α) : List (α × β) → Option β
  | [] => none
  | (k', v) :: l => if k = k' then some v else assoc k l

structure Reg (α : Type) where
  /-- `schema.FieldsByDBName` -/
  byDB : List (α × Ent α) := []
  /-- `schema.FieldsByName` -/
  byName : List (α × Ent α) := []
  /-- `schema.DBNames` -/
  dbNames : List α := []

/-- schema.go:213-234, the `if field.DBName != ""` block: a column goes to the first field that claims it, or to a
    later field with a strictly shorter bind path that has some permission; that field also takes its Go name -/
def regStepDB {α : Type} [DecidableEq α] (st : Reg α) (e : Ent α) : Reg α :=
  match e.2.dbName with
  | none => st
  | some c =>
    match assoc c st.byDB with
    | none => { byDB := (c, e) :: st.byDB, byName := (e.2.name, e) :: st.byName, dbNames := st.dbNames ++ [c] }
    | some v =>
      if e.2.perm && e.2.depth < v.2.depth then
        { st with byDB := (c, e) :: st.byDB, byName := (e.2.name, e) :: st.byName }
      else st

/-- schema.go:236-238: `if of, ok := schema.FieldsByName[field.Name]; !ok || of.TagSettings["-"] == "-"` -/
def regStepName {α : Type} [DecidableEq α] (st : Reg α) (e : Ent α) : Reg α :=
  match assoc e.2.name st.byName with
  | none => { st with byName := (e.2.name, e) :: st.byName }
  | some o => if o.2.ignored then { st with byName := (e.2.name, e) :: st.byName } else st

def regStep {α : Type} [DecidableEq α] (st : Reg α) (e : Ent α) : Reg α := regStepName (regStepDB st e) e

/-- the loop over `schema.Fields`, field `i` first -/
def regFrom {α : Type} [DecidableEq α] : Nat → List (PField α) → Reg α → Reg α
  | _, [], st => st
  | i, f :: fs, st => regFrom (i + 1) fs (regStep st (i, f))

def parseReg {α : Type} [DecidableEq α] (fs : List (PField α)) : Reg α := regFrom 0 fs {}

/-- schema.go `LookUpField`: column names first, Go field names second; result = index in `schema.Fields` -/
def lookUpField {α : Type} [DecidableEq α] (st : Reg α) (n : α) : Option Nat :=
  match assoc n st.byDB with
  | some e => some e.1
  | none => (assoc n st.byName).map (·.1)

/-! ## (vii) pooled scan holders: schema/field.go `setupNewValuePool` + the serializer wrapper of `field.Set`
    (holder re-instantiated from the prototype after every successful Scan), driven by scan.go `scanIntoStruct`
    (`NewValuePool.Get` … `Put`) once per row. -/

/-- One pooled holder pushed through the rows of a result set.  `merge h d` = what the holder's `Scan` leaves in a
    receiver that held `h` when it reads stored document `d` (an incremental Scan keeps parts of `h`); `proto` = the
    prototype (`field.Serializer`); `renew` = the wrapper replaces the receiver by a fresh copy of the prototype after
    handing the value to the record (field.go:970-972).  Result: the value each record received. -/
def scanLoop {σ δ : Type} (merge : σ → δ → σ) (proto : σ) (renew : Bool) : σ → List δ → List σ
  | _, [] => []
  | h, d :: ds => merge h d :: scanLoop merge proto renew (if renew then proto else merge h d) ds

/-- the incremental Scan of the harness' self-serializing document types: NULL leaves the receiver alone, a JSON
    object overwrites exactly the members it mentions -/
def mergeDoc (h : List Nat) : Option (List (Option Nat)) → List Nat
  | none => h
  | some d => List.zipWith (fun hv kv => kv.getD hv) h d

/-! ## (viii) RETURNING scan with `ON CONFLICT DO NOTHING` (scan.go `ScanUpdate|ScanOnConflictDoNothing`): an element
    with a non-zero returned field is taken for a conflicting (not inserted) one and skipped -/
def scanUpdateDN : List Key → List Key → List Key
  | [], _ => []
  | ks, [] => ks
  | k :: ks, r :: rows => if k ≠ 0 then k :: scanUpdateDN ks (r :: rows) else r :: scanUpdateDN ks rows

/-! ## (ix) embedded structs: how schema/field.go `ParseField` (the `EMBEDDED` / anonymous branch, field.go:391-440) and
    the field loop of schema/schema.go `ParseWithSpecialTableName` (schema.go:200-210) flatten a struct declaration into
    `schema.Fields`, and which flattened field OWNS a column afterwards (registration loop, section vi).

    A declaration is a first-child / next-sibling tree: `field` = a column-backed (or ignored) struct field, `embed` = a
    struct-typed field that gorm embeds — `anon = true` for a Go anonymous (embedded) field, `false` for a named field
    with the `embedded` tag; a pointer to a struct is embedded the same way.  `pfx` = its `embeddedPrefix` ("" = none). -/
inductive EDecl where
  | nil
  | field (name : String) (col : Option String) (perm : Bool) (next : EDecl)
  | embed (name : String) (anon : Bool) (pfx : String) (kids : EDecl) (next : EDecl)
  deriving Repr, Inhabited

/-- `schema.Fields` of the declaration: every leaf in declaration order with its `BindNames` (`path`), its column with
    all enclosing `embeddedPrefix`es prepended outermost first (field.go:420-422 runs once per enclosing level), and
    `depth = len(BindNames)` (field.go:407 prepends the embedding field's name for anonymous AND named embedding). -/
def flattenE (path : List String) (pfx : String) : EDecl → List (List String × PField String)
  | .nil => []
  | .field n col perm next =>
    (path ++ [n], { name := n, dbName := col.map (pfx ++ ·), depth := path.length + 1, perm := perm }) :: flattenE path pfx next
  | .embed n _ p kids next => flattenE (path ++ [n]) (pfx ++ p) kids ++ flattenE path pfx next

/-- forget / overwrite the anonymous-vs-named distinction -/
def EDecl.setAnon (b : Bool) : EDecl → EDecl
  | .nil => .nil
  | .field n c p next => .field n c p (next.setAnon b)
  | .embed n _ p kids next => .embed n b p (kids.setAnon b) (next.setAnon b)

def nth? {β : Type} : List β → Nat → Option β
  | [], _ => none
  | x :: _, 0 => some x
  | _ :: l, n + 1 => nth? l n

/-- `schema.DBNames` with, for every column, the `BindNames` of `schema.FieldsByDBName[column]` -/
def embedOwners (t : EDecl) : List (String × List String) :=
  let flat := flattenE [] "" t
  let st := parseReg (flat.map (·.2))
  st.dbNames.filterMap (fun c => match assoc c st.byDB with
    | some e => (nth? flat e.1).map (fun pf => (c, pf.1))
    | none => none)

/-! ## (x) Create and DATABASE-GENERATED values: which columns the INSERT lists, which columns it asks back with
    RETURNING (callbacks/create.go `Create`, create.go:44-61 and `ConvertToCreateValues`, create.go:236-345) and what the
    in-memory records hold afterwards.  Field values are integers, `0` = the zero value. -/

/-- default class of a column-owning field.
    * `none`  — no default
    * `lit v` — `default:` tag that gorm can parse (`DefaultValueInterface != nil`): gorm substitutes it itself
    * `db`    — `HasDefaultValue && DefaultValueInterface == nil`: a DB expression (`default:(abs(-7))`), an
                `autoIncrement` tag, …; the field is in `Schema.FieldsWithDefaultDBValue` in declaration order
    * `autoPk` — the prioritized integer primary key without `default:`/`autoIncrement` tag: appended to
                `FieldsWithDefaultDBValue` LAST (schema.go:318-329) -/
inductive DefKind | none | lit (v : Int) | db | autoPk
  deriving DecidableEq, Repr, Inhabited

def DefKind.isDB : DefKind → Bool
  | .db | .autoPk => true
  | _ => false

structure CCol where
  name : String
  dk : DefKind
  deriving Repr, Inhabited

/-- `Schema.FieldsWithDefaultDBValue` (schema.go:312-329), `cols` in `schema.Fields` order -/
def fieldsWithDefaultDB (cols : List CCol) : List String :=
  ((cols.filter (fun c => c.dk == .db)) ++ (cols.filter (fun c => c.dk == .autoPk))).map (·.name)

/-- create.go:52-60: RETURNING is requested for every `FieldsWithDefaultDBValue` column whenever the dialector supports it
    and there is such a field — the shape of the primary key plays no role.  (`none` = no RETURNING clause.) -/
def returningCols (support : Bool) (cols : List CCol) : Option (List String) :=
  if support && !(fieldsWithDefaultDB cols).isEmpty then some (fieldsWithDefaultDB cols) else none

/-- create.go:258-264: the base column list = every column whose field has no default or a literal default -/
def baseCols (cols : List CCol) : List String := (cols.filter (fun c => !c.dk.isDB)).map (·.name)

/-- values of one record, aligned with `cols` -/
abbrev CRec := List Int

/-- `FieldsWithDefaultDBValue` order of the DB-default columns for which `nonzero` holds (index = position in `cols`) -/
def dbColsOrdered (cols : List CCol) (nonzero : Nat → Bool) : List String :=
  let idx := (List.range cols.length).zip cols
  ((idx.filter (fun p => p.2.dk == .db && nonzero p.1)) ++ (idx.filter (fun p => p.2.dk == .autoPk && nonzero p.1))).map (·.2.name)

/-- INSERT column list of `Create(&record)` (create.go:316-345): base columns, then every DB-default column whose field
    is non-zero in the record -/
def insertColsOne (cols : List CCol) (r : CRec) : List String :=
  baseCols cols ++ dbColsOrdered cols (fun i => (nth? r i).getD 0 != 0)

/-- INSERT column list of `Create(&slice)` (create.go:266-314): base columns, then every DB-default column that is
    non-zero in SOME element (the other elements send `DEFAULT` / `NULL` there) -/
def insertColsSlice (cols : List CCol) (rs : List CRec) : List String :=
  baseCols cols ++ dbColsOrdered cols (fun i => rs.any (fun r => (nth? r i).getD 0 != 0))

/-- the value a record sends for one column (`none` = column omitted / `DEFAULT` / `NULL`: the database generates it) -/
def sentVal (c : CCol) (v : Int) : Option Int :=
  match c.dk with
  | .none => some v
  | .lit d => some (if v = 0 then d else v)
  | .db | .autoPk => if v = 0 then none else some v

/-- the row that stores a record: the sent value, else what the database generates for this row and column (`gen`) -/
def rowOf (cols : List CCol) (gen : Nat → Int) (r : CRec) : List Int :=
  let rec go : List CCol → List Int → Nat → List Int
    | [], _, _ => []
    | c :: cs, vs, i => ((sentVal c (vs.headD 0)).getD (gen i)) :: go cs vs.tail (i + 1)
  go cols r 0

/-- the in-memory record after Create: literal defaults are substituted by gorm (create.go:279-281 / 319-321); with a
    RETURNING clause every `FieldsWithDefaultDBValue` column is scanned back from the record's own row (scan.go
    `ScanUpdate`, row j → element j, section iv); without one the record keeps what it had (only the generated integer
    key is back-filled from LastInsertId, section iv — not modelled here: `autoPk` stays as it was). -/
def memAfter (support : Bool) (cols : List CCol) (gen : Nat → Int) (r : CRec) : List Int :=
  let row := rowOf cols gen r
  let ret := (returningCols support cols).getD []
  let rec go : List CCol → List Int → List Int → List Int
    | [], _, _ => []
    | c :: cs, vs, ws =>
      let v := vs.headD 0
      (if ret.contains c.name then ws.headD 0
       else match c.dk with
         | .lit d => if v = 0 then d else v
         | _ => v) :: go cs vs.tail ws.tail
  go cols r row

end Gorm.Scan
