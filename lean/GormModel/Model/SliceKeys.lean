/-
  Model.SliceKeys (C02, round 5) — "the primary key of the model value" when the model value is a SLICE / ARRAY /
  slice of pointers of records:

    schema/utils.go   GetIdentityFieldValuesMap, `case reflect.Slice, reflect.Array` — the `results` list, i.e. the
                      value tuples that become `pk IN (…)`; elements are de-duplicated by ADDRESS (`loaded`) and key
                      tuples by their KEY STRING (`dataResults[utils.ToStringKey(fieldValues...)]`)
    callbacks/delete.go Delete, soft_delete.go SoftDeleteDeleteClause.ModifyStatement
                      `if len(values) > 0 { AddClause(Where{IN{column, values}}) }`
    callbacks/update.go ConvertToAssignments, `case reflect.Slice, reflect.Array` of the key block
                      (the flag `isZero` that survives the two loops is the LAST element's "all primary fields zero")

  Records, key components and the key string are C11's (Model.Identity: `IdRow`, `KeyComp`, `KeyVal`, `toStringKey`,
  `identitySlice`); the key-string function is a PARAMETER here (`sliceKeyListBy ks`), so that theorems can say what
  the IN list needs from it (injectivity on the slice's tuples) and counterexamples can exhibit a key string that
  folds letter case.  `sliceKeyList = sliceKeyListBy toStringKey` is proved equal to `(identitySlice rows).values`.
-/
import GormModel.Model.Identity
namespace Gorm

structure SKState where
  loaded : List Nat                 -- `loaded[elemKey] = true`
  seen : List (List Char)           -- the keys of `dataResults`, first-insertion order
  values : List (List KeyVal)       -- `results`
deriving Repr, DecidableEq

def SKState.init : SKState := ⟨[], [], []⟩

/-- one iteration of the `case reflect.Slice, reflect.Array` loop, `results` side only -/
def skStep (ks : List KeyVal → List Char) (st : SKState) (r : IdRow) : SKState :=
  if st.loaded.contains r.addr then st                       -- `if _, ok := loaded[elemKey]; ok { continue }`
  else
    let loaded := r.addr :: st.loaded
    if allZero r.key then { st with loaded := loaded }       -- `if notZero { … }`
    else if st.seen.contains (ks r.vals) then { st with loaded := loaded }   -- `if _, ok := dataResults[dataKey]; !ok`
    else ⟨loaded, st.seen ++ [ks r.vals], st.values ++ [r.vals]⟩            -- `results = append(results, fieldValues)`

/-- the IN list built from a slice value, for a key-string function `ks` -/
def sliceKeyListBy (ks : List KeyVal → List Char) (rows : List IdRow) : List (List KeyVal) :=
  (rows.foldl (skStep ks) SKState.init).values

/-- … with gorm's `utils.ToStringKey` -/
def sliceKeyList (rows : List IdRow) : List (List KeyVal) := sliceKeyListBy toStringKey rows

/-- Delete(&slice) / Model(&slice).Delete(&T{}) / soft delete: `if len(values) > 0 { … IN … }` -/
def deleteSliceKeyCond (rows : List IdRow) : Option (List (List KeyVal)) :=
  let vs := sliceKeyList rows
  if vs.isEmpty then none else some vs

/-- Model(&slice).Update…: `for i … { for _, field … { _, isZero = field.ValueOf(…); if !isZero { break } } }
    if !isZero { … IN … }` — only the LAST element decides whether the key condition is added at all -/
def updateSliceKeyCond (rows : List IdRow) : Option (List (List KeyVal)) :=
  match rows.getLast? with
  | none => none
  | some l => if allZero l.key then none else some (sliceKeyList rows)

/-- a table row: identity and primary-key tuple (primary keys hold no NULL) -/
structure SKRow where
  id : Nat
  key : List KeyVal
deriving Repr, DecidableEq

/-- SQL `(pk…) IN (values)`: tuple equality with EXACT value comparison (binary collation: letter case, blanks,
    every code point count) -/
def inSelects (values : List (List KeyVal)) (t : SKRow) : Bool := values.contains t.key

/-- the rows a write through a slice model value addresses by its key unit -/
def sliceAddressedBy (ks : List KeyVal → List Char) (rows : List IdRow) (table : List SKRow) : List SKRow :=
  table.filter (inSelects (sliceKeyListBy ks rows))

def sliceAddressed (rows : List IdRow) (table : List SKRow) : List SKRow := sliceAddressedBy toStringKey rows table

/-- the reference: rows whose key tuple EQUALS the key tuple of some element that carries a key (not all parts zero) -/
def sliceSpec (rows : List IdRow) (table : List SKRow) : List SKRow :=
  table.filter (fun t => rows.any (fun r => !allZero r.key && r.vals == t.key))

/-- a key string that folds ASCII letter case ("case-insensitive collation") — used by counterexamples only -/
def foldChar (c : Char) : Char := if 'A' ≤ c ∧ c ≤ 'Z' then Char.ofNat (c.toNat + 32) else c
def foldedStringKey (vs : List KeyVal) : List Char := (toStringKey vs).map foldChar

/-- a key string that drops surrounding blanks — used by counterexamples only -/
def trimmedStringKey (vs : List KeyVal) : List Char :=
  ((toStringKey vs).dropWhile (· == ' ')).reverse.dropWhile (· == ' ') |>.reverse

end Gorm
