/-
  C09 (round 4) — what the update / delete pipelines send to the database BEFORE the handler that holds the guard.

  callbacks/callbacks.go RegisterDefaultCallbacks (regenerated: Gen.pipelines) registers
      update: begin_transaction, setup_reflect_value, before_update, save_before_associations, UPDATE (guard), …
      delete: begin_transaction, before_delete, delete_before_associations, DELETE (guard), …
  callbacks/associations.go SaveBeforeAssociations(false) saves every non-zero BELONGS-TO value of the statement's value
  that Select/Omit do not exclude (one `INSERT … ON CONFLICT …` per value); callbacks/delete.go DeleteBeforeAssociations
  deletes the join rows of every MANY2MANY relation named by Select(..) (`DELETE FROM join WHERE fk IN (NULL)` for a
  key-less parent; has-one / has-many relations are skipped when the parent has no key).  Both run before
  checkMissingWhereConditions gets a chance to refuse the main statement.
-/
import GormModel.Core.Facts
import GormModel.Gen.Pipelines
namespace Gorm

/-- the part of the input the association callbacks look at -/
structure AssocInput where
  belongsToValues : Nat   -- non-zero belongs-to values of the statement's value, not excluded by Select/Omit   (update)
  selectedM2M : Nat       -- many2many relations named by Select(..) / clause.Associations                     (delete)
deriving DecidableEq, Repr

/-- statements a handler of these pipelines sends on its own for a KEY-LESS model value -/
def handlerSends (handler : String) (i : AssocInput) : Nat :=
  if handler == "SaveBeforeAssociations" then i.belongsToValues
  else if handler == "DeleteBeforeAssociations" then i.selectedM2M
  else 0

/-- statements sent by the handlers registered BEFORE the handler that holds the guard -/
def sentBeforeGuard (regs : List CbReg) (guardHandler : String) (i : AssocInput) : Nat :=
  ((regs.takeWhile (fun r => r.handler != guardHandler)).map (fun r => handlerSends r.handler i)).sum

def pipelineRegs (name : String) : List CbReg :=
  match Gen.pipelines.find? (fun p => p.1 == name) with
  | some p => p.2
  | none => []

end Gorm
