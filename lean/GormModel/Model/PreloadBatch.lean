/-
  C11 round 4 — the child query of callbacks/preload.go `preload` as a function of the parent-key LIST.

  preload collects the distinct key tuples of the parents (`GetIdentityFieldValuesMap`), sends
  `tx.Where(clause.IN{column, values}).Find(&children)` and hands every fetched child to the parents registered under
  its key string.  Whether the key list is sent in ONE query or in several (batches) must not matter for what is
  attached — and it does not, PROVIDED each batch runs on a statement of its own.  gorm's `*DB` handle decides that:
  a session handle (clone = 2) copies its statement on every chain call, the handle RETURNED by a chain call (clone = 0)
  adds every further `Where` to the same statement.  preload re-assigns `tx` from chain calls (`tx = tx.Preload(…)` for
  nested paths, `tx = fc(tx)` for function conditions, `tx = tx.Where(…)` for polymorphic constants), so inside preload
  `tx` may be of either kind.
-/
import GormModel.Model.Identity
import GormModel.Gen.PreloadQuery
namespace Gorm

/-- the part of a query statement preload adds to: the `clause.IN` lists ANDed in its WHERE -/
structure PStmt where
  ins : List (List (List KeyVal))
deriving Repr, DecidableEq

/-- SQL: a row is selected iff its key tuple is in EVERY IN list (a tuple with a NULL component is in none) -/
def PStmt.selects (s : PStmt) (c : KChild) : Bool :=
  !c.fk.contains .nil && s.ins.all (fun vs => vs.contains c.fk)

/-- `Find` on a statement -/
def runStmt (children : List KChild) (s : PStmt) : List KChild := children.filter s.selects

/-- `for each batch b { h.Where(clause.IN{column, b}).Find(&part); results = append(results, part…) }`
    `cloning = true`: h is a session handle, every `h.Where` starts from h's own statement `base`;
    `cloning = false`: h is the result of a chain call, `h.Where` mutates h's statement, which the next batch inherits. -/
def batchedFetch (cloning : Bool) (children : List KChild) (base : PStmt) : List (List (List KeyVal)) → List KChild
  | [] => []
  | b :: rest =>
    let s : PStmt := ⟨base.ins ++ [b]⟩
    runStmt children s ++ batchedFetch cloning children (if cloning then base else s) rest

/-- preload with its child query cut by ANY `split` of the key list, each batch on a fresh statement -/
def preloadBatched (split : List (List KeyVal) → List (List (List KeyVal))) (parents : List IdRow)
    (children : List KChild) (a : Nat) : List Nat :=
  let m := identitySlice parents
  attachedTo m (batchedFetch true children ⟨[]⟩ (split m.values)) a

/-- shape of one `.Find(` call of preload, regenerated from the source (`Gen/PreloadQuery.lean`):
    `inLoop` — a for / range statement of preload encloses it; `fresh` — its receiver chain passes through `.Session(`;
    `whole` — its `clause.IN` carries the whole value list (an identifier, not a slice expression) -/
structure FindSite where
  inLoop : Bool
  fresh : Bool
  whole : Bool
deriving Repr, DecidableEq

def mkFindSites : List Nat → List Bool → List Bool → List FindSite
  | d :: ds, f :: fs, w :: ws => ⟨decide (d ≠ 0), f, w⟩ :: mkFindSites ds fs ws
  | _, _, _ => []

/-- the `.Find(` calls of the current tree's preload -/
def currentFindSites : List FindSite :=
  mkFindSites Gen.preloadFindLoopDepth Gen.preloadFindFreshHandle Gen.preloadFindWholeValues

/-- the children a query site fetches for the key list `values`: one query with the whole list when the site is not in a
    loop; otherwise one query per batch of `split values` (any way of cutting the list), on a fresh statement iff the
    handle clones (`txClones`) or the site makes it fresh; a site that does not pass the whole list sends `sub values` -/
def siteFetch (s : FindSite) (txClones : Bool) (split : List (List KeyVal) → List (List (List KeyVal)))
    (sub : List (List KeyVal) → List (List KeyVal)) (children : List KChild) (values : List (List KeyVal)) : List KChild :=
  let vs := if s.whole then values else sub values
  if s.inLoop then batchedFetch (txClones || s.fresh) children ⟨[]⟩ (split vs) else fetchIn children vs

/-- the list cut into consecutive chunks of `n` elements (`fuel` ≥ length) -/
def chunks (n : Nat) : Nat → List (List KeyVal) → List (List (List KeyVal))
  | 0, _ => []
  | _, [] => []
  | fuel + 1, l => l.take n :: chunks n fuel (l.drop n)

end Gorm
