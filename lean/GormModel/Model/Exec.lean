/-
  Executable semantics of one pass through a write pipeline with an injected fault,
  over the REGENERATED handler facts (see Model/Pipeline.lean for the abstraction).

  Events are emitted for `driver` calls (statements) and `tx` calls (Begin/Commit/Rollback).
  A fault at event index `k` makes that driver call fail: the handler passes the error to
  `AddError`, so `db.Error` is non-nil from then on (`AddError` never resets it: `addError` below
  mirrors gorm.go).  Conditions the model does not interpret are left to `env`.
-/
import GormModel.Model.Pipeline
namespace Gorm

/-- gorm.go `AddError`: `if err != nil { if db.Error == nil { db.Error = err } else { wrap } }` -/
def addError (cur : Option String) (err : Option String) : Option String :=
  match err with
  | none => cur
  | some e => match cur with
    | none => some e
    | some c => some (c ++ "; " ++ e)

structure Ev where
  cb : String      -- callback name
  kind : String    -- "driver" | "tx"
  what : String
  failed : Bool
deriving Repr, DecidableEq

structure ExecSt where
  st : RunSt
  evs : List Ev              -- every event, in order
  faulted : Bool := false    -- a fault has been injected
  post : List Ev := []       -- the events emitted after the injected fault
deriving Repr

/-- run the calls of one handler in source order -/
def execCalls (cb : String) (env : String → Bool) (faultAt : Nat) :
    List HCall → ExecSt → ExecSt
  | [], s => s
  | c :: cs, s =>
    if (c.kind = "driver" ∨ c.kind = "tx") ∧ c.enabled s.st env = true then
      let idx := s.evs.length
      let failed := decide (c.kind = "driver") && decide (idx = faultAt)
      let e : Ev := { cb := cb, kind := c.kind, what := c.what, failed := failed }
      execCalls cb env faultAt cs
        { st := if failed then { s.st with err := true } else s.st,
          evs := s.evs ++ [e],
          faulted := s.faulted || failed,
          post := if s.faulted then s.post ++ [e] else s.post }
    else execCalls cb env faultAt cs s

/-- run a whole pipeline -/
def execPipeline (hs : List HandlerFact) (env : String → Bool) (faultAt : Nat) :
    List CbReg → ExecSt → ExecSt
  | [], s => s
  | r :: rs, s =>
    if r.active s.st then
      match handlerOf hs r.handler with
      | some h => execPipeline hs env faultAt rs (execCalls r.name env faultAt h.calls s)
      | none => execPipeline hs env faultAt rs s
    else execPipeline hs env faultAt rs s

/-- "nothing harmful happens once the error flag is set": no statement is sent, no Commit is issued -/
def Ev.harmless (e : Ev) : Bool := !(e.kind = "driver") && !(e.kind = "tx" && e.what = "Commit")

/-- the guard discipline C05 needs from a handler table -/
def GuardedTable (hs : List HandlerFact) : Prop :=
  ∀ h ∈ hs, ∀ c ∈ h.calls,
    (c.kind = "driver" → "db.Error == nil" ∈ c.guards) ∧
    (c.kind = "tx" → c.what = "Commit" → "db.Error == nil" ∈ c.guards)

end Gorm
