/-
  C13 (round 2) — two more pieces of the hook machinery, both driven by REGENERATED facts (Gen/HookFacts.lean):

  A. hook DETECTION by method set: schema/schema.go `ParseWithSpecialTableName` (the loop over `callbackTypes`,
     `callBackToMethodValue`'s hand-unrolled MethodByName switch, the signature switch, the flag assignment) and the
     per-hook tests inside the hook callbacks of callbacks/{create,update,delete,query}.go (Schema flag + type
     assertion to the hook's interface of callbacks/interfaces.go).
  B. hook ERROR flow: gorm.go `DB.AddError` and callbacks/transaction.go `CommitOrRollbackTransaction` evaluated on a
     model of Go error VALUES (sentinels, %w-wrapping, errors.Join, errors with their own Is method).
-/
import GormModel.Model.Hooks
import GormModel.Gen.HookFacts
namespace Gorm
open Gen (HCond HookSite CondCall)

/-! ## A. detection -/

/-- one method of the model's (pointer) method set, signature as `reflect` prints it without the receiver -/
structure Meth where
  name : String
  sig : String
deriving Repr, DecidableEq

def lookupS (tbl : List (String × String)) (k : String) : Option String :=
  (tbl.find? (fun p => p.1 == k)).map (·.2)

/-- schema.Parse's signature switch: `switch methodValue.Type().String() { case "func(*gorm.DB) error": SetBool(true); default: Warn }` -/
def sigAccepted (cases : List (String × String)) (sig : String) : Bool :=
  match lookupS cases sig with
  | some v => v == "true"
  | none => lookupS cases "default" == some "true"

/-- the flag schema.Parse computes in the loop iteration for constant `label`:
    `callBackToMethodValue(modelValue, label)` = MethodByName(string(C)) for the arm (label, C), valid and of an accepted signature -/
def hookFlag (consts arms cases : List (String × String)) (ms : List Meth) (label : String) : Bool :=
  match lookupS arms label with
  | some c =>
    match lookupS consts c with
    | some nm => ms.any fun m => m.name == nm && sigAccepted cases m.sig
    | none => false
  | none => false

/-- the (field, value) pairs the loop sets: field = `string(cbName)` = the constant's value -/
def schemaFlags (consts arms cases : List (String × String)) (loop : List String) (ms : List Meth) : List (String × Bool) :=
  loop.filterMap fun label => (lookupS consts label).map fun field => (field, hookFlag consts arms cases ms label)

def flagOf (fl : List (String × Bool)) (h : String) : Bool :=
  match fl.find? (fun p => p.1 == h) with
  | some p => p.2
  | none => false

/-- `value.(XInterface)`: every method of the interface is in the method set with exactly that signature -/
def implementsI (ifaces : List (String × List (String × String))) (ms : List Meth) (iface : String) : Bool :=
  match ifaces.find? (fun p => p.1 == iface) with
  | some p => p.2.all fun im => ms.any fun m => m.name == im.1 && m.sig == "func" ++ im.2
  | none => false

/-- valuation of condition trees -/
structure HEnv where
  atom : String → Bool
  flag : String → Bool
  errNil : String → Bool
  errIs : String → String → Bool
  errEq : String → String → Bool

def evalH (env : HEnv) : HCond → Bool
  | .tt => true
  | .atom s => env.atom s
  | .flag f => env.flag f
  | .errNil s => env.errNil s
  | .errEq s t => env.errEq s t
  | .errIs s t => env.errIs s t
  | .errAs s t => env.errIs s t
  | .not c => !(evalH env c)
  | .and a b => evalH env a && evalH env b
  | .or a b => evalH env a || evalH env b

/-- the situation in which hooks are expected: no error so far, hooks not skipped, schema parsed, rows affected -/
def hooksOnEnv (flag : String → Bool) : HEnv :=
  { atom := fun a => a != "db.Statement.SkipHooks", flag := flag, errNil := fun _ => true,
    errIs := fun _ _ => false, errEq := fun _ _ => false }

/-- does the call site `i.H(tx)` run for a record: outer guard of the handler, the flags tested inside the closure,
    the type assertion -/
def siteFiresWith (flag : String → Bool) (impl : String → Bool) (s : HookSite) : Bool :=
  evalH (hooksOnEnv flag) s.outer && s.flags.all flag && impl s.iface

def hasHook (ms : List Meth) (h : String) : Bool :=
  ms.any fun m => m.name == h && m.sig == "func(*gorm.DB) error"

/-- flags of the current tree for a method set -/
def genFlags (ms : List Meth) : List (String × Bool) :=
  schemaFlags Gen.hookTypeConsts Gen.hookMethodArms Gen.hookSigCases Gen.hookTypesLoop ms

def siteFires (ms : List Meth) (s : HookSite) : Bool :=
  siteFiresWith (flagOf (genFlags ms)) (implementsI Gen.hookInterfaces ms) s

/-- hook `h` fires in handler `handler` for a model with method set `ms` -/
def firesIn (ms : List Meth) (handler h : String) : Bool :=
  Gen.hookSites.any fun s => s.handler == handler && s.hook == h && siteFires ms s

/-- event list of an operation for a model with method set `ms` (cf. `opEvents`, where `has` is per hook name):
    per hook-calling handler, record by record, the hooks whose call site fires -/
def hookEventsIn (ms : List Meth) (handler : String) (hooks : List String) : Nat → Nat → List HEv
  | 0, _ => []
  | n+1, i => (hooks.filter (firesIn ms handler)).map (fun h => HEv.hook h i) ++ hookEventsIn ms handler hooks n (i+1)

def opEventsMs (hs : List HandlerFact) (regs : List CbReg) (ms : List Meth) (n : Nat) : List HEv :=
  regs.flatMap fun r =>
    match handlerOf hs r.handler with
    | some h =>
      (if h.callsMethod then hookEventsIn ms h.name h.hooks n 0 else []) ++
      (if h.sendsStatement then [HEv.stmt] else [])
    | none => []

/-! ## B. error values -/

/-- Go error values as far as `errors.Is` / `==` can tell them apart -/
inductive ErrV where
  | plain (id : Nat)                    -- errors.New, unrelated to every sentinel
  | sentinel (name : String)            -- gorm.ErrRecordNotFound, sql.ErrTxDone, context.Canceled, io.EOF, …
  | wrap (inner : ErrV)                 -- fmt.Errorf("…: %w", inner)
  | join (a b : ErrV)                   -- errors.Join(a, b)
  | chain (prev cur : ErrV)             -- fmt.Errorf("%v; %w", prev, cur)   (DB.AddError on a second error)
  | isAll (id : Nat)                    -- an error type whose `Is(target)` answers true
deriving Repr, DecidableEq

/-- `errors.Is(e, sentinel)` -/
def ErrV.is : ErrV → String → Bool
  | .plain _, _ => false
  | .sentinel n, s => n == s
  | .wrap e, s => e.is s
  | .join a b, s => a.is s || b.is s
  | .chain _ c, s => c.is s
  | .isAll _, _ => true

/-- `e == sentinel` -/
def ErrV.eqS : ErrV → String → Bool
  | .sentinel n, s => n == s
  | _, _ => false

/-- does `r` still carry `e` (errors.Is(r, e) for the error object e)? -/
def ErrV.carries : ErrV → ErrV → Bool
  | .wrap i, e => ErrV.wrap i == e || i.carries e
  | .join a b, e => ErrV.join a b == e || a.carries e || b.carries e
  | .chain p c, e => ErrV.chain p c == e || c.carries e
  | r, e => r == e

/-- environment in which the subjects `db.Error` / `err` have the given values -/
def errEnv (atom : String → Bool) (dbErr err : Option ErrV) : HEnv :=
  let val (s : String) : Option ErrV := if s == "db.Error" then dbErr else if s == "err" then err else none
  { atom := atom, flag := fun _ => false,
    errNil := fun s => (val s).isNone,
    errIs := fun s t => match val s with | some e => e.is t | none => false,
    errEq := fun s t => match val s with | some e => e.eqS t | none => false }

/-- the calls of a function body that are executed under a valuation -/
def callsUnder (acts : List CondCall) (env : HEnv) : List String :=
  (acts.filter fun a => evalH env a.cond).map (·.call)

/-- callbacks/transaction.go CommitOrRollbackTransaction of the current tree on `db.Error = dbErr` -/
def txDecision (atom : String → Bool) (dbErr : Option ErrV) : List String :=
  callsUnder Gen.commitOrRollbackActs (errEnv atom dbErr none)

/-- gorm.go DB.AddError(e) with `db.Error = cur`: the value assigned to db.Error by the executed write
    (`db.Error = err` | `db.Error = fmt.Errorf("%v; %w", db.Error, err)`); a right-hand side the model does not know
    loses the error (`none`) -/
def hookAddErrorWith (writes : List CondCall) (atom : String → Bool) (cur : Option ErrV) (e : ErrV) : Option ErrV :=
  (callsUnder writes (errEnv atom cur (some e))).foldl (fun acc w =>
    if w == "db.Error = err" then some e
    else if w == "db.Error = fmt.Errorf(\"%v; %w\", db.Error, err)" then
      (match cur with | some c => some (ErrV.chain c e) | none => none)
    else if w == "err = errTranslator.Translate(err)" then acc   -- Config.TranslateError: dialect-specific, not modelled
    else none) cur

def hookAddError (atom : String → Bool) (cur : Option ErrV) (e : ErrV) : Option ErrV :=
  hookAddErrorWith Gen.addErrorWrites atom cur e

end Gorm
