/-
  C06 round 3 — a reusable handle handed to ANOTHER chain as an ARGUMENT.

  Every place of gorm that recognises a `*gorm.DB` among the arguments of a chain call or among the values being
  bound is regenerated into `Gen.argSites` (extract/gen_c06a.go: all `case *DB:` arms and `.(*DB)` assertions of
  the root package, callbacks, clause, schema, migrator, utils) as a list of syntactic events about the argument.
  This file
    * classifies the events (`evWrites`): which of them can write into the ARGUMENT's own statement or into an
      array it shares (element assignment through an alias, field assignment, append onto an aliased slice, a
      method that is not read-only called without passing through `getInstance()` first, the argument handed on to
      another function) — `SiteCfg` is the summary the executable model below reads;
    * models the three kinds of site on the heap of Model/Heap.lean:
        `joinsUse`     chainable_api.go joins(): `Joins("Rel", h)` — h's Selects / Omits / WHERE slice are ALIASED by the
                       join record (`j.On = &where`), nothing is copied; a site that assigns `where.Exprs[i]` rewrites
                       h's own array in place (`elemWrites`)
        `joinOnBuild`  callbacks/query.go BuildQuerySQL: `onStmt.AddClause(join.On)` + `where.Build(&onStmt)` when the
                       CONSUMER is built — Where.MergeClause with the joined model's query clauses, then Where.Build
                       (its swap!) on a slice that may still be h's
        `subqueryUse`  statement.go AddVar `case *DB` (`Where("x IN (?)", h)`, Select/Table/Order/Update/Create/Raw/
                       Exec/gorm.Expr/clause.Expr{Vars} … every value position): `v.Session(…).getInstance()` =
                       Statement.clone, then the Query callbacks run on the clone (pending scopes, Where.Build);
                       a site that calls `executeScopes` on `v` itself (`scopesOnArg`) empties h's pending scopes
        `groupUse`     statement.go BuildCondition `case *DB` (`Where(h)`, Or/Not/Having, inline conditions of
                       Find/First/Delete/Preload/Association) — `groupArgStmt` + `buildCondGroup` of Model/Heap.lean
  Tie: harness/c06_zarg.go — suite "argtie" snapshots the real argument handle by reflection around every argument
  use and compares which parts changed with `argChanged` below; suite "arg" is the e2e oracle (no model).
-/
import GormModel.Model.Heap
import GormModel.Gen.C06ArgSites
namespace Gorm.ArgUse
open Gorm.Heap

/-! ## classification of the regenerated events -/

/-- calls on the argument that derive a new handle or only read (`what` = dotted method path below the bound
    variable).  `executeScopes`, `AddClause`, `Build`, chain methods, callbacks … are NOT in this list: they
    are safe only behind `getInstance()` (`viaCopy`). -/
def readOnlyCalls : List String :=
  ["Session", "Session.getInstance", "getInstance", "WithContext", "Statement.SQL.Len", "Statement.SQL.String",
   "Dialector.BindVarTo", "Statement.Context", "Dialector.Name"]

/-- constructors that wrap a slice without writing it (clause/where.go And / Or / Not, the conversions) -/
def pureCallees : List String :=
  ["clause.And", "clause.Or", "clause.Not", "clause.AndConditions", "clause.OrConditions", "len", "cap"]

def evWrites (e : Gen.ArgEv) : Bool :=
  if e.kind == "elemAssign" || e.kind == "fieldAssign" || e.kind == "append" || e.kind == "pass" || e.kind == "aliasCall" then true
  else if e.kind == "call" then !e.viaCopy && !readOnlyCalls.contains e.what
  else if e.kind == "aliasArg" then !pureCallees.contains e.what
  else false      -- rebind / localAssign / store: no write

def siteWrites (s : Gen.ArgSite) : List Gen.ArgEv := s.evs.filter evWrites

/-- what the executable model needs to know about a site -/
structure SiteCfg where
  scopesOnArg : Bool    -- `executeScopes` (or any non-read-only method) reaches the argument's OWN statement
  elemWrites : Nat      -- element assignments through an alias of the argument's statement
  otherWrites : Nat     -- field assignments / appends / hand-ons
deriving Repr, DecidableEq

def cfgOf (s : Gen.ArgSite) : SiteCfg :=
  { scopesOnArg := s.evs.any (fun e => e.kind == "call" && evWrites e),
    elemWrites := (s.evs.filter (fun e => e.kind == "elemAssign")).length,
    otherWrites := (s.evs.filter (fun e => evWrites e && e.kind != "call" && e.kind != "elemAssign")).length }

def SiteCfg.safe (sc : SiteCfg) : Bool := !sc.scopesOnArg && sc.elemWrites == 0 && sc.otherWrites == 0

/-- the discipline every site must have -/
def siteSafe : SiteCfg := ⟨false, 0, 0⟩

def siteNamed (fn : String) : Option Gen.ArgSite := Gen.argSites.find? (fun s => s.fn == fn)

def cfgNamed (fn : String) : SiteCfg :=
  match siteNamed fn with
  | some s => cfgOf s
  | none => ⟨true, 1, 1⟩      -- a site that disappeared: nothing is known, assume the worst

def joinsCfg : SiteCfg := cfgNamed "joins"
def addVarCfg : SiteCfg := cfgNamed "Statement.AddVar"
def groupCfg : SiteCfg := cfgNamed "Statement.BuildCondition"

/-- the join record's aliasing fields are only read / handed to `AddClause` when the consumer is built -/
def joinUseOK (u : String × String × String × String) : Bool :=
  u.2.2.2 == "read" || u.2.2.2 == "range" || u.2.2.2 == "arg:onStmt.AddClause"

/-! ## the sites on the heap -/

/-- the argument after a site whose code reaches `executeScopes` on the argument itself: a reusable handle
    (clone ≥ 1) has `scopes = nil` written into its own statement (Model/Heap.lean `argAfter`) -/
def scopesEffect (sc : SiteCfg) (arg : Handle) : Handle :=
  if sc.scopesOnArg ∧ arg.st.scopes.len ≠ 0 then argAfter false arg else arg

/-- the in-place rewrite of a lone `Or(x)` into `And(x)` through an alias of the argument's WHERE slice -/
def rewriteEffect (sc : SiteCfg) (H : Heap) (st : Stmt) : Heap :=
  if sc.elemWrites = 0 then H
  else match st.wher with
    | some w => (match readS H w with
                 | [.orc o] => writeAt H w.arr w.off (.andc o)
                 | _ => H)
    | none => H

structure UseOut where
  heap : Heap
  arg : Handle            -- the ARGUMENT handle afterwards
  toks : List Tok         -- what the consumer renders for it
deriving Repr, DecidableEq

/-- chainable_api.go joins() with a `*DB` argument: (heap, argument afterwards, the ON slice the join record
    aliases).  Nothing is copied: `on` IS the argument's WHERE slice. -/
def joinsUse (sc : SiteCfg) (H : Heap) (arg : Handle) : Heap × Handle × Option Slice :=
  (rewriteEffect sc H arg.st, scopesEffect sc arg, arg.st.wher)

/-- callbacks/query.go BuildQuerySQL, genJoinClause: `onStmt` gets the joined model's QueryClauses (`qc`: the
    soft-delete condition, if any), then `AddClause(join.On)` (Where.MergeClause), then `where.Build(&onStmt)` -/
def joinOnBuild (m : MergeCfg) (copies : Bool) (fuel : Nat) (H : Heap) (on : Option Slice) (qc : Option Nat) : Heap × List Tok :=
  match on with
  | none => (match qc with
             | some a => let p := condAtom H a; whereBuild copies fuel p.1 p.2
             | none => (H, []))
  | some w =>
    match qc with
    | some a =>
      let p := condAtom H a
      let q := mergeWhere m.wher p.1 (some p.2) w
      whereBuild copies fuel q.1 q.2
    | none => whereBuild copies fuel H w

/-- `Joins("Rel", h)` followed by the build of the consumer -/
def joinsUseBuilt (sc : SiteCfg) (c : Cfg) (fuel : Nat) (H : Heap) (arg : Handle) (qc : Option Nat) : UseOut :=
  let u := joinsUse sc H arg
  let b := joinOnBuild c.mg c.fx.buildCopies fuel u.1 u.2.2 qc
  ⟨b.1, u.2.1, b.2⟩

/-- statement.go AddVar `case *DB`: the sub-query handle bound as a VALUE.  `Session(…).getInstance()` on a
    reusable handle or on a chain instance is Statement.clone (Session sets clone = 2); the Query callbacks
    then run on the clone: pending scopes, Where.Build. -/
def subqueryUse (sc : SiteCfg) (c : Cfg) (fuel : Nat) (H : Heap) (arg : Handle) : UseOut :=
  let arg' := scopesEffect sc arg
  let H0 := rewriteEffect sc H arg'.st
  let p := cloneStmt c.cl H0 arg'.st
  let r := renderStmt c.mg c.fx.buildCopies fuel p.1 p.2 0
  ⟨r.1, arg', [Tok.lp] ++ r.2 ++ [Tok.rp]⟩

/-- statement.go BuildCondition `case *DB`: the handle as a GROUP condition (pieces of Model/Heap.lean) -/
def groupUse (sc : SiteCfg) (c : Cfg) (fuel : Nat) (H : Heap) (arg : Handle) : UseOut :=
  let g := groupArgStmt c.cl c.mg (!sc.scopesOnArg) H arg
  let b := buildCondGroup (sc.elemWrites == 0) g.1 g.2
  ⟨b.1, scopesEffect sc arg, (buildExprs fuel b.1 (readS b.1 b.2) .and true)⟩

/-! ## what the tie compares: which parts of the ARGUMENT changed -/

/-- names of the parts of the argument handle's statement that differ after the use (deep: arrays read through) -/
def argChanged (H H' : Heap) (a a' : Handle) : List String :=
  (if (a.st.wher.map (readS H)) != (a'.st.wher.map (readS H')) then ["where"] else []) ++
  (if readS H a.st.scopes != readS H' a'.st.scopes then ["scopes"] else []) ++
  (if readS H a.st.selects != readS H' a'.st.selects then ["selects"] else []) ++
  (if readS H a.st.joins != readS H' a'.st.joins then ["joins"] else [])

/-- a test argument for the tie: WHERE = the given element kinds (0 plain, 1 single Or, 2 Not), `nsc` pending
    scopes, reusable (clone 2) -/
def mkArg (kinds : List Nat) (nsc : Nat) : Heap × Handle :=
  let step := fun (p : Heap × Stmt × Nat) (k : Nat) =>
    let (H, st, n) := p
    let (H1, conds) := condAtom H (n + 1)
    match wrapCond H1 k conds with
    | (H2, some w) => let q := addWhere genMerge H2 st w; (q.1, q.2, n + 1)
    | (H2, none) => (H2, st, n + 1)
  let (H, st, n) := kinds.foldl step (Heap.empty, ({} : Stmt), 0)
  let (H', sc) := (List.range nsc).foldl (fun (p : Heap × Slice) i => appendS p.1 p.2 [.atom (n + 1 + i)]) (H, Slice.nil)
  (H', ⟨{ st with scopes := sc }, 2⟩)

/-- `site` ∈ joins | addvar | group, on the argument `mkArg kinds nsc`, with the CURRENT tree's discipline -/
def tieRun (site : String) (kinds : List Nat) (nsc : Nat) (qc : Option Nat) : List String × Nat :=
  let (H, a) := mkArg kinds nsc
  let u : UseOut :=
    if site == "joins" then joinsUseBuilt joinsCfg genAll 16 H a qc
    else if site == "addvar" then subqueryUse addVarCfg genAll 16 H a
    else groupUse groupCfg genAll 16 H a
  (argChanged H u.heap a u.arg, u.heap.writes - H.writes)

end Gorm.ArgUse
