/-
  C01 (round 3) — the API ENTRY POINTS that take `(text, args...)`: which expression each of them hands to the
  statement.  The point of this file is the dispatch of `(*DB).Table`, the one entry whose treatment of the
  arguments depends on the TEXT (blank / backtick → "table expression", kept verbatim with its arguments; otherwise
  a table NAME that is quoted): an expression with arguments must be kept whatever its spelling
  (`json_each(?)`, `generate_series(?,?)`, `(?)` + sub-query handle have neither blank nor backtick).

  Transcribed from
    chainable_api.go   (*DB).Table
    statement.go       Statement.QuoteTo `case clause.Table:` with `v.Name == clause.CurrentTable` →
                       `stmt.TableExpr.Build(stmt)` (what FROM / UPDATE / DELETE FROM / INSERT INTO write)
  Tied to the real code by the harness suite "api-table" (harness/c01_corr3.go) and by the regenerated path table
  `Gen.argPaths` (extract/gen_c01_api.go; theorems `C01_table_dispatch_source`, `C01_api_args_forwarded`).
  Core Lean only.
-/
import GormModel.Model.BindJoin
import GormModel.Model.BindSpec
namespace Gorm.Bind

/-- the four branches of `(*DB).Table` -/
inductive TableForm where
  | expr        -- `TableExpr = &clause.Expr{SQL: name, Vars: args}` (alias extracted by `tableRegexp`: not modelled)
  | qualified   -- `len(strings.Split(name, ".")) == 2`: `TableExpr = &clause.Expr{SQL: Quote(name)}`, Table = part after the dot
  | plain       -- `name != ""`: `TableExpr = &clause.Expr{SQL: Quote(name)}`, Table = name
  | empty       -- `TableExpr = nil`, Table = ""
deriving Repr, DecidableEq

/-- chainable_api.go `(*DB).Table`, the if / else-if chain:
    ```
    if strings.Contains(name, " ") || strings.Contains(name, "`") || len(args) > 0 { … }
    else if tables := strings.Split(name, "."); len(tables) == 2 { … }
    else if name != "" { … } else { … }
    ``` -/
def tableForm (name : List Char) (nargs : Nat) : TableForm :=
  if name.contains ' ' || name.contains '`' || decide (nargs > 0) then .expr
  else if countChar '.' name + 1 == 2 then .qualified
  else if !name.isEmpty then .plain
  else .empty

/-! #### the alias forms: `Statement.Table` after `Table(name, args...)`

    `var tableRegexp = regexp.MustCompile("(?i)(?:.+? AS (\w+)\s*(?:$|,)|^\w+\s+(\w+)$)")`, consulted in the
    expression branch only.  Go's regexp is leftmost-first; for a text WITHOUT a newline (`.` does not match `\n`) the
    leftmost match starts at 0 and is: the smallest position e ≥ 1 at which ` AS ` (any case) + a maximal word + optional
    white space + (end of text | `,`) follows — group 1; otherwise the whole text as `word white-space word` — group 2;
    otherwise no match (a start position > 0 offers only a subset of the positions e).  Texts with a newline, and the
    non-ASCII characters that fold to `s` under `(?i)` (U+017F), are outside the model (`none`). -/

def isWordC (c : Char) : Bool := c.isAlphanum || c == '_'
def isSpaceC (c : Char) : Bool := c == ' ' || c == '\t' || c == '\n' || c == '\x0c' || c == '\r'

/-- ` AS (\w+)\s*(?:$|,)` at the head of `rest` -/
def asTail (rest : List Char) : Option (List Char) :=
  match rest with
  | ' ' :: a :: s :: ' ' :: r =>
    if (a == 'a' || a == 'A') && (s == 's' || s == 'S') then
      let w := r.takeWhile isWordC
      let r2 := (r.dropWhile isWordC).dropWhile isSpaceC
      if !w.isEmpty && (r2.isEmpty || r2.head? == some ',') then some w else none
    else none
  | _ => none

def scanAs : List Char → Option (List Char)
  | [] => none
  | c :: r => match asTail (c :: r) with
    | some w => some w
    | none => scanAs r

/-- `^\w+\s+(\w+)$` -/
def twoWords (s : List Char) : Option (List Char) :=
  let r1 := s.dropWhile isWordC
  let r2 := r1.dropWhile isSpaceC
  let w2 := r2.takeWhile isWordC
  if !(s.takeWhile isWordC).isEmpty && !(r1.takeWhile isSpaceC).isEmpty && !w2.isEmpty && (r2.dropWhile isWordC).isEmpty
  then some w2 else none

/-- the alias `tableRegexp` extracts: `some (some a)` alias a, `some none` no match, `none` outside the model -/
def tableAlias (name : List Char) : Option (Option (List Char)) :=
  if name.contains '\n' || name.contains 'ſ' then none
  else match name with
    | [] => some none
    | _ :: r => match scanAs r with
      | some w => some (some w)
      | none => some (twoWords name)

/-- `Statement.Table` after `Table(name, args...)` on a statement whose Table was `prev` -/
def tableTarget (name : List Char) (nargs : Nat) (prev : List Char) : Option (List Char) :=
  match tableForm name nargs with
  | .expr => (tableAlias name).map fun a => a.getD prev
  | .qualified => some ((name.dropWhile (· != '.')).drop 1)     -- strings.Split(name, ".")[1]
  | .plain => some name
  | .empty => some []

section
variable {β : Type}

/-- `tx.Statement.TableExpr` after `Table(name, args...)` as a value of the model: the template expression with ALL
    arguments, or the identifier the dialector quotes (`Quote(name)`: opaque `Seg.quoted`, binds nothing) -/
def tableDispatch (name : List Char) (args : List (Val β)) : Option (Val β) :=
  match tableForm name args.length with
  | .expr => some (.expr name args false)
  | .qualified => some (.table name [] false)
  | .plain => some (.table name [] false)
  | .empty => none

/-- the arguments a template expression carries -/
def Val.tmplArgs : Val β → Option (List (Val β))
  | .expr _ a _ => some a
  | .nexpr _ a => some a
  | _ => none

/-- the values `Table(name, args...)` contributes to `Statement.Vars` when the statement is built -/
def tableBinds (d : Dialect) (name : List Char) (args : List (Val β)) : List (Val β) :=
  match tableDispatch name args with
  | some v => flatten d v
  | none => []

end
end Gorm.Bind
