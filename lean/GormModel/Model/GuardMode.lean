/-
  C09 (round 4) — the guard in every MODE.  callbacks/helper.go checkMissingWhereConditions runs its test under the
  conjuncts of ONE outer `if` (regenerated: Gen.guardOuterConds, extract/gen_c09_mode.go); the property demands the refusal
  in every configuration, so nothing but AllowGlobalUpdate (and an already pending error) may switch it off.
-/
import GormModel.Model.Where
import GormModel.Gen.GuardModeFacts
namespace Gorm

/-- how the handle the write runs on was obtained -/
structure Mode where
  dryRun : Bool          -- Session{DryRun} / Config.DryRun / ToSQL
  prepareStmt : Bool     -- Session{PrepareStmt} / Config.PrepareStmt
  skipHooks : Bool       -- Session{SkipHooks}
  skipDefaultTx : Bool   -- SkipDefaultTransaction (session or config)
  inTx : Bool            -- inside Begin / Transaction / a nested block
deriving DecidableEq, Repr

/-- one conjunct of the guard's outer condition; an UNKNOWN conjunct is taken to switch the guard off (conservative) -/
def condHolds (m : Mode) (allowGlobal hasErr : Bool) (c : String) : Bool :=
  if c == "!db.AllowGlobalUpdate" then !allowGlobal
  else if c == "db.Error == nil" then !hasErr
  else if c == "!db.DryRun" then !m.dryRun
  else if c == "db.DryRun" then m.dryRun
  else if c == "!db.PrepareStmt" then !m.prepareStmt
  else if c == "db.PrepareStmt" then m.prepareStmt
  else if c == "!db.SkipHooks" || c == "!db.Statement.SkipHooks" then !m.skipHooks
  else if c == "db.SkipHooks" || c == "db.Statement.SkipHooks" then m.skipHooks
  else if c == "!db.SkipDefaultTransaction" then !m.skipDefaultTx
  else if c == "db.SkipDefaultTransaction" then m.skipDefaultTx
  else false

/-- does the guard's test run at all? -/
def guardRuns (conds : List String) (m : Mode) (allowGlobal hasErr : Bool) : Bool :=
  conds.all (condHolds m allowGlobal hasErr)

/-- the decision for write finisher `k` in mode `m`: the guard runs AND finds no condition -/
def rejectedIn (conds : List String) (m : Mode) (ce : Bool) (cfg : StmtCfg) (s : StmtState) (k : FinKind)
    (valueKey : List Atom) (same : Bool) : Bool :=
  guardRuns conds m cfg.allowGlobal false && finRejected ce { cfg with allowGlobal := false } s k valueKey same

end Gorm
