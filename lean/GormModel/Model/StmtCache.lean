/-
  prepare_stmt.go as a labelled transition system (C14).

  Global state = what the Go code shares between goroutines:
    * map objects (`map[string]*Stmt`; a fresh one is allocated by `NewPreparedStmtDB` and by every `Reset`),
    * views = `PreparedStmtDB` structs.  gorm.go `Session(&Session{PrepareStmt:true})` builds a NEW struct
      `&PreparedStmtDB{ConnPool:…, Mux: preparedStmt.Mux, Stmts: preparedStmt.Stmts}` — it shares the mutex and
      the *current map object*, but `Reset`/`Close` assign `db.Stmts = make(..)` / `nil` to ONE struct only,
    * entries = `*Stmt` cells {Transaction, prepared (channel closed?), prepareErr, Stmt (driver handle)},
    * handles = `*sql.Stmt` values returned by `ConnPool.PrepareContext` with their logical `closed` flag,
    * asynchronous closers (`go func(s *Stmt){ <-s.prepared; if s.Stmt != nil { s.Close() } }` of Reset/Close are
      marks on entries; `go stmt.Close()` of the ErrBadConn branch is a mark on the handle).
  Threads run one operation each, decomposed into exactly the atomic sections delimited by `Mux` and by
  the blocking points (driver call pending, channel receive); see `tstep`.  `Gen.LockSections` (regenerated)
  says that no driver call / channel operation sits inside a Lock..Unlock section, which is what makes each
  section one atomic step here.
  Heaps are functions `Nat → _` with allocation counters (total, executable, simp-friendly).

  The `delete(db.Stmts, query)` steps are keyed on REGENERATED facts (`Gen.deleteSites`, extract/main.go
  genStmtCacheFacts): `Cfg.guardFail` / `Cfg.guardEvict` say whether the delete of prepare's error branch / of the
  four ErrBadConn branches is executed only when the entry cached under the key is still the caller's own
  (`cur == &cacheStmt` / `cur.Stmt == stmt.Stmt`).  `genCfg` is what the current source tree does.
-/
import GormModel.Gen.StmtCacheFacts
import GormModel.Gen.StmtCacheTextFacts
namespace Gorm.SC

/-- which `delete(db.Stmts, query)` sites compare the cached entry with the caller's own before deleting -/
structure Cfg where
  guardFail : Bool := false    -- prepare_stmt.go prepare(): `if cur, ok := db.Stmts[query]; ok && cur == &cacheStmt`
  guardEvict : Bool := false   -- the four ErrBadConn branches: `if cur, ok := db.Stmts[query]; ok && cur.Stmt == stmt.Stmt`
deriving DecidableEq, Repr

/-- the configuration of the CURRENT source tree (regenerated on every run): a site counts as guarded only if the
    comparison is with what identifies the caller's own entry / statement in that function -/
def genCfg : Cfg :=
  let guarded (kind : String) (d : Gen.DeleteSite) : Bool := d.guard == kind && d.guardWith == d.own && d.own != ""
  let inPrepare (d : Gen.DeleteSite) : Bool := d.fn == "PreparedStmtDB.prepare"
  { guardFail := (Gen.deleteSites.filter inPrepare).all (guarded "entry") && (Gen.deleteSites.any inPrepare),
    guardEvict := (Gen.deleteSites.filter (fun d => !inPrepare d)).all (guarded "handle") &&
                  (Gen.deleteSites.any fun d => !inPrepare d) }

abbrev Text := Nat

/-- answer of the driver when a pending call returns: ok, some error, `driver.ErrBadConn` -/
inductive Ans | ok | err | bad
deriving DecidableEq, Repr

inductive Op
  | use (view : Nat) (q : Text) (tx : Bool)   -- Exec/QueryContext on a PreparedStmtDB (tx=false) or PreparedStmtTX (tx=true)
  | reset (view : Nat)                        -- PreparedStmtDB.Reset
  | close (view : Nat)                        -- PreparedStmtDB.Close
deriving DecidableEq, Repr

/-- result class of a finished operation -/
inductive Res
  | rows        -- the driver executed the statement (same as the uncached path)
  | prepErr     -- PrepareContext failed (own call or the call this goroutine waited for)
  | useErr      -- the driver failed the execution with an ordinary error
  | badConn     -- driver.ErrBadConn from the execution
  | invalidDB   -- ErrInvalidDB (`db.Stmts == nil`)
  | stmtClosed  -- "sql: statement is closed": the handle was closed under the user's feet  (NOT transparent)
  | nilStmt     -- nil *sql.Stmt dereference (proved unreachable)
  | done        -- Reset/Close returned
deriving DecidableEq, Repr

/-- program counter = the next atomic section of `prepare` + `ExecContext/QueryContext` -/
inductive Pc
  | init                      -- before `RLock; lookup; RUnlock`                    (prepare_stmt.go:79-90)
  | missed                    -- before `Lock; double check; publish; Unlock`       (:92-113)
  | waiting (e : Nat)         -- blocked in `<-stmt.prepared`                       (:83 / :97)
  | preparing (e : Nat)       -- `conn.PrepareContext` pending in the driver        (:123)
  | storing (e h : Nat)       -- before `Lock; cacheStmt.Stmt = stmt; Unlock`       (:132-134)
  | failing (e : Nat)         -- prepareErr set; before `Lock; delete; Unlock`      (:125-128)
  | closingOk (e h : Nat)     -- before the deferred `close(cacheStmt.prepared)`    (:116)
  | closingErr (e : Nat)      -- same on the error path
  | ready (e h : Nat)         -- holds a copy of the Stmt; before `stmt.ExecContext` (:163)
  | using (e h : Nat)         -- statement execution pending in the driver
  | evicting (e h : Nat)      -- got ErrBadConn; before `Lock; go stmt.Close(); delete; Unlock` (:164-169)
  | fin (r : Res)
deriving DecidableEq, Repr

structure Entry where
  text : Text := 0            -- ghost: key it was published under
  mapId : Nat := 0            -- ghost: map object it was published into
  owner : Nat := 0            -- ghost: goroutine that published it (and runs PrepareContext for it)
  view : Nat := 0             -- ghost: struct it was published through
  tx : Bool := false          -- Stmt.Transaction
  prepared : Bool := false    -- channel `prepared` closed
  err : Bool := false         -- prepareErr != nil
  handle : Option Nat := none -- Stmt.Stmt
  closeReq : Bool := false    -- a Reset/Close closer goroutine exists for this entry
  closeDone : Bool := false   -- … and has run
deriving DecidableEq, Repr

structure Handle where
  tx : Bool := false          -- prepared on a *sql.Tx (database/sql closes it when the Tx ends)
  thr : Nat := 0              -- ghost: goroutine that prepared it
  entry : Nat := 0            -- ghost: entry it was prepared for
  closed : Bool := false      -- sql.Stmt.closed
  closeReq : Bool := false    -- `go stmt.Close()` of an eviction is pending
deriving DecidableEq, Repr

structure Thread where
  op : Op := .reset 0
  pc : Pc := .init
  ent : Option Nat := none    -- ghost: the entry this operation resolved to (published itself or found and waited for)
deriving DecidableEq, Repr

/-- why an entry left its map: deleted by the goroutine that prepared/used it, deleted by ANOTHER entry's
    goroutine (late delete after the key was re-published), or a Transaction entry overwritten by a
    non-transaction request (prepare_stmt.go:94 fails on `!stmt.Transaction || isTransaction`, :112 overwrites) -/
inductive Cause | own | foreign | overwrite
deriving DecidableEq, Repr

/-- ghost log -/
inductive Ev
  | prep (m : Nat) (q : Text) (tx : Bool) (e : Nat)        -- entry `e` published in map `m`, PrepareContext issued
  | removed (m : Nat) (q : Text) (e : Nat) (c : Cause)     -- `e` deleted/overwritten in map `m`
deriving DecidableEq, Repr

structure St where
  nT : Nat
  nV : Nat := 1             -- number of PreparedStmtDB structs sharing the cache (1 + session-level copies)
  nE : Nat := 0
  nH : Nat := 0
  nM : Nat := 1
  threads : Nat → Thread
  entries : Nat → Entry := fun _ => {}
  handles : Nat → Handle := fun _ => {}
  maps : Nat → Text → Option Nat := fun _ _ => none
  views : Nat → Option Nat := fun _ => some 0      -- every view starts on map object 0
  log : List Ev := []
  cfg : Cfg := {}

def upd {α : Type} (f : Nat → α) (i : Nat) (x : α) : Nat → α := fun j => if j = i then x else f j

@[simp] theorem upd_same {α : Type} (f : Nat → α) (i : Nat) (x : α) : upd f i x i = x := by simp [upd]
@[simp] theorem upd_other {α : Type} (f : Nat → α) (i j : Nat) (x : α) (h : j ≠ i) : upd f i x j = f j := by
  simp [upd, h]
theorem upd_apply {α : Type} (f : Nat → α) (i j : Nat) (x : α) : upd f i x j = if j = i then x else f j := rfl

def init (ops : List Op) (nV : Nat := 1) (cfg : Cfg := {}) : St :=
  { nT := ops.length, nV := nV, cfg := cfg, threads := fun t => { op := ops.getD t (.reset 0), pc := .init } }

def setPc (s : St) (t : Nat) (pc : Pc) : St :=
  { s with threads := upd s.threads t { s.threads t with pc := pc } }

/-- ghost: record the entry this operation resolved to -/
def setEnt (s : St) (t e : Nat) : St :=
  { s with threads := upd s.threads t { s.threads t with ent := some e } }

/-- the goroutine found entry `e` under its key and goes on to wait for it (ghost `ent` recorded) -/
def setWait (s : St) (t e : Nat) : St := setPc (setEnt s t e) t (.waiting e)

/-- the lookup condition of prepare_stmt.go:80/:94  `ok && (!stmt.Transaction || isTransaction)` -/
def usable (s : St) (e : Nat) (tx : Bool) : Bool := !(s.entries e).tx || tx

/-- `delete(db.Stmts, query)` through view `v` (a no-op on a nil map / a missing key) -/
def delAt (s : St) (v : Nat) (q : Text) (own : Nat) : St :=
  match s.views v with
  | none => s
  | some m =>
    match s.maps m q with
    | none => s
    | some e' => { s with maps := upd s.maps m (upd (s.maps m) q none),
                          log := .removed m q e' (if e' = own then .own else .foreign) :: s.log }

/-- the entry cached under `q` in the map the struct `v` points to now -/
def cachedAt (s : St) (v : Nat) (q : Text) : Option Nat :=
  match s.views v with
  | none => none
  | some m => s.maps m q

/-- prepare()'s error branch (:125-128): unguarded `delete(db.Stmts, query)`, or — `cfg.guardFail` — only if the key still
    holds the entry this goroutine published (`cur == &cacheStmt`) -/
def delFail (s : St) (v : Nat) (q : Text) (e : Nat) : St :=
  if s.cfg.guardFail && cachedAt s v q != some e then s else delAt s v q e

/-- ErrBadConn branch: unguarded delete, or — `cfg.guardEvict` — only if the cached entry holds the statement that was
    executed (`cur.Stmt == stmt.Stmt`) -/
def holdsHandle (s : St) (v : Nat) (q : Text) (h : Nat) : Bool :=
  match cachedAt s v q with
  | some e' => (s.entries e').handle == some h
  | none => false

def delEvict (s : St) (v : Nat) (q : Text) (e h : Nat) : St :=
  if s.cfg.guardEvict && !holdsHandle s v q h then s else delAt s v q e

/-- an operation returns; a transaction ends with it and database/sql closes the statements prepared on it -/
def finish (s : St) (t : Nat) (r : Res) : St :=
  let s' := setPc s t (.fin r)
  match (s.threads t).op with
  | .use _ _ true =>
    { s' with handles := fun h => if (s'.handles h).tx && (s'.handles h).thr == t
                                  then { s'.handles h with closed := true } else s'.handles h }
  | _ => s'

/-- `for _, stmt := range db.Stmts { go func(s){ <-s.prepared; if s.Stmt != nil { s.Close() } }(stmt) }` -/
def markAll (s : St) (m : Nat) : St :=
  { s with entries := fun e =>
      if e < s.nE ∧ s.maps m (s.entries e).text = some e
      then { s.entries e with closeReq := true, closeDone := false } else s.entries e }

/-- closers for whatever map the struct `v` points to now (ranging over a nil map spawns nothing) -/
def markView (s : St) (v : Nat) : St :=
  match s.views v with
  | some m => markAll s m
  | none => s

/-- Reset: closers for the entries of the current map; `sdb.Stmts = make(..)` on THIS struct only (:62-76) -/
def stepReset (s : St) (t v : Nat) : Pc → Option St
  | .init =>
    let s1 := markView s v
    some (finish { s1 with views := upd s1.views v (some s1.nM), nM := s1.nM + 1 } t .done)
  | _ => none

/-- Close: closers for the entries of the current map; `db.Stmts = nil` on THIS struct only (:45-60) -/
def stepClose (s : St) (t v : Nat) : Pc → Option St
  | .init =>
    let s1 := markView s v
    some (finish { s1 with views := upd s1.views v none } t .done)
  | _ => none

/-- publish the in-progress entry (:111-113); a Transaction entry found by a non-transaction request is overwritten -/
def publish (s : St) (t v m : Nat) (q : Text) (tx : Bool) : St :=
  let e := s.nE
  let s1 : St := { s with nE := e + 1,
                          entries := upd s.entries e { text := q, mapId := m, owner := t, view := v, tx := tx },
                          maps := upd s.maps m (upd (s.maps m) q (some e)),
                          log := (match s.maps m q with
                                  | some e' => [.prep m q tx e, .removed m q e' .overwrite]
                                  | none => [.prep m q tx e]) ++ s.log }
  setPc (setEnt s1 t e) t (.preparing e)

/-- next atomic section of an Exec/Query through view `v` for text `q`; `a` is consumed only where a driver
    call returns.  `none` = blocked / finished. -/
def stepUse (s : St) (t : Nat) (a : Ans) (v : Nat) (q : Text) (tx : Bool) : Pc → Option St
  | .init =>
    -- RLock; lookup; RUnlock   (indexing a nil map misses)
    match s.views v with
    | none => some (setPc s t .missed)
    | some m =>
      match s.maps m q with
      | some e => if usable s e tx then some (setWait s t e) else some (setPc s t .missed)
      | none => some (setPc s t .missed)
  | .missed =>
    -- Lock; double check; nil-map check; publish the in-progress entry; Unlock
    match s.views v with
    | none => some (finish s t .invalidDB)
    | some m =>
      match s.maps m q with
      | some e => if usable s e tx then some (setWait s t e) else some (publish s t v m q tx)
      | none => some (publish s t v m q tx)
  | .waiting e =>
    -- <-stmt.prepared ; if prepareErr != nil return it ; return *stmt
    if (s.entries e).prepared then
      if (s.entries e).err then some (finish s t .prepErr)
      else match (s.entries e).handle with
        | some h => some (setPc s t (.ready e h))
        | none => some (finish s t .nilStmt)
    else none
  | .preparing e =>
    -- conn.PrepareContext returns
    match a with
    | .ok =>
      let h := s.nH
      some (setPc { s with nH := h + 1, handles := upd s.handles h { tx := tx, thr := t, entry := e } } t (.storing e h))
    | _ =>
      some (setPc { s with entries := upd s.entries e { s.entries e with err := true } } t (.failing e))
  | .storing e h =>
    some (setPc { s with entries := upd s.entries e { s.entries e with handle := some h } } t (.closingOk e h))
  | .failing e => some (setPc (delFail s v q e) t (.closingErr e))
  | .closingOk e h =>
    some (setPc { s with entries := upd s.entries e { s.entries e with prepared := true } } t (.ready e h))
  | .closingErr e =>
    some (finish { s with entries := upd s.entries e { s.entries e with prepared := true } } t .prepErr)
  | .ready e h =>
    -- stmt.ExecContext: a closed *sql.Stmt answers "sql: statement is closed"; Tx.StmtContext silently
    -- re-prepares a closed / foreign-transaction statement (database/sql), so the tx path never sees it
    if !tx && (s.handles h).closed then some (finish s t .stmtClosed)
    else some (setPc s t (.using e h))
  | .using e h =>
    match a with
    | .ok => some (finish s t .rows)
    | .err => some (finish s t .useErr)
    | .bad => some (setPc s t (.evicting e h))
  | .evicting e h =>
    -- Lock; go stmt.Close(); delete(db.Stmts, query) [guarded: only if the cached entry holds `h`]; Unlock
    some (finish (delEvict { s with handles := upd s.handles h { s.handles h with closeReq := true } } v q e h) t .badConn)
  | .fin _ => none

def tstep (s : St) (t : Nat) (a : Ans) : Option St :=
  match (s.threads t).op with
  | .reset v => stepReset s t v (s.threads t).pc
  | .close v => stepClose s t v (s.threads t).pc
  | .use v q tx => stepUse s t a v q tx (s.threads t).pc

inductive Act
  | thr (t : Nat) (a : Ans)   -- thread `t` executes its next atomic section
  | closeE (e : Nat)          -- the closer goroutine of entry `e` (Reset/Close) gets past `<-s.prepared` and closes
  | closeH (h : Nat)          -- the `go stmt.Close()` of an eviction runs
deriving DecidableEq, Repr

def act (s : St) : Act → Option St
  | .thr t a => if t < s.nT then tstep s t a else none
  | .closeE e =>
    let en := s.entries e
    if e < s.nE ∧ en.closeReq ∧ !en.closeDone ∧ en.prepared then
      let s1 := { s with entries := upd s.entries e { en with closeDone := true } }
      match en.handle with
      | some h => some { s1 with handles := upd s1.handles h { s1.handles h with closed := true } }
      | none => some s1
    else none
  | .closeH h =>
    if h < s.nH ∧ (s.handles h).closeReq ∧ !(s.handles h).closed then
      some { s with handles := upd s.handles h { s.handles h with closed := true } }
    else none

/-- a schedule is an arbitrary list of choices; a choice that is not enabled is skipped -/
def run (s : St) (sched : List Act) : St := sched.foldl (fun s a => (act s a).getD s) s

def isFin (s : St) (t : Nat) : Bool := match (s.threads t).pc with | .fin _ => true | _ => false

def result (s : St) (t : Nat) : Option Res := match (s.threads t).pc with | .fin r => some r | _ => none

/-- all operations returned and no closer goroutine is left -/
def quiescent (s : St) : Prop :=
  (∀ t, t < s.nT → isFin s t = true) ∧
  (∀ e, e < s.nE → (s.entries e).closeReq = true → (s.entries e).closeDone = true) ∧
  (∀ h, h < s.nH → (s.handles h).closeReq = true → (s.handles h).closed = true)

/-- number of `ConnPool.PrepareContext` calls issued for text `q` in map object (= cache generation) `m` -/
def prepCount (s : St) (m : Nat) (q : Text) : Nat :=
  s.log.countP (fun ev => match ev with | .prep m' q' _ _ => m' == m && q' == q | _ => false)

def removedCount (s : St) (m : Nat) (q : Text) : Nat :=
  s.log.countP (fun ev => match ev with | .removed m' q' _ _ => m' == m && q' == q | _ => false)

/-- deletions that hit an entry other than the deleting goroutine's own (late delete after the key was re-published) -/
def foreignRemovals (s : St) : Nat :=
  s.log.countP (fun ev => match ev with | .removed _ _ _ .foreign => true | _ => false)

/-- handle `h` is still reachable through the cache: its entry sits under its key in the map object some struct points to
    (so a later Reset/Close of that struct closes it) -/
def cachedLive (s : St) (h : Nat) : Bool :=
  let e := (s.handles h).entry
  (List.range s.nV).any fun v =>
    match s.views v with
    | some m => s.maps m (s.entries e).text == some e
    | none => false

/-- leak freedom: every statement prepared on the pool (not on a transaction) is closed or still cached -/
def NoLeak (s : St) : Prop :=
  ∀ h, h < s.nH → (s.handles h).tx = false → (s.handles h).closed = false → cachedLive s h = true

/-- Bool version for concrete witnesses -/
def leakedB (s : St) (h : Nat) : Bool :=
  decide (h < s.nH) && !(s.handles h).tx && !(s.handles h).closed && !cachedLive s h

def quiescentB (s : St) : Bool :=
  (List.range s.nT).all (fun t => isFin s t) &&
  (List.range s.nE).all (fun e => !(s.entries e).closeReq || (s.entries e).closeDone) &&
  (List.range s.nH).all (fun h => !(s.handles h).closeReq || (s.handles h).closed)

/-! ### QueryRowContext (DB.Row) — prepare_stmt.go :199-205 (PreparedStmtDB), :274-280 (PreparedStmtTX)

    stmt, err := db.prepare(ctx, …, query)
    if err == nil { return stmt.QueryRowContext(ctx, args...) }
    return &sql.Row{}

`*sql.Row` carries its error inside (`Row.err`, returned by Scan).  The error path returns an EMPTY row: no error inside and
nil rows, so the caller's `Scan` dereferences nil — the error of `prepare` (ErrInvalidDB of a closed cache, a failed
PrepareContext) is dropped.  `rowDropsErr` is regenerated from the source (`Gen.rowErrPaths`). -/

/-- what `Row()` hands to the caller -/
inductive RowOut
  | row                -- a row of the executed statement (same as the uncached path)
  | errRow (r : Res)   -- a row that answers Scan with the error of `prepare`
  | emptyRow           -- `&sql.Row{}`: Scan panics (nil pointer dereference)
deriving DecidableEq, Repr

/-- `prep` = how `prepare` ended: `none` = a usable statement, `some r` = the error class it returned -/
def queryRow (dropsErr : Bool) (prep : Option Res) : RowOut :=
  match prep with
  | none => .row
  | some r => if dropsErr then .emptyRow else .errRow r

/-- the CURRENT source tree: does some QueryRowContext answer a failed `prepare` with the empty row literal? -/
def rowDropsErr : Bool := Gen.rowErrPaths.any fun p => p.2 == "&sql.Row{}"

end Gorm.SC
