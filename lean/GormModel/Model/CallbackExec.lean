/-
  Model of the loop of `processor.Execute` (callbacks.go) under RE-ENTRANCE: a callback that is running may call
  Register / Before(..).Register / Replace / Remove on the pipeline that is executing (or on another pipeline of
  the same *gorm.DB).  Every such call appends a record and runs `compile`, which installs a NEW slice in `p.fns`
  (`p.fns, err = sortCallbacks(p.callbacks)`; `sortCallbacks` builds its result from nil).

      for _, f := range p.fns { f(db) }

  Go evaluates the range expression once: the run in flight walks the slice VALUE the field held when the loop
  started -- a SNAPSHOT -- whatever the callbacks do to the field meanwhile.  `execute` below is that loop: a fold
  over the snapshot.  `executeIndexed` is NOT the code: it is the loop `for i := 0; i < len(p.fns); i++ { p.fns[i](db) }`
  that re-reads the field on every step; it is here so that the theorems can say what the difference is
  (`C17_indexed_loop_counterexample`, `C17_indexed_loop_same_without_reentrance`).  Which loop the tree under check
  has is a REGENERATED fact (extract/gen_c17_exec.go -> Gen/CallbackExecFacts.lean, `Gen.executeLoop`).
-/
import GormModel.Model.CallbackBuilder
import GormModel.Gen.CallbackExecFacts
namespace Gorm.Reent

/-- one registration call made from INSIDE a running callback: the record handed to `compile`, on the pipeline
    that is running (`other = false`) or on another pipeline of the same DB (`other = true`) -/
structure Eff where
  other : Bool := false
  cb    : Cb
deriving Repr, DecidableEq

/-- what every handler does when it fires (handlers are identified by their id): the registration calls it makes, in order -/
abbrev Script := Nat → List Eff

/-- the `*gorm.DB` as far as a run is concerned: the pipeline that executes and another pipeline of the same DB -/
structure World where
  run : Proc
  oth : Proc := {}
deriving Repr

/-- one registration call: `append` + `compile()` on the addressed processor only -/
def World.perform (r : CbRepairs) (w : World) (e : Eff) : World × Option SortErr :=
  if e.other then
    let res := w.oth.applyCbR r e.cb
    ({ w with oth := res.1 }, res.2)
  else
    let res := w.run.applyCbR r e.cb
    ({ w with run := res.1 }, res.2)

/-- the calls of one handler, in order; collects what each call returned -/
def World.performAll (r : CbRepairs) : World → List Eff → World × List (Option SortErr)
  | w, [] => (w, [])
  | w, e :: es =>
    let res := w.perform r e
    let rest := World.performAll r res.1 es
    (rest.1, res.2 :: rest.2)

/-- state of a run in flight -/
structure ExecSt where
  w     : World
  trace : List Nat := []                 -- handlers fired so far, in order
  errs  : List (Option SortErr) := []    -- what the registration calls made from inside returned
deriving Repr

/-- `f(db)` for the handler with id `h` -/
def ExecSt.fire (r : CbRepairs) (script : Script) (st : ExecSt) (h : Nat) : ExecSt :=
  let res := st.w.performAll r (script h)
  { w := res.1, trace := st.trace ++ [h], errs := st.errs ++ res.2 }

/-- `for _, f := range <snapshot> { f(db) }` -/
def execute (r : CbRepairs) (script : Script) (snapshot : List Nat) (st : ExecSt) : ExecSt :=
  snapshot.foldl (ExecSt.fire r script) st

/-- `p.Execute(db)`, the loop over the compiled chain: the range expression `p.fns` is evaluated ONCE -/
def World.execute (r : CbRepairs) (script : Script) (w : World) : ExecSt :=
  Reent.execute r script w.run.fns { w := w }

/-- NOT the code of the pinned tree: `for i := 0; i < len(p.fns); i++ { p.fns[i](db) }` (the field is read again on
    every step).  `fuel` bounds the number of steps: a callback that registers a new callback behind itself on
    every firing makes this loop run forever. -/
def executeIndexed (r : CbRepairs) (script : Script) : Nat → Nat → ExecSt → ExecSt
  | 0, _, st => st
  | fuel+1, i, st =>
    match st.w.run.fns[i]? with
    | none => st
    | some h => executeIndexed r script fuel (i+1) (st.fire r script h)

def World.executeIndexed (r : CbRepairs) (script : Script) (fuel : Nat) (w : World) : ExecSt :=
  Reent.executeIndexed r script fuel 0 { w := w }

/-- all registration calls a run makes: those of the handlers of the snapshot, in firing order -/
def effectsOf (script : Script) (snapshot : List Nat) : List Eff := snapshot.flatMap script

/-- the records addressed to the running pipeline / to the other one -/
def Eff.onRun (es : List Eff) : List Cb := (es.filter (fun e => !e.other)).map (·.cb)
def Eff.onOther (es : List Eff) : List Cb := (es.filter (fun e => e.other)).map (·.cb)

/-- several runs one after the other (each with its own script: handlers may behave differently per run, e.g. a
    run-once callback); collects the trace of every run -/
def World.executeMany (r : CbRepairs) : World → List Script → World × List (List Nat)
  | w, [] => (w, [])
  | w, s :: ss =>
    let st := w.execute r s
    let rest := World.executeMany r st.w ss
    (rest.1, st.trace :: rest.2)

/-- the loop of the tree under check is the snapshot loop (regenerated) -/
def treeExecuteIsSnapshot : Bool := Gen.executeLoop == "range-snapshot"

end Gorm.Reent
