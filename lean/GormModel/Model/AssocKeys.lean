/-
  Model.AssocKeys — record identity in association mode over TYPED key tuples (Model.Identity `KeyVal`, `IdRow`):
    schema/utils.go GetIdentityFieldValuesMapFromValues   (the IN list of Delete, the NOT IN list of many2many Replace)
    association.go Delete, cleanUpDeletedRelations        (in-memory clean-up by key string)
  and the reference they are judged against: exact equality of key TUPLES.
-/
import GormModel.Model.Identity
namespace Gorm.Assoc

/-- one variadic argument -/
inductive ArgV
  | one (r : IdRow)              -- `*T` / `T`
  | many (rows : List IdRow)     -- `[]T` / `[]*T` / `*[]T`
deriving Repr

def ArgV.rows : ArgV → List IdRow
  | .one r => [r]
  | .many rs => rs

/-- `GetIdentityFieldValuesMap(reflect.Indirect(reflect.ValueOf(v)), fields)` -/
def identityArg : ArgV → IdMap
  | .one r => identityStruct r
  | .many rs => identitySlice rs

/-- `for k, v := range rm { resultsMap[k] = append(resultsMap[k], v...) }` -/
def mergeGroups (acc : List (List Char × List Nat)) : List (List Char × List Nat) → List (List Char × List Nat)
  | [] => acc
  | (k, els) :: rest =>
    mergeGroups (if acc.any (fun g => g.1 == k) then acc.map (fun g => if g.1 == k then (g.1, g.2 ++ els) else g)
                 else acc ++ [(k, els)]) rest

/-- schema/utils.go GetIdentityFieldValuesMapFromValues: the per-argument maps merged by key string, the per-argument value
    lists CONCATENATED (values are de-duplicated inside one argument only) -/
def identityFromValues (args : List ArgV) : IdMap :=
  args.foldl (fun acc a => let m := identityArg a; ⟨mergeGroups acc.groups m.groups, acc.values ++ m.values⟩) IdMap.empty

/-- the key tuples a call NAMES: every record of every argument that has a key (not all components zero) -/
def namedTuples (args : List ArgV) : List (List KeyVal) :=
  (args.flatMap ArgV.rows).filterMap (fun r => if allZero r.key then none else some r.vals)

/-- association.go cleanUpDeletedRelations (slice field): `if _, ok := relValuesMap[utils.ToStringKey(primaryValues...)]; !ok { keep }` -/
def cleanSlice (field : List IdRow) (args : List ArgV) : List IdRow :=
  field.filter (fun e => !(identityFromValues args).hasKey e.keyStr)

/-- reference: keep the records whose key TUPLE is not named -/
def cleanExact (field : List IdRow) (args : List ArgV) : List IdRow :=
  field.filter (fun e => !(namedTuples args).contains e.vals)

/-- string keys (the `case string:` of ToStringKey prints the value verbatim) without the separator, one arity -/
def StrKey (n : Nat) (r : IdRow) : Prop :=
  r.key.length = n ∧ ∀ c ∈ r.key, ∃ s, c.val = .str s ∧ '_' ∉ s

end Gorm.Assoc
