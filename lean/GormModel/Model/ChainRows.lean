/-
  C10 — which rows a write with a boolean chain (`Where(a).Or(b).Not(c)…`) and a keyed model value selects.

  Transcribes
    * clause/where.go `Where.Build` / `buildExprs`: the top-level expressions are emitted as a FLAT list, an
      `OrConditions` entry is joined by ` OR `, every other entry by ` AND ` — SQL precedence then makes the WHERE a
      disjunction of AND-runs;
    * callbacks/update.go `ConvertToAssignments`, callbacks/delete.go `Delete`, soft_delete.go
      `SoftDeleteDeleteClause.ModifyStatement`: the key condition of the model / written / deleted value is MERGED into
      that flat list as one more AND entry (`Where.MergeClause` appends);
    * soft_delete.go `SoftDeleteQueryClause.ModifyStatement` (called by the update clause and at the end of the delete
      clause): when an entry is an OR condition, ALL entries present at that moment are wrapped into one AND group,
      then `deleted_at IS NULL` is appended.
  So what the key binds to depends on the ORDER "schema clauses (wrap) vs key merge" of each callback — regenerated
  from /repo into Gen/WriteOrder.lean and locked by `C10_gen_*` in Props/C10.lean:
    soft-delete UPDATE (scoped):  wrap first   `(a OR b) AND deleted_at IS NULL AND id = 3`
    soft-delete DELETE (scoped):  key first    `(a OR b AND id IN (3)) AND deleted_at IS NULL`
    plain / Unscoped:             no wrap      `a OR b AND id = 3`
  Tied to the real code by the correspondence suite `chainsel` (harness/c10_r6.go): rows changed by the real statement
  vs `selected` on every row of the table.
-/
namespace Gorm.ChainRows

/-- one top-level WHERE entry evaluated on a row: (joined by OR, truth value) -/
abbrev Term := Bool × Bool

/-- value of the flat list after a first entry: `run` is the value of the current AND-run -/
def evalFlat : List Term → Bool → Bool
  | [], run => run
  | (true, v) :: ts, run => run || evalFlat ts v
  | (false, v) :: ts, run => evalFlat ts (run && v)

/-- the WHERE built from the entries (the first entry's joiner is not emitted; no entry = no WHERE) -/
def whereHolds : List Term → Bool
  | [] => true
  | (_, v) :: ts => evalFlat ts v

/-- the chain formula as the caller wrote it: every step one unit, Or steps open a new AND-run — identical to
    `whereHolds`; named separately because it is the REFERENCE ("rows matching the chain's conditions") -/
def chainHolds (ts : List Term) : Bool := whereHolds ts

/-- does an order of callback events group the chain before the key is merged? ("clauses" = the schema's
    Update/DeleteClauses loop resp. "wrap" = the explicit SoftDeleteQueryClause call; "key" / "assign" = key merge) -/
def groupsFirst : List String → Bool
  | [] => false
  | e :: es => if e == "clauses" || e == "wrap" then true else if e == "key" || e == "assign" then false else groupsFirst es

/-- is the row selected by the statement?  `groupFirst`: the soft-delete wrap ran before the key merge;
    `softScoped`: a soft-delete model without Unscoped; `key`: the row carries the value's key (true when no key
    is given); `live`: the row is not soft-deleted -/
def selected (groupFirst softScoped : Bool) (ts : List Term) (key live : Bool) : Bool :=
  if softScoped && groupFirst then whereHolds ts && live && key
  else if softScoped then whereHolds (ts ++ [(false, key)]) && live
  else whereHolds (ts ++ [(false, key)])

/-- the reference of the property: (chain conditions) AND key AND not soft-deleted -/
def targeted (softScoped : Bool) (ts : List Term) (key live : Bool) : Bool :=
  chainHolds ts && key && (!softScoped || live)

/-- no Or entry after the first one -/
def noOr (ts : List Term) : Bool := ts.tail.all fun t => !t.1

end Gorm.ChainRows
