/-
  Model.SchemaCache — the schema-cache protocol of gorm as a labelled transition system (C07).

  Transcribes, statement by statement, the *synchronisation skeleton* of
    schema/schema.go   ParseWithSpecialTableName (lines 122-390), getOrParse (406-424)
    schema/relationship.go  parseRelation (63-136): getOrParse call (80), back-reference under Mux (104-108),
                            setRelation (122)
  for G threads (goroutines) × model types with a relation graph (cycles / self reference allowed).
  What is abstracted: the reflect-based field construction (a local computation between `Load` #2 and
  `LoadOrStore`), the concrete relation guessing (a relation field either succeeds or sets `schema.err`: `Rel.bad`),
  join tables of many2many, embedded structs (they use a private cache).  The cache key is the model type
  (specialTableName = "").

  Core Lean only (this file is linked into the driver executable).
-/
namespace Gorm.SchemaCache

/-- one relation field of a model type, in struct-field order.
  `target` : the related model type; `has` : has-one/has-many, non polymorphic ⇒ parseRelation inserts the back-reference
  `"_"+Schema.Name+"_"+Name` into the *target's* Relationships.Relations under `Mux` (relationship.go:103-108);
  `bad` : guessRelation/buildPolymorphicRelation sets `schema.err` for this field. -/
structure Rel where
  target : Nat
  has : Bool
  bad : Bool
deriving Repr, DecidableEq, Inhabited

/-- relation fields per model type (index = type id) -/
abbrev Cfg := List (List Rel)

def relsOf (c : Cfg) (ty : Nat) : List Rel := c.getD ty []

/-- program counter of one activation of ParseWithSpecialTableName -/
inductive PC
  | load1                        -- schema.go:158  `cacheStore.Load(key)`; hit ⇒ `<-s.initialized; return s, s.err`
  | tableName                    -- :165-177 namer.TableName / Tabler.TableName() (harness hook point), then `schema := &Schema{…}` :179
  | load2                        -- :196 second `Load`; hit ⇒ wait
  | los                          -- :203-322 build fields (local), :325 `LoadOrStore`; loser ⇒ wait on the winner
  | wait (o : Nat)               -- `<-s.initialized` (blocked until closed), then `return s, s.err`
  | rel (k : Nat)                -- :339-347 field loop, parseRelation(field k): relationship.go:80 getOrParse → schema.go:419 `Load`
  | relSet (k : Nat) (fs : Nat)  -- FieldSchema = fs obtained: guessRelation, back-reference under Mux, setRelation
  | fin1                         -- deferred func :332-337: `if schema.err != nil { cacheStore.Delete(modelType) }`
  | fin2                         -- deferred :193 `close(schema.initialized)`; `return schema, schema.err`
deriving Repr, DecidableEq, Inhabited

structure Frame where
  ty : Nat
  pc : PC
  obj : Nat          -- the activation's own `schema` object (allocated by the `tableName` step)
deriving Repr, DecidableEq, Inhabited

/-- an activation suspended inside parseRelation(field k) → getOrParse → Parse(target) (the callee runs above it) -/
structure Susp where
  ty : Nat
  k : Nat
  obj : Nat
deriving Repr, DecidableEq, Inhabited

structure Thread where
  todo : List Nat          -- model types this goroutine will still call `schema.Parse` on (top level), in order
  cur : Option Frame       -- running activation (top of the goroutine's call stack)
  susp : List Susp         -- suspended callers, innermost first
deriving Repr, Inhabited

/-- a `*schema.Schema` heap object -/
structure Obj where
  ty : Nat
  closed : Bool                -- `initialized` closed
  err : Bool                   -- schema.err != nil
  nrel : Nat                   -- own relations set by setRelation so far
  backs : List (Nat × Nat)     -- back references inserted by other parsers: (source type, field index)
  stamp : Nat                  -- GHOST: 0 = never published; otherwise the value of the global clock at LoadOrStore
  ownT : Nat                   -- GHOST: allocating thread
  ownD : Nat                   -- GHOST: call depth of the allocating activation
deriving Repr, Inhabited

/-- `Parse` returned `(obj, err)` for requested type `ty` (nested = to a getOrParse caller, else to the goroutine) -/
structure Ret where
  tid : Nat
  ty : Nat
  obj : Nat
  err : Bool
  nested : Bool
  closedAtRet : Bool
  nrelAtRet : Nat
deriving Repr, DecidableEq, Inhabited

/-- getOrParse cache hit (schema.go:419-421): the parser of `ty`, field `k`, received `obj` WITHOUT waiting -/
structure Get where
  tid : Nat
  ty : Nat
  k : Nat
  obj : Nat
  closedAtGet : Bool
  nrelAtGet : Nat
deriving Repr, DecidableEq, Inhabited

structure State where
  cache : Nat → Option Nat      -- cacheStore (sync.Map): model type ↦ schema object
  objs : Nat → Obj
  nobj : Nat
  thr : Nat → Thread
  clock : Nat                   -- GHOST
  rets : List Ret               -- log, newest first
  gets : List Get               -- log, newest first

def upd {α : Type} (f : Nat → α) (k : Nat) (v : α) : Nat → α := fun i => if i = k then v else f i

@[simp] theorem upd_same {α : Type} (f : Nat → α) (k : Nat) (v : α) : upd f k v k = v := by simp [upd]
theorem upd_other {α : Type} (f : Nat → α) (k : Nat) (v : α) (i : Nat) (h : i ≠ k) : upd f k v i = f i := by
  simp [upd, h]

def freshObj (ty t d : Nat) : Obj :=
  { ty := ty, closed := false, err := false, nrel := 0, backs := [], stamp := 0, ownT := t, ownD := d }

def init (progs : List (List Nat)) : State :=
  { cache := fun _ => none
    objs := fun _ => freshObj 0 0 0
    nobj := 0
    thr := fun t => { todo := progs.getD t [], cur := none, susp := [] }
    clock := 1
    rets := []
    gets := [] }

/-- the running activation `f` of thread `t` (its thread record is `th`) returns `(o, o.err)`:
  to the goroutine (top level) or into the suspended parseRelation of its caller
  (relationship.go:80-83: `if relation.FieldSchema, err = getOrParse(…); err != nil { schema.err = err; return nil }`,
  then schema.go:342 `return schema, schema.err`). -/
def doReturn (s : State) (t : Nat) (th : Thread) (f : Frame) (o : Nat) : State :=
  let ob := s.objs o
  match th.susp with
  | [] =>
    { s with
      thr := upd s.thr t { th with cur := none }
      rets := ⟨t, f.ty, o, ob.err, false, ob.closed, ob.nrel⟩ :: s.rets }
  | p :: rest =>
    if ob.err then
      { s with
        objs := upd s.objs p.obj { s.objs p.obj with err := true }
        thr := upd s.thr t { th with cur := some ⟨p.ty, .fin1, p.obj⟩, susp := rest }
        rets := ⟨t, f.ty, o, true, true, ob.closed, ob.nrel⟩ :: s.rets }
    else
      { s with
        thr := upd s.thr t { th with cur := some ⟨p.ty, .relSet p.k o, p.obj⟩, susp := rest }
        rets := ⟨t, f.ty, o, false, true, ob.closed, ob.nrel⟩ :: s.rets }

def setPc (s : State) (t : Nat) (th : Thread) (f : Frame) (pc : PC) : State :=
  { s with thr := upd s.thr t { th with cur := some { f with pc := pc } } }

/-- one atomic step of thread `t`; `none` = the thread is blocked on an unclosed `initialized` or has finished -/
def step (c : Cfg) (s : State) (t : Nat) : Option State :=
  let th := s.thr t
  match th.cur with
  | none =>
    match th.todo with
    | [] => none
    | ty :: rest =>   -- the goroutine calls schema.Parse(&T{}, cacheStore, namer)
      some { s with thr := upd s.thr t { th with todo := rest, cur := some ⟨ty, .load1, 0⟩ } }
  | some f =>
    match f.pc with
    | .load1 =>
      match s.cache f.ty with
      | some o => some (setPc s t th f (.wait o))
      | none => some (setPc s t th f .tableName)
    | .tableName =>
      let o := s.nobj
      some { s with
        objs := upd s.objs o (freshObj f.ty t th.susp.length)
        nobj := s.nobj + 1
        thr := upd s.thr t { th with cur := some ⟨f.ty, .load2, o⟩ } }
    | .load2 =>
      match s.cache f.ty with
      | some o => some (setPc s t th f (.wait o))
      | none => some (setPc s t th f .los)
    | .los =>
      match s.cache f.ty with
      | some o => some (setPc s t th f (.wait o))
      | none =>
        some { s with
          cache := upd s.cache f.ty (some f.obj)
          objs := upd s.objs f.obj { s.objs f.obj with stamp := s.clock }
          clock := s.clock + 1
          thr := upd s.thr t { th with cur := some { f with pc := .rel 0 } } }
    | .wait o =>
      if (s.objs o).closed then some (doReturn s t th f o) else none
    | .rel k =>
      match (relsOf c f.ty)[k]? with
      | none => some (setPc s t th f .fin1)
      | some r =>
        match s.cache r.target with
        | some fs =>   -- getOrParse: cache hit returns WITHOUT waiting on `initialized`
          some { s with
            thr := upd s.thr t { th with cur := some { f with pc := .relSet k fs } }
            gets := ⟨t, f.ty, k, fs, (s.objs fs).closed, (s.objs fs).nrel⟩ :: s.gets }
        | none =>      -- getOrParse: miss ⇒ Parse(dest, cacheStore, namer)
          some { s with
            thr := upd s.thr t { th with cur := some ⟨r.target, .load1, 0⟩, susp := ⟨f.ty, k, f.obj⟩ :: th.susp } }
    | .relSet k fs =>
      match (relsOf c f.ty)[k]? with
      | none => some (setPc s t th f .fin1)     -- unreachable (k was in range at `rel k`)
      | some r =>
        if r.bad then
          some { s with
            objs := upd s.objs f.obj { s.objs f.obj with err := true }
            thr := upd s.thr t { th with cur := some { f with pc := .fin1 } } }
        else
          -- back reference into the target (under target.Relationships.Mux), then own setRelation (no lock)
          let objs1 :=
            if r.has && fs != f.obj then
              upd s.objs fs { s.objs fs with backs := (f.ty, k) :: (s.objs fs).backs }
            else s.objs
          let objs2 := upd objs1 f.obj { objs1 f.obj with nrel := (objs1 f.obj).nrel + 1 }
          some { s with
            objs := objs2
            thr := upd s.thr t { th with cur := some { f with pc := .rel (k + 1) } } }
    | .fin1 =>
      if (s.objs f.obj).err then
        some { s with
          cache := upd s.cache f.ty none
          thr := upd s.thr t { th with cur := some { f with pc := .fin2 } } }
      else some (setPc s t th f .fin2)
    | .fin2 =>
      let s1 := { s with objs := upd s.objs f.obj { s.objs f.obj with closed := true } }
      some (doReturn s1 t th f f.obj)

/-- a schedule is any list of thread ids; picking a blocked/finished thread is a stutter step -/
def stepD (c : Cfg) (s : State) (t : Nat) : State := (step c s t).getD s

def run (c : Cfg) (s : State) : List Nat → State
  | [] => s
  | t :: ts => run c (stepD c s t) ts

/-- thread `t` has nothing left to do -/
def doneT (s : State) (t : Nat) : Bool :=
  match (s.thr t).cur, (s.thr t).todo with
  | none, [] => true
  | _, _ => false

/-- thread `t` is blocked on an unclosed `initialized` channel -/
def blockedT (s : State) (t : Nat) : Bool :=
  match (s.thr t).cur with
  | some ⟨_, .wait o, _⟩ => !(s.objs o).closed
  | _ => false

/-- thread `t` is parked: at the TableName() hook point, or (harness) before a top-level `schema.Parse` call -/
def parkedT (s : State) (t : Nat) : Bool :=
  match (s.thr t).cur with
  | some ⟨_, .tableName, _⟩ => true
  | some _ => false
  | none => !(s.thr t).todo.isEmpty

/-! ### macro steps for the forced-schedule tie (harness parks goroutines inside `TableName()`) -/

/-- threads (among the first `g`) blocked on object `o` -/
def waitersOn (s : State) (g o : Nat) : List Nat :=
  (List.range g).filter (fun t =>
    match (s.thr t).cur with
    | some ⟨_, .wait o', _⟩ => o' == o && !(s.objs o).closed
    | _ => false)

/-- the next step of `t` closes an `initialized` channel after which MORE THAN ONE goroutine keeps working inside
  gorm concurrently (closer returning into a suspended parseRelation, woken nested waiters): the forced schedule no
  longer determines the interleaving. Goroutines returning to the top level only read `s.err` and park. -/
def closeIsNondet (s : State) (g t : Nat) : Bool :=
  match (s.thr t).cur with
  | some ⟨_, .fin2, o⟩ =>
    let ws := waitersOn s g o
    let nestedWs := ws.filter (fun w => !(s.thr w).susp.isEmpty)
    let closerNested := !(s.thr t).susp.isEmpty
    (nestedWs.length + (if closerNested then 1 else 0)) ≥ 2
  | _ => false

/-- run thread `t` until it is parked at a TableName() hook, blocked, or finished; the flag accumulates `closeIsNondet` -/
def runToPark (c : Cfg) (g : Nat) : Nat → State → Nat → Bool → State × Bool
  | 0, s, _, nd => (s, nd)
  | fuel + 1, s, t, nd =>
    if parkedT s t then (s, nd) else
    match step c s t with
    | none => (s, nd)
    | some s' => runToPark c g fuel s' t (nd || closeIsNondet s g t)

/-- release `t` from its park (or start it) and let it run to its next park / block / end -/
def release (c : Cfg) (g fuel : Nat) (s : State) (t : Nat) : State × Bool :=
  match step c s t with
  | none => (s, false)
  | some s' => runToPark c g fuel s' t false

/-- threads (among the first `g`) that can run although nobody released them: woken waiters -/
def runnable (s : State) (g : Nat) : List Nat :=
  (List.range g).filter (fun t => !(parkedT s t) && !(blockedT s t) && !(doneT s t))

/-- let woken threads run until everybody is parked, blocked or finished -/
def quiesce (c : Cfg) (g : Nat) : Nat → State → Bool → State × Bool
  | 0, s, nd => (s, nd)
  | fuel + 1, s, nd =>
    match runnable s g with
    | [] => (s, nd)
    | t :: _ =>
      let (s', nd') := runToPark c g 10000 s t nd
      quiesce c g fuel s' nd'

end Gorm.SchemaCache
