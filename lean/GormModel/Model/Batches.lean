/-
  Model of finisher_api.go `DB.FindInBatches` over an abstract table.

  A table (after the chain's WHERE filter) is the list of its primary keys in
  key order.  `findQ` is what one `Find` with the given LIMIT / OFFSET / cursor
  (`pk > gt`) returns under `ORDER BY pk`.  `batchLoop` mirrors the Go loop
  statement by statement; see the comments for the line correspondence.
-/
import GormModel.Model.Limit
namespace Gorm

/-- rows returned by `... WHERE pk > gt ORDER BY pk LIMIT lim OFFSET off` -/
def findQ (rows : List Nat) (lim : Option Int) (off : Option Int) (gt : Option Nat) : List Nat :=
  let r := match gt with | none => rows | some g => rows.filter (fun k => g < k)
  let r := match off with | some o => r.drop o.toNat | none => r
  match lim with
  | some l => r.take l.toNat
  | none => r

/-- loop state of FindInBatches -/
structure BatchSt where
  batchSize    : Int
  batch        : Int := 0
  rowsAffected : Int := 0
  cursor       : Option Nat := none
  first        : Bool := true
deriving Repr

/-- result of the whole call: the batches handed to `fc`, in order,
    and whether the loop ran out of fuel (never, see `C15_batches_fuel`). -/
structure BatchOut where
  batches : List (List Nat) := []
  outOfFuel : Bool := false
  pkRequired : Bool := false
deriving Repr

/-- the `for { ... }` loop.  `userOff` is the user's effective OFFSET (only on the first
    query: later ones run on `tx.Offset(-1)`), `totalSize` is `*limit.Limit` or 0. -/
def batchLoop (rows : List Nat) (userOff : Option Int) (totalSize : Int) :
    Nat → BatchSt → List (List Nat) → BatchOut
  | 0, _, acc => { batches := acc.reverse, outOfFuel := true }
  | fuel+1, st, acc =>
    -- result := queryDB.Limit(batchSize).Find(dest)
    let res := findQ rows (some st.batchSize) (if st.first then userOff else none) st.cursor
    let n : Int := res.length
    -- rowsAffected += result.RowsAffected; batch++
    let rowsAffected := st.rowsAffected + n
    let batch := st.batch + 1
    -- if result.Error == nil && result.RowsAffected != 0 { fc(...) }
    let acc := if n ≠ 0 then res :: acc else acc
    -- if tx.Error != nil || int(result.RowsAffected) < batchSize { break }
    if n < st.batchSize then { batches := acc.reverse }
    else
      -- if totalSize > 0 { if totalSize <= rowsAffected { break }; if totalSize/batchSize == batch { batchSize = totalSize % batchSize } }
      if totalSize > 0 ∧ totalSize ≤ rowsAffected then { batches := acc.reverse }
      else
        let batchSize :=
          if totalSize > 0 ∧ totalSize / st.batchSize = batch then totalSize % st.batchSize
          else st.batchSize
        -- primaryValue, zero := ...ValueOf(last element); if zero { ErrPrimaryKeyRequired; break }
        match res.getLast? with
        | none => { batches := acc.reverse, pkRequired := true }
        | some last =>
          if last = 0 then { batches := acc.reverse, pkRequired := true }
          else
            -- queryDB = tx.Clauses(clause.Gt{pk, primaryValue})
            batchLoop rows userOff totalSize fuel
              { batchSize := batchSize, batch := batch, rowsAffected := rowsAffected,
                cursor := some last, first := false } acc

/-- `FindInBatches(dest, batchSize, fc)` on a chain whose LIMIT clause state is `st`.
    Mirrors the preamble: totalSize, the `batchSize > totalSize` clamp. -/
def findInBatches (rows : List Nat) (lim : Option Limit) (batchSize : Int) (fuel : Nat) : BatchOut :=
  let totalSize : Int := match lim with
    | some l => (match l.limit with | some n => n | none => 0)
    | none => 0
  let batchSize := if lim.isSome ∧ totalSize > 0 ∧ batchSize > totalSize then totalSize else batchSize
  batchLoop rows (effOffsetOf lim) totalSize fuel { batchSize := batchSize } []

/-- what a plain `Find` on the same chain returns (ORDER BY pk) -/
def findAll (rows : List Nat) (lim : Option Limit) : List Nat :=
  findQ rows (effLimitOf lim) (effOffsetOf lim) none

end Gorm
