/-
  Model of finisher_api.go `DB.FindInBatches` over an abstract table.

  A table is the list of its primary keys in key order.  The loop is transcribed ONCE, generically in the
  query function `q limit offset cursor` (what one `queryDB.Limit(batchSize).Find(dest)` returns, as keys in
  delivery order); two query functions instantiate it:

  * `findQ rows`   — the chain has no WHERE and no user ordering: `… WHERE pk > gt ORDER BY pk LIMIT l OFFSET o`;
  * `queryW tbl units ord` — the chain's WHERE is a list of units joined the way clause/where.go
    `Where.Build`/`buildExprs` join them (a unit produced by `db.Or(..)` is preceded by ` OR `, every other one by
    ` AND `, SQL precedence makes that an OR of AND-runs), the cursor `clause.Gt{pk,last}` is APPENDED to that list
    by `tx.Clauses(..)` (so it is AND-ed to the LAST run only), and the rows are ordered by the user's `Order`
    columns first and the primary key last (`db.Order(pk)` in FindInBatches comes after the user's calls).

  `batchStep` is one iteration of the Go `for { … }` (line correspondence in the comments), `batchLoopQ` iterates it
  and records the SEQUENCE OF QUERIES (limit / offset / cursor) exactly as the recording driver sees them.
-/
import GormModel.Model.Limit
namespace Gorm

/-- LIMIT / OFFSET window of a result list (absent = no bound; values are non-negative when printed) -/
def window (r : List Nat) (lim : Option Int) (off : Option Int) : List Nat :=
  let r := match off with | some o => r.drop o.toNat | none => r
  match lim with
  | some l => r.take l.toNat
  | none => r

/-- rows returned by `... WHERE pk > gt ORDER BY pk LIMIT lim OFFSET off` -/
def findQ (rows : List Nat) (lim : Option Int) (off : Option Int) (gt : Option Nat) : List Nat :=
  let r := match gt with | none => rows | some g => rows.filter (fun k => g < k)
  let r := match off with | some o => r.drop o.toNat | none => r
  match lim with
  | some l => r.take l.toNat
  | none => r

/-! ### WHERE as "OR of AND-runs" (clause/where.go) -/

/-- one top-level member of `clause.Where.Exprs`: `isOr` = it is a single-member `clause.OrConditions`
    (what `db.Or(cond)` adds); `sat k` = the member's own (parenthesised) condition holds for the row with key `k`. -/
structure WUnit where
  isOr : Bool
  sat  : Nat → Bool

/-- first member that is not a single `Or`, with what precedes / follows it -/
def splitFirstNonOr : List WUnit → Option (List WUnit × WUnit × List WUnit)
  | [] => none
  | u :: us =>
    if u.isOr then
      match splitFirstNonOr us with
      | some (pre, v, post) => some (u :: pre, v, post)
      | none => none
    else some ([], u, us)

/-- `Where.Build`: "Switch position if the first query expression is a single Or condition":
    the first non-Or member is swapped with member 0. -/
def whereSwap : List WUnit → List WUnit
  | [] => []
  | u :: us =>
    if u.isOr then
      match splitFirstNonOr us with
      | some (pre, v, post) => v :: (pre ++ u :: post)
      | none => u :: us
    else u :: us

/-- value of `cur <AND|OR> u₁ <AND|OR> u₂ …` under SQL precedence, `cur` = value of the AND-run being read -/
def evalUnitsAux (k : Nat) : Bool → List WUnit → Bool
  | cur, [] => cur
  | cur, u :: us => if u.isOr then cur || evalUnitsAux k (u.sat k) us else evalUnitsAux k (cur && u.sat k) us

/-- `buildExprs(exprs, " AND ")` read by the database: member 0 opens the first run (its own connector is
    not printed); no WHERE at all = every row. -/
def evalUnits (us : List WUnit) (k : Nat) : Bool :=
  match us with
  | [] => true
  | u :: us => evalUnitsAux k (u.sat k) us

/-- the member `tx.Clauses(clause.Gt{pk, last})` appends -/
def cursorUnit (g : Nat) : WUnit := { isOr := false, sat := fun k => g < k }

/-- what the database evaluates for the chain's WHERE plus the optional key cursor -/
def whereSat (us : List WUnit) (gt : Option Nat) (k : Nat) : Bool :=
  evalUnits (whereSwap (match gt with | none => us | some g => us ++ [cursorUnit g])) k

/-! ### ORDER BY (clause/order_by.go: columns in call order, later calls appended) -/

/-- one ORDER BY column: the row's sort key for that column (NULLs are the harness' business: smallest) -/
structure OrdCol where
  key  : Nat → Int
  desc : Bool
  /-- column identity (0 = primary key); only printed by the driver for the query-shape correspondence -/
  tag  : Nat := 0

/-- the primary-key column, ascending / descending -/
def pkAsc : OrdCol := { key := fun k => (k : Int), desc := false }
def pkDesc : OrdCol := { key := fun k => (k : Int), desc := true }

/-- lexicographic "a comes no later than b" -/
def ordLe : List OrdCol → Nat → Nat → Bool
  | [], _, _ => true
  | c :: cs, a, b =>
    if c.key a = c.key b then ordLe cs a b
    else if c.desc then decide (c.key b < c.key a) else decide (c.key a < c.key b)

def insertBy (le : Nat → Nat → Bool) (x : Nat) : List Nat → List Nat
  | [] => [x]
  | y :: l => if le x y then x :: y :: l else y :: insertBy le x l

/-- stable insertion sort (stability on the incoming order = the database's natural key order; with `[]` as
    ordering the list is returned unchanged: "no ORDER BY = rowid order" is the SQLite assumption) -/
def isort (le : Nat → Nat → Bool) : List Nat → List Nat
  | [] => []
  | x :: l => insertBy le x (isort le l)

/-- `SELECT … WHERE <units [AND-appended cursor]> ORDER BY <ord> LIMIT lim OFFSET off` over table `tbl` -/
def queryW (tbl : List Nat) (us : List WUnit) (ord : List OrdCol)
    (lim : Option Int) (off : Option Int) (gt : Option Nat) : List Nat :=
  window (isort (ordLe ord) (tbl.filter (whereSat us gt))) lim off

/-! ### the loop -/

/-- one query of the loop as the recording driver sees it -/
structure BatchQuery where
  limit  : Int
  offset : Option Int
  cursor : Option Nat
deriving Repr, DecidableEq

/-- loop state of FindInBatches -/
structure BatchSt where
  batchSize    : Int
  batch        : Int := 0
  rowsAffected : Int := 0
  cursor       : Option Nat := none
  first        : Bool := true
deriving Repr

/-- result of the whole call: the batches handed to `fc`, in order, the queries issued, `tx.RowsAffected`,
    and whether the loop ran out of fuel (never under the hypotheses of `C15_batches_terminates`). -/
structure BatchOut where
  batches : List (List Nat) := []
  queries : List BatchQuery := []
  rowsAffected : Int := 0
  outOfFuel : Bool := false
  pkRequired : Bool := false
deriving Repr

/-- outcome of one iteration: the rows of this query, the query, the running total, and the next state
    (`none` = one of the `break`s) -/
structure StepOut where
  res : List Nat
  query : BatchQuery
  rowsAffected : Int
  next : Option BatchSt
  pkRequired : Bool := false

/-- one iteration of the `for { ... }` loop.  `userOff` is the user's effective OFFSET (only on the first
    query: later ones run on `tx.Offset(-1)`), `totalSize` is `*limit.Limit` or 0. -/
def batchStep (q : Int → Option Int → Option Nat → List Nat) (userOff : Option Int) (totalSize : Int)
    (st : BatchSt) : StepOut :=
  -- result := queryDB.Limit(batchSize).Find(dest)
  let off := if st.first then userOff else none
  let res := q st.batchSize off st.cursor
  let query : BatchQuery := { limit := st.batchSize, offset := off, cursor := st.cursor }
  let n : Int := res.length
  -- rowsAffected += result.RowsAffected; batch++
  let rowsAffected := st.rowsAffected + n
  let batch := st.batch + 1
  -- if tx.Error != nil || int(result.RowsAffected) < batchSize { break }
  if n < st.batchSize then { res, query, rowsAffected, next := none }
  else
    -- if totalSize > 0 { if totalSize <= rowsAffected { break }; if totalSize/batchSize == batch { batchSize = totalSize % batchSize } }
    if totalSize > 0 ∧ totalSize ≤ rowsAffected then { res, query, rowsAffected, next := none }
    else
      let batchSize :=
        if totalSize > 0 ∧ totalSize / st.batchSize = batch then totalSize % st.batchSize
        else st.batchSize
      -- primaryValue, zero := ...ValueOf(last element); if zero { ErrPrimaryKeyRequired; break }
      match res.getLast? with
      | none => { res, query, rowsAffected, next := none, pkRequired := true }
      | some last =>
        if last = 0 then { res, query, rowsAffected, next := none, pkRequired := true }
        else
          -- queryDB = tx.Clauses(clause.Gt{pk, primaryValue})
          { res, query, rowsAffected,
            next := some { batchSize := batchSize, batch := batch, rowsAffected := rowsAffected,
                           cursor := some last, first := false } }

/-- the `for { ... }` loop: `acc` / `qs` collect (reversed) the batches handed to `fc`
    (`if result.Error == nil && result.RowsAffected != 0 { fc(...) }`) and the queries issued. -/
def batchLoopQ (q : Int → Option Int → Option Nat → List Nat) (userOff : Option Int) (totalSize : Int) :
    Nat → BatchSt → List (List Nat) → List BatchQuery → BatchOut
  | 0, st, acc, qs =>
    { batches := acc.reverse, queries := qs.reverse, rowsAffected := st.rowsAffected, outOfFuel := true }
  | fuel+1, st, acc, qs =>
    let s := batchStep q userOff totalSize st
    let acc := if s.res.length ≠ 0 then s.res :: acc else acc
    let qs := s.query :: qs
    match s.next with
    | none => { batches := acc.reverse, queries := qs.reverse, rowsAffected := s.rowsAffected,
                pkRequired := s.pkRequired }
    | some st' => batchLoopQ q userOff totalSize fuel st' acc qs

/-- `*limit.Limit` or 0 (the preamble's `totalSize`) -/
def totalSizeOf (lim : Option Limit) : Int :=
  match lim with
  | some l => (match l.limit with | some n => n | none => 0)
  | none => 0

/-- the preamble's clamp `if totalSize > 0 && batchSize > totalSize { batchSize = totalSize }`
    (only inside `if c, ok := Clauses["LIMIT"]`) -/
def clampBatch (lim : Option Limit) (batchSize : Int) : Int :=
  if lim.isSome ∧ totalSizeOf lim > 0 ∧ batchSize > totalSizeOf lim then totalSizeOf lim else batchSize

/-- `limit.Limit != nil && *limit.Limit == 0`: the stored LIMIT is exactly 0 (what `Find` prints as `LIMIT 0`) -/
def limitIsZero (lim : Option Limit) : Bool :=
  match lim with
  | some l => l.limit == some 0
  | none => false

/-- the preamble's early return `if limit.Limit != nil && totalSize == 0 { tx.AddError(queryDB.Find(dest).Error);
    return tx }` (after `tx = tx.Offset(-1)`; `queryDB` is still the chain as the caller built it): ONE query carrying
    the chain's own `LIMIT 0` and OFFSET, no call of `fc`, `tx.RowsAffected` left at 0. -/
def zeroLimitOut (lim : Option Limit) : BatchOut :=
  { queries := [{ limit := 0, offset := effOffsetOf lim, cursor := none }] }

/-- `FindInBatches(dest, batchSize, fc)` on a chain whose LIMIT clause state is `lim`, generic in the query.
    `zeroRet` = the early return for a stored LIMIT 0 is present in the tree (regenerated fact
    `Gen.findInBatchesZeroLimitReturn`; absent in the tree with finding F7c, where a stored 0 reads as "no limit"). -/
def findInBatchesQ (zeroRet : Bool) (q : Int → Option Int → Option Nat → List Nat) (lim : Option Limit)
    (batchSize : Int) (fuel : Nat) : BatchOut :=
  bif limitIsZero lim && zeroRet then zeroLimitOut lim
  else batchLoopQ q (effOffsetOf lim) (totalSizeOf lim) fuel { batchSize := clampBatch lim batchSize } [] []

/-- chain without WHERE / user ordering over the key list `rows` -/
def findInBatches (zeroRet : Bool) (rows : List Nat) (lim : Option Limit) (batchSize : Int) (fuel : Nat) : BatchOut :=
  findInBatchesQ zeroRet (fun l o g => findQ rows (some l) o g) lim batchSize fuel

/-- chain with WHERE units `us` and user ordering `ord` over table `tbl`
    (`db.Order(pk)` of FindInBatches is appended AFTER the user's columns) -/
def findInBatchesW (zeroRet : Bool) (tbl : List Nat) (us : List WUnit) (ord : List OrdCol) (lim : Option Limit)
    (batchSize : Int) (fuel : Nat) : BatchOut :=
  findInBatchesQ zeroRet (fun l o g => queryW tbl us (ord ++ [pkAsc]) (some l) o g) lim batchSize fuel

/-- what a plain `Find` on the same chain returns (ORDER BY pk) -/
def findAll (rows : List Nat) (lim : Option Limit) : List Nat :=
  findQ rows (effLimitOf lim) (effOffsetOf lim) none

/-- rows matching the chain's WHERE, in key order -/
def matchingW (tbl : List Nat) (us : List WUnit) : List Nat := tbl.filter (whereSat us none)

/-- what `Find` returns for the chain with WHERE `us`, ordering `ord ++ [pk]`, LIMIT state `lim` -/
def findAllW (tbl : List Nat) (us : List WUnit) (ord : List OrdCol) (lim : Option Limit) : List Nat :=
  queryW tbl us (ord ++ [pkAsc]) (effLimitOf lim) (effOffsetOf lim) none

end Gorm
