/-
  Model of the row-iteration glue of the read paths (C15): what each path does with a `*sql.Rows` cursor
  that may FAIL while it is iterated, and what it writes into a destination that may already hold data.

    scan.go        Scan(rows, db, mode)          → `gormScan`   (destination dispatch, the `for initialized ||
                                                    rows.Next()` loops, the final `rows.Err()` check,
                                                    RaiseErrorOnNotFound)
    scan.go        scanIntoMap                   → `scanIntoMap` (every column is assigned; NULL ⇒ key ↦ nil)
    scan.go        scanIntoStruct + schema/field.go Set (NULL handling per field kind) → `scanIntoStruct`
    callbacks/query.go Query                     → `queryPath`  (Find / First / Take / Last / Pluck / Count)
    finisher_api.go Scan                         → `dbScan`     (Rows(); rows.Next(); ScanRows | else-branch)
    finisher_api.go Rows + ScanRows in the caller's `for rows.Next()` loop, then `rows.Err()` → `rowsLoop`

  The cursor is the list of events successive `rows.Next()` calls produce: `row r` (true, current row r) or
  `fail` (false, and `rows.Err()` is non-nil from then on); the end of the list is EOF (false, `Err() = nil`).
  `mkCursor rows (some k)` = the driver fails after k delivered rows (if the iteration gets that far).

  Cells are `Option Int` (none = SQL NULL); a map / struct value is an association list column ↦ cell.
  Tied to the code by the `scan.loop` correspondence suite (harness/c15_scan.go): every generated step is
  executed on the real code behind a fault-injecting driver and on these definitions, and the complete final
  destination content, RowsAffected, error and not-found flags are diffed.
-/
namespace Gorm.ScanLoop

abbrev Cell := Option Int
abbrev SRow := List Cell
abbrev Rec := List (String × Cell)

inductive Ev where
  | row (r : SRow)
  | fail
deriving Repr, DecidableEq

/-- the driver delivers `rows`; with `some k` its Next fails after k rows -/
def mkCursor (rows : List SRow) : Option Nat → List Ev
  | none => rows.map .row
  | some k => if k ≤ rows.length then (rows.take k).map .row ++ [.fail] else rows.map .row

/-- rows the iteration can deliver before the fault / EOF -/
def delivered (rows : List SRow) : Option Nat → List SRow
  | none => rows
  | some k => rows.take k

/-- does an iteration to the end run into the fault? -/
def faultReached (rows : List SRow) : Option Nat → Bool
  | none => false
  | some k => decide (k ≤ rows.length)

/-! ### maps -/

/-- `m[k] = v` -/
def recSet : Rec → String → Cell → Rec
  | [], k, v => [(k, v)]
  | (k', v') :: t, k, v => if k' = k then (k, v) :: t else (k', v') :: recSet t k v

/-- `v, ok := m[k]` -/
def recGet : Rec → String → Option Cell
  | [], _ => none
  | (k', v') :: t, k => if k' = k then some v' else recGet t k

/-- scan.go scanIntoMap: `for idx, column := range columns { if valid { m[column] = value } else { m[column] = nil } }` -/
def scanIntoMap (m : Rec) : List String → SRow → Rec
  | c :: cs, v :: vs =>
    match v with
    | some x => scanIntoMap (recSet m c (some x)) cs vs
    | none => scanIntoMap (recSet m c none) cs vs
  | _, _ => m

/-! ### structs -/

/-- a readable field: its column, its Go zero value as a cell (`some 0` for int/string…, `none` for pointers and
    sql.Null*), and whether schema/field.go `Set` RESETS it when the scanned value is NULL: pointer fields are set
    to nil (fallbackSetter), non-pointer kinds (`case **int: if *data != nil {…}`) and struct Scanners
    (`reflectV.IsNil() ⇒ return`) are LEFT AS THEY ARE. -/
structure FieldSpec where
  name : String
  zero : Cell
  resetOnNull : Bool
deriving Repr, DecidableEq

abbrev Schema := List FieldSpec

def Schema.field? (sch : Schema) (c : String) : Option FieldSpec := sch.find? (fun f => f.name = c)

/-- `reflect.New(T)` / `reflect.Zero(T)` -/
def zeroRec (sch : Schema) : Rec := sch.map fun f => (f.name, f.zero)

/-- field.Set(value, scanned cell) -/
def fieldSet (f : FieldSpec) (old : Cell) : Cell → Cell
  | some x => some x
  | none => if f.resetOnNull then none else old

/-- scan.go scanIntoStruct: every column with a readable field is `Set`; other columns go to a throw-away value -/
def scanIntoStruct (sch : Schema) (s : Rec) : List String → SRow → Rec
  | c :: cs, v :: vs =>
    match sch.field? c with
    | some f => scanIntoStruct sch (recSet s c (fieldSet f ((recGet s c).getD f.zero) v)) cs vs
    | none => scanIntoStruct sch s cs vs
  | _, _ => s

/-! ### destinations and the loops of `Scan` -/

inductive Dest where
  | structs (sch : Schema) (elems : List Rec)   -- *[]T, *[]*T, Pluck's *[]V (one-field schema)
  | maps (elems : List Rec)                     -- *[]map[string]interface{}
  | prim (v : Cell)                             -- *int …
  | struct1 (sch : Schema) (v : Rec)            -- *T
  | map1 (m : Rec)                              -- map[string]interface{} / *map[string]interface{}
deriving Repr, DecidableEq

structure LoopOut (α : Type) where
  acc : α
  ra : Nat
  err : Bool        -- rows.Err() ≠ nil after the loop
  rest : List Ev

/-- the common shape of the three `for initialized || rows.Next() { db.RowsAffected++; <body> }` loops of
    `Scan`: `body` folds the current row into the destination; a failing Next ends the loop with `rows.Err()` set -/
def loopG {α : Type} (body : α → SRow → α) : List Ev → α → Nat → LoopOut α
  | [], acc, ra => ⟨acc, ra, false, []⟩
  | .fail :: _, acc, ra => ⟨acc, ra, true, [.fail]⟩
  | .row r :: rest, acc, ra => loopG body rest (body acc r) (ra + 1)

/-- slice of structs: `elem := reflect.New(T); scanIntoStruct(elem); reflectValue = reflect.Append(reflectValue, elem)` -/
def loopStructs (sch : Schema) (cols : List String) : List Ev → List Rec → Nat → LoopOut (List Rec) :=
  loopG (fun acc r => acc ++ [scanIntoStruct sch (zeroRec sch) cols r])

/-- slice of maps: `mapValue := map[string]interface{}{}; scanIntoMap(mapValue); *dest = append(*dest, mapValue)` -/
def loopMaps (cols : List String) : List Ev → List Rec → Nat → LoopOut (List Rec) :=
  loopG (fun acc r => acc ++ [scanIntoMap [] cols r])

/-- primitive: `rows.Scan(dest)` — every row overwrites the one variable -/
def loopPrim : List Ev → Cell → Nat → LoopOut Cell :=
  loopG (fun _ r => r.headD none)

structure ScanOut where
  dest : Dest
  ra : Nat
  err : Bool         -- a driver error ended up in db.Error
  notFound : Bool    -- ErrRecordNotFound was added
  rest : List Ev
  branch : String := ""

/-- the tail of `Scan`: `if err := rows.Err(); err != nil { AddError }`, then
    `if RowsAffected == 0 && RaiseErrorOnNotFound && Error == nil { AddError(ErrRecordNotFound) }` -/
def finishScan (d : Dest) (ra : Nat) (err raise : Bool) (rest : List Ev) (branch : String) : ScanOut :=
  { dest := d, ra := ra, err := err, notFound := ra == 0 && raise && !err, rest := rest, branch := branch }

/-- scan.go Scan(rows, db, mode).  `cur = some r` ⇔ mode has ScanInitialized (the caller already called
    rows.Next() and r is the current row): `for initialized || rows.Next()` then processes r first, which is
    the loop over `row r :: evs`.  In ScanInitialized mode a struct destination is zeroed first. -/
def gormScan (cur : Option SRow) (evs : List Ev) (raise : Bool) (cols : List String) (d : Dest) : ScanOut :=
  let evs' := match cur with | some r => Ev.row r :: evs | none => evs
  match d with
  | .structs sch _ =>            -- slice: SetLen(0), then append
    let o := loopStructs sch cols evs' [] 0
    finishScan (.structs sch o.acc) o.ra o.err raise o.rest "structs"
  | .maps old =>                 -- appended to whatever *dest holds
    let o := loopMaps cols evs' old 0
    finishScan (.maps o.acc) o.ra o.err raise o.rest "maps"
  | .prim v =>
    let o := loopPrim evs' v 0
    finishScan (.prim o.acc) o.ra o.err raise o.rest "prim"
  | .struct1 sch v =>            -- `if initialized || rows.Next() { [zero]; scanIntoStruct }`
    match evs' with
    | .row r :: rest =>
      let start := if cur.isSome then zeroRec sch else v
      finishScan (.struct1 sch (scanIntoStruct sch start cols r)) 1 false raise rest
        (if cur.isSome then "struct1.zeroed" else "struct1.kept")
    | .fail :: _ => finishScan d 0 true raise [.fail] "struct1.fail"
    | [] => finishScan d 0 false raise [] "struct1.eof"
  | .map1 m =>
    match evs' with
    | .row r :: rest => finishScan (.map1 (scanIntoMap m cols r)) 1 false raise rest "map1"
    | .fail :: _ => finishScan d 0 true raise [.fail] "map1.fail"
    | [] => finishScan d 0 false raise [] "map1.eof"

/-- callbacks/query.go Query: `rows := QueryContext(…); gorm.Scan(rows, db, 0); rows.Close()` -/
def queryPath (c : List Ev) (raise : Bool) (cols : List String) (d : Dest) : ScanOut :=
  gormScan none c raise cols d

/-- the else-branch's `if _, ok := dest.(*[]map[string]interface{}); !ok { if rv.Kind() == reflect.Slice { rv.SetLen(0) } }`
    (present iff `reset`, regenerated fact `Gen.scanNoRowResetsSlice`): a slice of structs / pointers is emptied,
    a slice of maps and every single-row destination are left as they are -/
def noRowDest (reset : Bool) : Dest → Dest
  | .structs sch old => .structs sch (bif reset then [] else old)
  | d => d

/-- finisher_api.go Scan: `if rows.Next() { tx.ScanRows(rows, dest) } else { tx.RowsAffected = 0;
    tx.AddError(rows.Err()); [reset of a slice destination] }` — in the tree with finding F7e (`reset = false`) the
    else-branch does not touch the destination -/
def dbScan (reset : Bool) (c : List Ev) (cols : List String) (d : Dest) : ScanOut :=
  match c with
  | .row r :: rest => gormScan (some r) rest false cols d
  | .fail :: _ => { dest := noRowDest reset d, ra := 0, err := true, notFound := false, rest := [.fail], branch := "scan.else.err" }
  | [] => { dest := noRowDest reset d, ra := 0, err := false, notFound := false, rest := [], branch := "scan.else.eof" }

/-- what ONE `db.ScanRows(rows, &dest)` does to a single-row destination (mode ScanInitialized) -/
def scanRow1 (cols : List String) (d : Dest) (r : SRow) : Dest :=
  match d with
  | .struct1 sch _ => .struct1 sch (scanIntoStruct sch (zeroRec sch) cols r)
  | .map1 m => .map1 (scanIntoMap m cols r)
  | d => d

/-- the caller's streaming idiom with ONE destination variable:
    `for rows.Next() { db.ScanRows(rows, &dest); use(dest) }; err = rows.Err()` — snapshots of dest per row -/
def rowsLoop (cols : List String) : List Ev → Dest → List Dest → List Dest × Bool
  | [], _, acc => (acc, false)
  | .fail :: _, _, acc => (acc, true)
  | .row r :: rest, d, acc =>
    let d' := scanRow1 cols d r
    rowsLoop cols rest d' (acc ++ [d'])

/-- … with a FRESH map per row (`m := map[string]interface{}{}` inside the loop) -/
def rowsLoopFresh (cols : List String) : List Ev → List Dest → List Dest × Bool
  | [], acc => (acc, false)
  | .fail :: _, acc => (acc, true)
  | .row r :: rest, acc => rowsLoopFresh cols rest (acc ++ [scanRow1 cols (.map1 []) r])

end Gorm.ScanLoop
