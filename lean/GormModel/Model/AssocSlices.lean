/-
  C12 (round 6) — the in-memory relation SLICE as the caller sees it: backing arrays and slice headers.

  `old := u.Languages` copies a slice header; `old` and the field share one backing array. What association mode writes
  into the field must therefore live in FRESH memory, or the caller's `old` silently names other records.

  Transcribes, for has-many / many2many fields:
    association.go Association.Delete, closure cleanUpDeletedRelations (slice case):
        validFieldValues := reflect.Zero(rel.Field.IndirectFieldType); … reflect.Append(validFieldValues, fieldValue.Index(i)) …;
        rel.Field.Set(ctx, data, validFieldValues.Interface())                                   → `stepFresh … (.delete vs)`
    association.go saveAssociation, closure appendToRelations (HasMany, Many2Many):
        clear:  fieldValue = reflect.MakeSlice(oldFieldValue.Type(), 0, oldFieldValue.Cap())     → `.replace vs`
        else:   fieldValue = reflect.MakeSlice(…, Len, Cap); reflect.Copy(fieldValue, oldFieldValue) → `.append vs`
        … fieldValue = reflect.Append(fieldValue, ev) …; Field.Set(ctx, source, fieldValue.Interface())
    association.go Replace()/Clear without values: Field.Set(…, reflect.Zero(FieldType))          → `.clear`
  Tie: regenerated facts Gen/AssocSlices.lean (every slice grown by reflect.Append starts from reflect.Zero / reflect.MakeSlice,
  no re-slicing, no element writes, reflect.Copy only into such a slice) and harness suite `captured-slices`, which holds
  caller-side copies of the field across calls and compares their contents after every call (class `captured`).
-/
import GormModel.Gen.AssocSlices
namespace Gorm.AssocSlices

/-- the heap: backing arrays of record keys, addressed by position -/
abbrev Heap := List (List Nat)

/-- a slice header: backing array + length (offset 0: relation fields are never re-sliced by association.go) -/
structure Hdr where
  arr : Nat
  len : Nat
deriving Repr, DecidableEq

/-- what a holder of the header sees -/
def read (h : Heap) (s : Hdr) : List Nat := (h.getD s.arr []).take s.len

inductive SOp where
  | append (vs : List Nat)
  | replace (vs : List Nat)
  | delete (vs : List Nat)
  | clear
deriving Repr, DecidableEq

/-- the records of the new field value -/
def newContents (cur : List Nat) : SOp → List Nat
  | .append vs => cur ++ vs
  | .replace vs => vs
  | .delete vs => cur.filter (fun x => !vs.contains x)
  | .clear => []

structure St where
  heap : Heap
  field : Hdr
deriving Repr, DecidableEq

/-- reflect.Zero / reflect.MakeSlice + reflect.Append: the new value occupies a NEW backing array -/
def stepFresh (s : St) (op : SOp) : St :=
  let xs := newContents (read s.heap s.field) op
  { heap := s.heap ++ [xs], field := ⟨s.heap.length, xs.length⟩ }

def runFresh (s : St) : List SOp → St
  | [] => s
  | op :: ops => runFresh (stepFresh s op) ops

/-- the "filter in place" / "keep the backing array" variant (`fieldValue.Slice(0, 0)` then reflect.Append): Delete and
    Replace write the new contents over the head of the OLD backing array (they never outgrow it); kept only to state what
    the regenerated facts exclude -/
def stepInPlace (s : St) (op : SOp) : St :=
  match op with
  | .delete _ | .replace _ =>
    let xs := newContents (read s.heap s.field) op
    let old := s.heap.getD s.field.arr []
    if xs.length ≤ old.length then
      { heap := s.heap.set s.field.arr (xs ++ old.drop xs.length), field := ⟨s.field.arr, xs.length⟩ }
    else stepFresh s op
  | _ => stepFresh s op

/-- shape of the regenerated facts that make `stepFresh` the transcription of the real code -/
def freshOrigins (origins : List (String × String × String)) : Bool :=
  origins.all (fun o => o.2.2 == "reflect.Zero" || o.2.2 == "reflect.MakeSlice")

end Gorm.AssocSlices
