/-
  Reference semantics of a rendered SQL condition (NOT gorm code; DESIGN.md §3 `Model.SqlBool`).

  A rendered condition is a bracket-structured flat list: every `(`…`)` pair gorm writes is a `paren`
  node; a raw user string that gorm writes WITHOUT parentheses is a `splice` node carrying the way SQL
  reads that text; `expandFlat` inlines splice nodes into the surrounding list (that is what the SQL
  parser sees), `evalFlat` is Kleene evaluation under standard precedence: a flat list is the OR of its
  maximal AND-runs and `NOT` binds to the next item only.  `textFlat` is the exact text gorm wrote.
-/
namespace Gorm

inductive V3 | t | f | u
deriving DecidableEq, Repr

def V3.not : V3 → V3 | .t => .f | .f => .t | .u => .u
def V3.and : V3 → V3 → V3
  | .f, _ => .f | _, .f => .f | .t, .t => .t | _, _ => .u
def V3.or : V3 → V3 → V3
  | .t, _ => .t | _, .t => .t | .f, .f => .f | _, _ => .u

inductive Joiner | and | or
deriving DecidableEq, Repr

/-- `atom id pol text`: a comparison whose base predicate is `id`; `pol = false` = its negated form -/
inductive Core where
  | atom (id : Nat) (pol : Bool) (text : String)
  | paren (items : List (Joiner × Nat × Core))
  | splice (text : String) (items : List (Joiner × Nat × Core))
deriving Repr

/-- joiner written before the item (ignored for the first item), number of `NOT ` written before it -/
abbrev Item := Joiner × Nat × Core
abbrev Flat := List Item

def applyNegs (n : Nat) (v : V3) : V3 := if n % 2 = 0 then v else v.not

mutual
def evalCore (env : Nat → V3) : Core → V3
  | .atom id pol _ => if pol then env id else (env id).not
  | .paren f => evalFlat env f
  | .splice _ f => evalFlat env f
def evalFlat (env : Nat → V3) : List (Joiner × Nat × Core) → V3
  | [] => .t
  | (_, n, c) :: r => evalRuns env .f (applyNegs n (evalCore env c)) r
/-- `acc` = OR of the finished AND-runs, `cur` = the AND-run in progress -/
def evalRuns (env : Nat → V3) (acc cur : V3) : List (Joiner × Nat × Core) → V3
  | [] => acc.or cur
  | (.and, n, c) :: r => evalRuns env acc (cur.and (applyNegs n (evalCore env c))) r
  | (.or, n, c) :: r => evalRuns env (acc.or cur) (applyNegs n (evalCore env c)) r
end

def itemVal (env : Nat → V3) (n : Nat) (c : Core) : V3 := applyNegs n (evalCore env c)

/-- set the joiner of the first item (what a surrounding builder writes before the spliced text) -/
def setJoin (j : Joiner) : Flat → Flat
  | [] => []
  | (_, m, c) :: r => (j, m, c) :: r

/-- one more `NOT ` in front of the first item -/
def addNeg : Flat → Flat
  | [] => []
  | (j, m, c) :: r => (j, m + 1, c) :: r

/-- set joiner and add `n` negations on the first item (used when a splice node is inlined) -/
def setFirst (j : Joiner) (n : Nat) : Flat → Flat
  | [] => []
  | (_, m, c) :: r => (j, n + m, c) :: r

mutual
/-- one item as the SQL parser sees it: raw text written without parentheses is inlined (its first item takes
    the joiner and the pending NOTs of the place it was written to) -/
def expandItem (j : Joiner) (n : Nat) : Core → List (Joiner × Nat × Core)
  | .atom i p t => [(j, n, .atom i p t)]
  | .paren f => [(j, n, .paren (expandFlat f))]
  | .splice t f =>
    -- (a raw text without any item — never produced by a real string — stays a single opaque item)
    match expandFlat f with
    | [] => [(j, n, .splice t [])]
    | x :: xs => setFirst j n (x :: xs)
/-- what the SQL parser sees: unparenthesised raw text is inlined into the surrounding list -/
def expandFlat : List (Joiner × Nat × Core) → List (Joiner × Nat × Core)
  | [] => []
  | (j, n, c) :: r => expandItem j n c ++ expandFlat r
end

/-- the meaning SQL gives to what gorm wrote -/
def sqlEval (env : Nat → V3) (f : Flat) : V3 := evalFlat env (expandFlat f)

def nots : Nat → String
  | 0 => ""
  | n + 1 => "NOT " ++ nots n

def Joiner.text : Joiner → String | .and => " AND " | .or => " OR "

mutual
def textCore : Core → String
  | .atom _ _ t => t
  | .paren f => "(" ++ textItems true f ++ ")"
  | .splice t _ => t
def textItems (first : Bool) : List (Joiner × Nat × Core) → String
  | [] => ""
  | (j, n, c) :: r => (if first then "" else j.text) ++ nots n ++ textCore c ++ textItems false r
end

def textFlat (f : Flat) : String := textItems true f

/-- all joiners after the first item are AND (no top-level OR) -/
def noTopOr : Flat → Bool
  | [] => true
  | _ :: r => r.all (fun i => i.1 == .and)

end Gorm
