/-
  The TWO COPIES of the code that turns the primary key of a deleted value / of the `Model(..)` value into a WHERE
  condition, transcribed SEPARATELY (Model/Where.lean `writeKeys` has ONE line for both):

  * callbacks/delete.go `Delete`, inside `if db.Statement.SQL.Len() == 0 { … if db.Statement.Schema != nil { … } … }`:
      (V) `_, queryValues := schema.GetIdentityFieldValuesMap(db.Statement.Context, db.Statement.ReflectValue, db.Statement.Schema.PrimaryFields)`
          `column, values := schema.ToQueryValues(db.Statement.Table, db.Statement.Schema.PrimaryFieldDBNames, queryValues)`
          `if len(values) > 0 { db.Statement.AddClause(clause.Where{Exprs: []clause.Expression{clause.IN{Column: column, Values: values}}}) }`
      (M) `if db.Statement.ReflectValue.CanAddr() && db.Statement.Dest != db.Statement.Model && db.Statement.Model != nil {`
          `  _, queryValues = schema.GetIdentityFieldValuesMap(db.Statement.Context, reflect.ValueOf(db.Statement.Model), db.Statement.Schema.PrimaryFields)`
          `  column, values = schema.ToQueryValues(…); if len(values) > 0 { db.Statement.AddClause(clause.Where{… clause.IN …}) } }`
  * soft_delete.go `SoftDeleteDeleteClause.ModifyStatement`, inside
    `if stmt.SQL.Len() == 0 && !stmt.Statement.Unscoped { … if stmt.Schema != nil { … } … stmt.Build(…) }`:
      its OWN COPY of (V) and (M), with `stmt.` for `db.Statement.`.

  Which copy runs: `Delete` first adds the schema's DeleteClauses; for a soft-delete model that is not Unscoped
  `SoftDeleteDeleteClause.ModifyStatement` then builds the statement (`stmt.Build(…Update().Clauses…)`), so that back in
  `Delete` the test `db.Statement.SQL.Len() == 0` fails and the callbacks/delete.go copy is SKIPPED.  For a plain model,
  or once Unscoped, `ModifyStatement` does nothing and the callbacks/delete.go copy runs.

  `DeleteCopy` says which of the two blocks a copy contains; the regenerated facts Gen/DeleteKeyFacts.lean
  (extract/gen_c09_keys.go) say which blocks today's source contains.
-/
import GormModel.Model.Where
namespace Gorm

/-- which key blocks one copy of the delete code contains: (V) the key of `<stmt>.ReflectValue`, (M) the key of
    `reflect.ValueOf(<stmt>.Model)` -/
structure DeleteCopy where
  valueBlock : Bool
  modelBlock : Bool
deriving DecidableEq, Repr

/-- both blocks present -/
def DeleteCopy.full : DeleteCopy := ⟨true, true⟩

/-- key conditions ONE copy adds (callbacks/delete.go lines 131-147 resp. soft_delete.go lines 148-164):
    block (V) `if len(values) > 0 { AddClause(Where IN) }` — `valueKey = []` ⇔ `len(values) == 0`;
    block (M) `if <stmt>.ReflectValue.CanAddr() && <stmt>.Dest != <stmt>.Model && <stmt>.Model != nil { … if len(values) > 0 { AddClause(Where IN) } }`:
    `same` = `Dest == Model` (`Delete(m)` on `Model(m)`); `CanAddr()` holds for every pointer value handed to Delete;
    `Model != nil` with a key-less Model value ⇔ `modelKey = []` (nothing is added either way) -/
def deleteKeysOf (c : DeleteCopy) (valueKey modelKey : List Atom) (same : Bool) : List Atom :=
  (if c.valueBlock then valueKey else []) ++ (if c.modelBlock && !same then modelKey else [])

inductive DeletePath | hardCopy | softCopy
deriving DecidableEq, Repr

/-- which copy runs: soft_delete.go `if stmt.SQL.Len() == 0 && !stmt.Statement.Unscoped { … stmt.Build(…) }` (only a
    soft-delete model has the clause among `Schema.DeleteClauses`), else callbacks/delete.go
    `if db.Statement.SQL.Len() == 0 { … }` -/
def deletePath (soft unscoped : Bool) : DeletePath :=
  if soft && !unscoped then .softCopy else .hardCopy

/-- key conditions a Delete adds, given what each of the two copies contains -/
def deleteKeys (hard softC : DeleteCopy) (soft unscoped : Bool) (valueKey modelKey : List Atom) (same : Bool) : List Atom :=
  match deletePath soft unscoped with
  | .softCopy => deleteKeysOf softC valueKey modelKey same
  | .hardCopy => deleteKeysOf hard valueKey modelKey same

/-- Model/Where.lean `finWhere` with the Delete branch reading the two copies separately: the key conditions are added
    (callbacks/delete.go / soft_delete.go `AddClause(clause.Where{…})`), then the soft-delete modifier runs
    (soft_delete.go `SoftDeleteQueryClause(sd).ModifyStatement(stmt)`; a no-op on a plain model or when Unscoped) -/
def finWhereWith (hard softC : DeleteCopy) (cfg : StmtCfg) (s : StmtState) (k : FinKind) (valueKey : List Atom)
    (same : Bool) : WhereState :=
  match k with
  | .delete =>
    let ks := (deleteKeys hard softC cfg.soft.isSome s.unscoped valueKey cfg.modelKey same).map Ex.atom
    let w1 := if ks.isEmpty then s.w else addWhere s.w ks
    modifyBy cfg s.unscoped w1
  | _ => finWhere cfg s k valueKey same

/-- Model/Where.lean `finRejected` over `finWhereWith`: callbacks/helper.go `checkMissingWhereConditions` on the WHERE
    state the Delete executes with -/
def finRejectedWith (countsExprs : Bool) (hard softC : DeleteCopy) (cfg : StmtCfg) (s : StmtState) (k : FinKind)
    (valueKey : List Atom) (same : Bool) : Bool :=
  k.isWrite && missingWhere countsExprs cfg.allowGlobal (finWhereWith hard softC cfg s k valueKey same)

end Gorm
