/-
  Model.Serializer — (C03, round 5) schema/serializer.go: the built-in serializers as VALUE / SCAN decision functions.

  What is transcribed:
    * `UnixSecondSerializer.Value` (serializer.go:128-143): the two arms of the type switch — plain integers, pointers to
      integers (nil POINTER → NULL; the pointee is never looked at) — and `UnixSecondSerializer.Scan` (:119-125:
      `sql.NullTime`; NULL leaves the field as it is, a time is handed to `field.Set` as `t.Unix()`)
    * `JSONSerializer.Value` (:106-116): the marshalled text, `"null"` → NULL (or `""` under NOT NULL);
      `JSONSerializer.Scan` (:77-103): a fresh zero value, unmarshalled into when the stored bytes are non-empty, ALWAYS
      assigned to the field
    * `GobSerializer.Value` / `Scan` (:149-176)
  encoding/json, encoding/gob and the time ↔ text conversion of the driver are NOT modelled: the JSON / gob codec is a
  parameter (`enc` / `dec`) and the theorems state exactly which codec laws the round trip needs.  Core Lean only.
-/
namespace Gorm.Ser

/-- what `Value` hands to database/sql and what `Scan` receives -/
inductive DBV where
  | null
  /-- `time.Unix(sec, 0).UTC()` -/
  | time (sec : Int)
  | text (s : String)
  | blob (b : List Nat)
  deriving DecidableEq, Repr, Inhabited

/-- a field with `serializer:unixtime`: a plain (signed) integer or a pointer to one -/
inductive UField where
  | val (n : Int)
  | ptr (p : Option Int)
  deriving DecidableEq, Repr, Inhabited

/-- the zero value of the field's Go type (what a fresh destination struct holds) -/
def UField.zero : UField → UField
  | .val _ => .val 0
  | .ptr _ => .ptr none

/-- serializer.go:128-143 -/
def unixValue : UField → DBV
  | .val n => .time n
  | .ptr none => .null                -- `rv.IsZero()` of the POINTER
  | .ptr (some n) => .time n

/-- serializer.go:119-125 into the field `cur`; `none` = error (`sql.NullTime.Scan` rejects the value; the sqlite3 driver
    hands a datetime column back as time.Time) -/
def unixScan (cur : UField) : DBV → Option UField
  | .null => some cur                  -- `t.Valid == false`: the field is not touched
  | .time n => some (match cur with
      | .val _ => .val n
      | .ptr _ => .ptr (some n))       -- field.Set with an int64: a pointer field gets a fresh pointer
  | _ => none

/-- Create → First into a fresh struct -/
def unixRoundTrip (f : UField) : Option UField := unixScan f.zero (unixValue f)

/-! ## json / gob: the decisions around the codec -/

/-- serializer.go:106-116 with `enc` = `json.Marshal(fieldValue)` -/
def jsonValue (notNull : Bool) (enc : String) : DBV :=
  if enc == "null" then (if notNull then .text "" else .null) else .text enc

/-- what Scan does with the fresh `reflect.New(field.FieldType)` before it ASSIGNS it to the field -/
inductive ScanAct where
  | zero
  | decode (bytes : String)
  | decodeBlob (b : List Nat)
  | error
  deriving DecidableEq, Repr, Inhabited

/-- serializer.go:77-103 for NULL / string / []byte values (other dynamic types are re-marshalled: not generated) -/
def jsonScan : DBV → ScanAct
  | .null => .zero
  | .text s => if s.isEmpty then .zero else .decode s
  | .blob b => if b.isEmpty then .zero else .decodeBlob b
  | .time _ => .error

/-- serializer.go:172-176: the encoder's bytes, whatever the value (a nil POINTER makes gob fail: `enc = none`) -/
def gobValue (enc : Option (List Nat)) : Option DBV := enc.map .blob

/-- serializer.go:152-169 -/
def gobScan : DBV → ScanAct
  | .null => .zero
  | .blob b => if b.isEmpty then .zero else .decodeBlob b
  | _ => .error

/-- a text codec for a Go type `α` -/
structure Codec (α : Type) where
  enc : α → String
  dec : String → Option α

/-- Create → First into a fresh struct for a `serializer:json` field -/
def jsonRoundTrip {α : Type} (c : Codec α) (zero : α) (notNull : Bool) (v : α) : Option α :=
  match jsonScan (jsonValue notNull (c.enc v)) with
  | .zero => some zero
  | .decode s => c.dec s
  | _ => none

end Gorm.Ser
