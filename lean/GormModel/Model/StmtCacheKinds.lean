/-
  WHICH POOL a handle holds when prepared-statement mode is enabled or used (C14, round 3).

  `Model/StmtCacheStore.lean` answers "how many cache objects / structs / maps"; this file answers "which connection pool
  does the registered cache WRAP, on which connection is a statement PREPARED, and on which connection does an operation
  RUN", for handles that are
    * on the pool given to `gorm.Open` (the dialector's `*sql.DB`, a custom `ConnPool` from `Config.ConnPool` / the
      dialector, or a plugin wrapper around it — all of them are the `root` base here),
    * PINNED to one `*sql.Conn` by `db.Connection(func(tx *gorm.DB) error {…})` (finisher_api.go:609-628:
          tx := db.getInstance(); sqlDB, err := tx.DB(); conn, err := sqlDB.Conn(ctx); defer conn.Close();
          tx.Statement.ConnPool = conn; return fc(tx)),
    * inside a transaction (`Begin` / `Transaction` / the default transaction of Create/Update/Delete), begun on the pool,
      on a pinned connection, or through `PreparedStmtDB.BeginTx`.

  Transcribed code:
    gorm.go Open (199-203)        preparedStmt := NewPreparedStmtDB(db.ConnPool); cacheStore.Store(key, preparedStmt); db.ConnPool = preparedStmt
    gorm.go DB.Session (265-289)  cacheStore.Load(key) / LoadOrStore(key, NewPreparedStmtDB(db.ConnPool));
                                  switch t := tx.Statement.ConnPool.(type) { case Tx: &PreparedStmtTX{Tx: t, PreparedStmtDB: preparedStmt}
                                  default: preparedStmt }; txConfig.ConnPool = tx.Statement.ConnPool
    prepare_stmt.go               PreparedStmtDB.Exec/Query: prepare(ctx, db.ConnPool, false, query), run the cached statement;
                                  PreparedStmtTX.Exec/Query: prepare(ctx, tx.Tx, true, query), run `tx.Tx.StmtContext(ctx, stmt.Stmt)`;
                                  prepare: hit iff an entry exists and `!stmt.Transaction || isTransaction`, else a new entry
                                  replaces whatever is cached under the text
    database/sql (assumption)     a statement prepared on a `*sql.Conn` / `*sql.Tx` is bound to it (`Stmt.cg`): executing it
                                  after the connection was released answers `sql: connection is already closed`, and that
                                  error is not ErrBadConn (the entry is never evicted); `Tx.StmtContext` re-prepares a
                                  statement that is bound to anything (`cg != nil`) on the transaction's own connection.

  `KCfg` is computed from REGENERATED facts (`Gen/StmtCacheKindFacts`, extract/gen_c14k.go): the argument of every
  `NewPreparedStmtDB(` call, the arms of the type switch in `DB.Session`, the pool a `PreparedStmtDB` literal gets, the
  connection argument of every `prepare(` call.
-/
import GormModel.Gen.StmtCacheKindFacts
import GormModel.Gen.StmtCacheStoreFacts
import GormModel.Gen.StmtCacheSessFacts
namespace Gorm.SCK

/-- what finally executes a statement -/
inductive Base
  | root                -- the pool `gorm.Open` was given (outlives every handle)
  | conn (k : Nat)      -- the k-th pinned `*sql.Conn` (released when its `Connection` callback returns)
  | tx (k : Nat)        -- the k-th transaction (ends with Commit / Rollback)
deriving DecidableEq, Repr

/-- a `ConnPool` value as `Config.ConnPool` / `Statement.ConnPool` of a handle -/
inductive KPool
  | raw (b : Base)              -- that object itself (or a delegating plugin wrapper around it)
  | pdb (s : Nat)               -- `*PreparedStmtDB` (struct `s`)
  | ptx (s : Nat) (t : Nat)     -- `&PreparedStmtTX{PreparedStmtDB: struct s, Tx: transaction t}`
deriving DecidableEq, Repr

/-- which pool expression a creation site passes on -/
inductive Arg
  | config                      -- `db.ConnPool` = `db.Config.ConnPool`
  | statement                   -- `tx.Statement.ConnPool` / the type-switch variable `t`
deriving DecidableEq, Repr

/-- what a prepared session gets outside a transaction -/
inductive SessPool
  | registered                  -- the registered `*PreparedStmtDB` (resp. a struct around `db.Config.ConnPool`)
  | aroundStatement             -- a struct sharing the registered cache whose ConnPool is the statement's CURRENT pool
deriving DecidableEq, Repr

structure KCfg where
  openArg : Arg := .config          -- Open: `NewPreparedStmtDB(db.ConnPool)`
  sessArg : Arg := .config          -- DB.Session: `NewPreparedStmtDB(db.ConnPool)`
  sessPool : SessPool := .registered
  txPrepOnTx : Bool := true         -- PreparedStmtTX: `prepare(ctx, tx.Tx, true, query)` (false: on the cache's own pool)
deriving DecidableEq, Repr

def good : KCfg := {}

structure KStruct where
  cache : Nat                       -- the cache object (Mux + map) it belongs to
  wraps : Base                      -- what its `ConnPool` field finally is
deriving DecidableEq, Repr

structure KEntry where
  cache : Nat
  text : Nat
  on : Base                         -- what the `*sql.Stmt` is bound to (`root`: `Stmt.cg == nil`, any pool connection)
  txFlag : Bool                     -- `Stmt.Transaction`
deriving DecidableEq, Repr

structure KHandle where
  cfg : KPool                       -- `Config.ConnPool`
  stmt : KPool                      -- `Statement.ConnPool`
  ghost : Base                      -- ghost: what the same derivation WITHOUT any PrepareStmt would run on
deriving DecidableEq, Repr

inductive Res
  | ok
  | connDone                        -- `sql: connection is already closed`
  | txDone                          -- `sql: transaction has already been committed or rolled back`
deriving DecidableEq, Repr

structure Outcome where
  h : Nat
  text : Nat
  ranOn : Base                      -- where the statement was executed
  want : Base                       -- ghost: where non-prepared mode executes it
  ownAlive : Bool                   -- ghost: the handle's own connection / transaction was still open
  res : Res
deriving DecidableEq, Repr

structure KWorld where
  cfg : KCfg := {}
  store : Option Nat := none        -- `cacheStore[preparedStmtDBKey]`
  nC : Nat := 0
  structs : List KStruct := []
  handles : List KHandle := []
  nConn : Nat := 0
  nTx : Nat := 0
  deadConn : List Nat := []
  deadTx : List Nat := []
  anon : List Nat := []             -- transactions gorm opened itself (default transaction of a write)
  entries : List KEntry := []
  log : List Outcome := []
  pinnedPrep : Bool := false        -- ghost: a prepared session was derived from a handle pinned to a connection (F14e)
deriving DecidableEq, Repr

inductive KOp
  | session (h : Nat) (prep : Bool)
  | begin (h : Nat)                 -- `Begin()` / `Transaction(func)` (on a transaction handle: SavePoint, same transaction)
  | connection (h : Nat)            -- the handle `Connection` passes to its callback
  | endTx (t : Nat)
  | endConn (c : Nat)
  | use (h : Nat) (q : Nat) (dtx : Bool)   -- one statement text through handle h; dtx: inside gorm's default transaction
  | reset (h : Nat)
deriving DecidableEq, Repr

def alive (w : KWorld) : Base → Bool
  | .root => true
  | .conn c => !w.deadConn.contains c
  | .tx t => !w.deadTx.contains t

def deadRes : Base → Res
  | .tx _ => .txDone
  | _ => .connDone

def baseOf (w : KWorld) : KPool → Base
  | .raw b => b
  | .pdb s => ((w.structs[s]?).map (·.wraps)).getD .root
  | .ptx _ t => .tx t

def txOf : KPool → Option Nat
  | .raw (.tx t) => some t
  | .ptx _ t => some t
  | _ => none

def cacheOfStruct (w : KWorld) (s : Nat) : Nat := ((w.structs[s]?).map (·.cache)).getD 0

/-- `NewPreparedStmtDB(pool)` -/
def newCache (w : KWorld) (b : Base) : KWorld × Nat :=
  ({ w with nC := w.nC + 1, structs := w.structs ++ [{ cache := w.nC, wraps := b }] }, w.structs.length)

def argPool (a : Arg) (hd : KHandle) : KPool :=
  match a with
  | .config => hd.cfg
  | .statement => hd.stmt

/-- gorm.go `Open` -/
def openK (cfg : KCfg) (prepare : Bool) : KWorld :=
  let w0 : KWorld := { cfg := cfg }
  if prepare then
    let (w1, s) := newCache w0 .root
    { w1 with store := some s, handles := [{ cfg := .pdb s, stmt := .pdb s, ghost := .root }] }
  else { w0 with handles := [{ cfg := .raw .root, stmt := .raw .root, ghost := .root }] }

/-- `Load` / `LoadOrStore(key, NewPreparedStmtDB(arg))` of `DB.Session` on handle `hd` -/
def lookupOrCreate (w : KWorld) (hd : KHandle) : KWorld × Nat :=
  match w.store with
  | some s => (w, s)
  | none =>
    let r := newCache w (baseOf w (argPool w.cfg.sessArg hd))
    ({ r.1 with store := some r.2 }, r.2)

def isPinned : KPool → Bool
  | .raw (.conn _) => true
  | _ => false

def sessionPrep (w : KWorld) (hd : KHandle) : KWorld :=
  let r := lookupOrCreate w hd
  let w1 := r.1
  match txOf hd.stmt with
  | some t =>
    { w1 with handles := w1.handles ++ [{ cfg := .ptx r.2 t, stmt := .ptx r.2 t, ghost := hd.ghost }] }
  | none =>
    let w2 : KWorld := { w1 with pinnedPrep := w1.pinnedPrep || isPinned hd.stmt }
    match w.cfg.sessPool with
    | .registered =>
      { w2 with handles := w2.handles ++ [{ cfg := .pdb r.2, stmt := .pdb r.2, ghost := hd.ghost }] }
    | .aroundStatement =>
      { w2 with structs := w2.structs ++ [{ cache := cacheOfStruct w2 r.2, wraps := baseOf w2 hd.stmt }],
                handles := w2.handles ++ [{ cfg := .pdb w2.structs.length, stmt := .pdb w2.structs.length, ghost := hd.ghost }] }

/-- the pool `Begin` leaves in `Statement.ConnPool` (finisher_api.go Begin; PreparedStmtDB.BeginTx) and the new world -/
def beginPool (w : KWorld) (p : KPool) : KWorld × KPool × Bool :=
  match p with
  | .raw (.tx t) => (w, .raw (.tx t), false)
  | .ptx s t => (w, .ptx s t, false)
  | .raw _ => ({ w with nTx := w.nTx + 1 }, .raw (.tx w.nTx), true)
  | .pdb s => ({ w with nTx := w.nTx + 1 }, .ptx s w.nTx, true)

/-- remove whatever is cached under (cache, text) -/
def dropEntry (es : List KEntry) (c q : Nat) : List KEntry := es.filter fun e => !(e.cache == c && e.text == q)

/-- one statement through pool `p` (prepare_stmt.go: the Exec/Query wrappers + `prepare`) -/
def runOn (w : KWorld) (h q : Nat) (p : KPool) (want : Base) : KWorld :=
  let own := alive w (baseOf w p)
  match p with
  | .raw b =>
    { w with log := w.log ++ [{ h := h, text := q, ranOn := b, want := want, ownAlive := own, res := if alive w b then .ok else deadRes b }] }
  | .pdb s =>
    let c := cacheOfStruct w s
    let pool := baseOf w (.pdb s)
    match w.entries.find? (fun e => e.cache == c && e.text == q && !e.txFlag) with
    | some e =>
      { w with log := w.log ++ [{ h := h, text := q, ranOn := e.on, want := want, ownAlive := own, res := if alive w e.on then .ok else deadRes e.on }] }
    | none =>
      if alive w pool then
        { w with entries := dropEntry w.entries c q ++ [{ cache := c, text := q, on := pool, txFlag := false }],
                 log := w.log ++ [{ h := h, text := q, ranOn := pool, want := want, ownAlive := own, res := .ok }] }
      else
        { w with entries := dropEntry w.entries c q,
                 log := w.log ++ [{ h := h, text := q, ranOn := pool, want := want, ownAlive := own, res := deadRes pool }] }
  | .ptx s t =>
    let c := cacheOfStruct w s
    let res : Res := if alive w (.tx t) then .ok else .txDone
    match w.entries.find? (fun e => e.cache == c && e.text == q) with
    | some _ =>
      -- `tx.Tx.StmtContext(ctx, stmt.Stmt)`: a pool-level statement is used on the transaction's connection, a bound one
      -- is re-prepared there
      { w with log := w.log ++ [{ h := h, text := q, ranOn := .tx t, want := want, ownAlive := own, res := res }] }
    | none =>
      let on : Base := if w.cfg.txPrepOnTx then .tx t else baseOf w (.pdb s)
      if alive w on then
        { w with entries := w.entries ++ [{ cache := c, text := q, on := on, txFlag := true }],
                 log := w.log ++ [{ h := h, text := q, ranOn := .tx t, want := want, ownAlive := own, res := res }] }
      else
        { w with log := w.log ++ [{ h := h, text := q, ranOn := .tx t, want := want, ownAlive := own, res := deadRes on }] }

def stepK (w : KWorld) : KOp → KWorld
  | .session h prep =>
    match w.handles[h]? with
    | none => w
    | some hd => if prep then sessionPrep w hd else { w with handles := w.handles ++ [hd] }
  | .begin h =>
    match w.handles[h]? with
    | none => w
    | some hd =>
      let r := beginPool w hd.stmt
      { r.1 with handles := r.1.handles ++ [{ cfg := hd.cfg, stmt := r.2.1, ghost := if r.2.2 then .tx w.nTx else hd.ghost }] }
  | .connection h =>
    match w.handles[h]? with
    | none => w
    | some hd =>
      if isPinned hd.stmt then w          -- `tx.DB()` answers ErrInvalidDB for a `*sql.Conn`: the callback is not run
      else { w with nConn := w.nConn + 1,
                    handles := w.handles ++ [{ cfg := hd.cfg, stmt := .raw (.conn w.nConn), ghost := .conn w.nConn }] }
  | .endTx t => { w with deadTx := t :: w.deadTx }
  | .endConn c => { w with deadConn := c :: w.deadConn }
  | .use h q dtx =>
    match w.handles[h]? with
    | none => w
    | some hd =>
      if dtx then
        let r := beginPool w hd.stmt
        if r.2.2 then
          let w1 := runOn { r.1 with anon := w.nTx :: r.1.anon } h q r.2.1 (.tx w.nTx)
          { w1 with deadTx := w.nTx :: w1.deadTx }
        else runOn w h q hd.stmt hd.ghost
      else runOn w h q hd.stmt hd.ghost
  | .reset h =>
    match w.handles[h]? with
    | some { stmt := .pdb s, .. } => { w with entries := w.entries.filter fun e => !(e.cache == cacheOfStruct w s) }
    | _ => w

def runK (cfg : KCfg) (prepare : Bool) (seq : List KOp) : KWorld := seq.foldl stepK (openK cfg prepare)

/-! ### the configuration of the CURRENT source tree -/

open Gen in
/-- `db.ConnPool` / `db.Config.ConnPool` of the function's own `db` (the receiver of `DB.Session`, the value `Open` builds) -/
def isConfigPool (a : NewCacheArg) : Bool :=
  a.arg == "db.ConnPool" || a.arg == "db.Config.ConnPool"

open Gen in
def genKCfg : KCfg :=
  let inOpen := newCacheArgs.filter (·.fn == "Open")
  let inSess := newCacheArgs.filter (·.fn == "DB.Session")
  let arms := (switchArms.filter fun a => a.fn == "DB.Session" && a.subject == "tx.Statement.ConnPool").map (·.types)
  let field (l : CacheLit) (k : String) : String := ((l.fields.find? (·.1 == k)).map (·.2)).getD ""
  -- struct literals `PreparedStmtDB{…}` outside the constructor: their ConnPool must be the configured pool
  let lits := cacheLits.filter fun l => l.typ == "PreparedStmtDB" && l.fn != "NewPreparedStmtDB"
  -- calls made through a PreparedStmtTX (`tx.PreparedStmtDB.prepare(…)`), i.e. not on the method's own receiver
  let txCalls := prepareCalls.filter fun c => c.on != c.recv
  { openArg := if !inOpen.isEmpty && inOpen.all isConfigPool then .config else .statement,
    sessArg := if !inSess.isEmpty && inSess.all isConfigPool then .config else .statement,
    sessPool := if arms == ["Tx", "default"] &&
                   lits.all (fun l => field l "ConnPool" == "db.Config.ConnPool" || field l "ConnPool" == "db.ConnPool") &&
                   newCacheArgs.all (fun a => a.fn == "Open" || a.fn == "DB.Session")
                then .registered else .aroundStatement,
    txPrepOnTx := !txCalls.isEmpty && txCalls.all fun c => c.conn == c.recv ++ ".Tx" && c.isTx == "true" }

end Gorm.SCK
