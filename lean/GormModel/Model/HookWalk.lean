/-
  C13 (round 5) — callbacks/callmethod.go `callMethod`, slice/array arm, with the statement's element register
  `Statement.CurDestIndex` explicit, and statement.go `Statement.SetColumn` (hook mode) / `Statement.Changed`, which
  address "the record this hook is running for" as `stmt.ReflectValue.Index(stmt.CurDestIndex)`.

      case reflect.Slice, reflect.Array:
          db.Statement.CurDestIndex = 0                                  -- `rewind`  (Gen.cmRewind)
          for i := 0; i < db.Statement.ReflectValue.Len(); i++ {
              if value := reflect.Indirect(…Index(i)); value.CanAddr() {
                  fc(value.Addr().Interface(), tx)                       -- the hook(s) of element i run here
              } else { db.AddError(gorm.ErrInvalidValue); return }
              db.Statement.CurDestIndex++                                -- `advance` (Gen.cmAdvance)
          }

  The register lives in the Statement, and one Statement is walked SEVERAL times: by the before-hook callback and the
  after-hook callback of one operation, and again by every further operation issued through a kept chain handle
  (`h := db.Model(&slice)`; clone 0: the finisher reuses the Statement).  `walks` threads the register through a
  sequence of walks.  Core Lean only.
-/
import GormModel.Model.Hooks
import GormModel.Gen.HookWalk
namespace Gorm

/-- how the slice arm of `callMethod` treats `Statement.CurDestIndex` (regenerated: Gen.cmRewind / Gen.cmAdvance) -/
structure WalkCfg where
  rewind : Bool    -- `db.Statement.CurDestIndex = 0` is executed before the loop
  advance : Bool   -- `db.Statement.CurDestIndex++` closes every completed iteration
deriving Repr, DecidableEq

/-- one closure invocation of a walk: `elem` = the element the hooks are called FOR (loop variable `i`), `cur` = the
    element `Statement.SetColumn` / `Statement.Changed` address while they run (`CurDestIndex` at that time) -/
structure WalkCall where
  elem : Nat
  cur : Nat
deriving Repr, DecidableEq

/-- the loop from position `i` with register `cur` over the addressability flags of the remaining elements; returns the
    invocations and the register the Statement is left with -/
def walkLoop (adv : Bool) : List Bool → Nat → Nat → List WalkCall × Nat
  | [], _, cur => ([], cur)
  | a :: rest, i, cur =>
    if a then
      let r := walkLoop adv rest (i + 1) (if adv then cur + 1 else cur)
      (⟨i, cur⟩ :: r.1, r.2)
    else ([], cur)       -- AddError(ErrInvalidValue); return -- the register keeps its value

/-- one `callMethod` over a slice whose container does not implement the hook itself -/
def walk (c : WalkCfg) (addr : List Bool) (cur : Nat) : List WalkCall × Nat :=
  walkLoop c.advance addr 0 (if c.rewind then 0 else cur)

/-- successive walks over ONE Statement (before-hooks, after-hooks, the next operation on a kept handle, …); each entry
    of the list is the slice (addressability flags) at the time of that walk -/
def walks (c : WalkCfg) : List (List Bool) → Nat → List (List WalkCall)
  | [], _ => []
  | a :: rest, cur => let r := walk c a cur; r.1 :: walks c rest r.2

/-- statement.go SetColumn (hook mode, slice destination): `field.Set(ctx, stmt.ReflectValue.Index(stmt.CurDestIndex), v)`
    -- `none` = reflect panics ("slice index out of range"); otherwise element `cur` receives `v` -/
def setColumnAt {α : Type} (vals : List α) (cur : Nat) (v : α) : Option (List α) :=
  if cur < vals.length then some (vals.set cur v) else none

/-- a walk whose hook for element `i` calls `SetColumn(col, f i)`: the column after the walk, `none` = a hook panicked -/
def walkSet {α : Type} (f : Nat → α) : List WalkCall → List α → Option (List α)
  | [], vals => some vals
  | k :: rest, vals => (setColumnAt vals k.cur (f k.elem)).bind (walkSet f rest)

/-- every invocation addresses its own element, which lies inside the slice -/
def walkAligned (len : Nat) (w : List WalkCall) : Prop := ∀ k ∈ w, k.cur = k.elem ∧ k.cur < len

instance (len : Nat) (w : List WalkCall) : Decidable (walkAligned len w) := by
  unfold walkAligned; infer_instance

/-- all walks of a history aligned with their slices -/
def walksAligned : List (List Bool) → List (List WalkCall) → Prop
  | [], [] => True
  | a :: as, w :: ws => walkAligned a.length w ∧ walksAligned as ws
  | _, _ => False

/-- the configuration the tree under check has (regenerated facts) -/
def genWalkCfg : WalkCfg := ⟨Gen.cmRewind, Gen.cmAdvance⟩

end Gorm
