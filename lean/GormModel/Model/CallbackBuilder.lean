/-
  Model of the registration BUILDER of callbacks.go: how one registration request is built before it reaches
  `compile` --

      p.Before(x) / p.After(x) / p.Match(fc)            starters   (`&callback{…: …, processor: p}`)
        .Before(y) / .After(y) …                        chain methods of `*callback`, any number, any order
        .Register(name, fn) / .Replace(name, fn) / .Remove(name)     finishers (set fields of the receiver, append the
                                                        receiver to `p.callbacks`, `return p.compile()`)
      p.Register / p.Replace / p.Remove                 = `(&callback{processor: p}).X(…)`

  The bodies of these methods are NOT transcribed by hand: each method is a table "field of the returned builder ->
  where its value comes from" REGENERATED from the source (extract/gen_c17_builder.go -> Gen/CallbackBuilderFacts.lean),
  and the functions below interpret those tables. `BuilderFacts.canonical` is what the pinned tree says.
-/
import GormModel.Model.Callbacks
import GormModel.Gen.CallbackBuilderFacts
namespace Gorm
namespace CbB

/-- where a field of the builder returned by a method comes from -/
inductive Src where
  | keep     -- the receiver's value
  | param0   -- the method's first parameter
  | param1   -- the method's second parameter
  | zero     -- the zero value
  | tru      -- the literal `true`
  | recv     -- (field `processor` of a starter) the processor the method was called on
  | other    -- not understood by the reader (treated as `keep` when executed; never well-formed)
deriving Repr, DecidableEq

def Src.ofString : String → Src
  | "keep" => .keep
  | "param0" => .param0
  | "param1" => .param1
  | "zero" => .zero
  | "true" => .tru
  | "recv" => .recv
  | _ => .other

/-- the value of a `*callback` under construction (`processor` is fixed per chain and not represented; `mtch` =
    `none` for a nil `match`, `some v` for a predicate evaluating to `v`; `handler` = identity of the handler) -/
structure Bld where
  name    : String := ""
  before  : String := ""
  after   : String := ""
  remove  : Bool := false
  replace : Bool := false
  mtch    : Option Bool := none
  handler : Option Nat := none
deriving Repr, DecidableEq

/-- one method of the builder API: per field of the returned builder its source -/
structure Shape where
  name    : Src := .keep
  before  : Src := .keep
  after   : Src := .keep
  remove  : Src := .keep
  replace : Src := .keep
  mtch    : Src := .keep
  handler : Src := .keep
  proc    : Src := .keep
deriving Repr, DecidableEq

def lookupSrc (t : List (String × String)) (f : String) : Src :=
  match t.find? (fun p => p.1 == f) with
  | some p => Src.ofString p.2
  | none => .other

def Shape.ofTable (t : List (String × String)) : Shape :=
  { name := lookupSrc t "name", before := lookupSrc t "before", after := lookupSrc t "after",
    remove := lookupSrc t "remove", replace := lookupSrc t "replace", mtch := lookupSrc t "match",
    handler := lookupSrc t "handler", proc := lookupSrc t "processor" }

/-- arguments of a builder-API call: `Before(s)`, `After(s)`, `Match(pred)`, `Register(s, handler)`, … -/
structure BArgs where
  s    : String := ""
  pred : Option Bool := none
  hid  : Nat := 0

def Src.str (src : Src) (a : BArgs) (old : String) : String :=
  match src with
  | .param0 => a.s
  | .zero => ""
  | _ => old

def Src.bool (src : Src) (old : Bool) : Bool :=
  match src with
  | .zero => false
  | .tru => true
  | _ => old

def Src.pred (src : Src) (a : BArgs) (old : Option Bool) : Option Bool :=
  match src with
  | .param0 => a.pred
  | .zero => none
  | _ => old

def Src.hnd (src : Src) (a : BArgs) (old : Option Nat) : Option Nat :=
  match src with
  | .param1 => some a.hid
  | .zero => none
  | _ => old

/-- run one method on a builder: every field of the result from its source -/
def Shape.apply (sh : Shape) (a : BArgs) (b : Bld) : Bld :=
  { name := sh.name.str a b.name, before := sh.before.str a b.before, after := sh.after.str a b.after,
    remove := sh.remove.bool b.remove, replace := sh.replace.bool b.replace,
    mtch := sh.mtch.pred a b.mtch, handler := sh.handler.hnd a b.handler }

/-- the regenerated tables of the whole builder API -/
structure BuilderFacts where
  procBefore : Shape
  procAfter  : Shape
  procMatch  : Shape
  procPlain  : Shape        -- the `&callback{processor: p}` of `p.Register/Replace/Remove`
  cbBefore   : Shape
  cbAfter    : Shape
  cbRegister : Shape
  cbReplace  : Shape
  cbRemove   : Shape
  /-- `Before`/`After` of `*callback` return a builder other than the receiver -/
  beforeFresh : Bool := false
  afterFresh  : Bool := false
  /-- the receiver after `Before`/`After` (when they return the receiver this is the table above) -/
  cbBeforeRecv : Shape := {}
  cbAfterRecv  : Shape := {}
  /-- every finisher is: field assignments, ONE append of the receiver to `p.callbacks`, `return p.compile()`;
      `p.Register/Replace/Remove` delegate to the finisher of the same name with their parameters in order -/
  finishersPlain : Bool := true
  /-- no other chain method exists on `*callback` -/
  noOtherChainMethods : Bool := true
deriving Repr, DecidableEq

/-- a starter: everything zero except one field taken from the parameter (`processor` = the receiver `p`) -/
def starter (f : String) : Shape :=
  { name := .zero, before := if f = "before" then .param0 else .zero, after := if f = "after" then .param0 else .zero,
    remove := .zero, replace := .zero, mtch := if f = "match" then .param0 else .zero, handler := .zero, proc := .recv }

/-- what the pinned tree's callbacks.go says -/
def BuilderFacts.canonical : BuilderFacts :=
  { procBefore := starter "before", procAfter := starter "after", procMatch := starter "match", procPlain := starter "",
    cbBefore := { before := .param0 }, cbAfter := { after := .param0 },
    cbRegister := { name := .param0, handler := .param1 },
    cbReplace := { name := .param0, handler := .param1, replace := .tru },
    cbRemove := { name := .param0, remove := .tru },
    cbBeforeRecv := { before := .param0 }, cbAfterRecv := { after := .param0 } }

/-- the tables of the tree under check (regenerated) -/
def treeBuilder : BuilderFacts :=
  { procBefore := Shape.ofTable Gen.procBefore, procAfter := Shape.ofTable Gen.procAfter,
    procMatch := Shape.ofTable Gen.procMatch,
    procPlain := Shape.ofTable Gen.procRegister,
    cbBefore := Shape.ofTable Gen.cbBefore, cbAfter := Shape.ofTable Gen.cbAfter,
    cbRegister := Shape.ofTable Gen.cbRegister, cbReplace := Shape.ofTable Gen.cbReplace,
    cbRemove := Shape.ofTable Gen.cbRemove,
    beforeFresh := Gen.cbBeforeFresh, afterFresh := Gen.cbAfterFresh,
    cbBeforeRecv := Shape.ofTable Gen.cbBeforeRecv, cbAfterRecv := Shape.ofTable Gen.cbAfterRecv,
    finishersPlain := Gen.cbRegisterTail && Gen.cbReplaceTail && Gen.cbRemoveTail &&
      Gen.procRegister == Gen.procReplace && Gen.procRegister == Gen.procRemove &&
      Gen.procRegisterDelegate == "Register" && Gen.procReplaceDelegate == "Replace" && Gen.procRemoveDelegate == "Remove" &&
      Gen.procRegisterArgsInOrder && Gen.procReplaceArgsInOrder && Gen.procRemoveArgsInOrder &&
      Gen.procBeforeFresh && Gen.procAfterFresh && Gen.procMatchFresh,
    noOtherChainMethods := Gen.cbOtherChainMethods.isEmpty }

/-! ## chains -/

/-- how a chain starts -/
inductive Start where
  | plain                      -- `p.Register/Replace/Remove(…)` directly
  | before (x : String)        -- `p.Before(x)`
  | after (x : String)         -- `p.After(x)`
  | mtch (pred : Option Bool)  -- `p.Match(fc)` (`none` = `Match(nil)`)
deriving Repr, DecidableEq

inductive Step where
  | before (x : String)        -- `.Before(x)`
  | after (x : String)         -- `.After(x)`
deriving Repr, DecidableEq

inductive Finish where
  | register (name : String) (hid : Nat)
  | replace (name : String) (hid : Nat)
  | remove (name : String)
deriving Repr, DecidableEq

structure Chain where
  start : Start
  steps : List Step
  fin   : Finish
deriving Repr, DecidableEq

def Start.run (T : BuilderFacts) : Start → Bld
  | .plain => T.procPlain.apply {} {}
  | .before x => T.procBefore.apply { s := x } {}
  | .after x => T.procAfter.apply { s := x } {}
  | .mtch p => T.procMatch.apply { pred := p } {}

def Step.run (T : BuilderFacts) (b : Bld) : Step → Bld
  | .before x => T.cbBefore.apply { s := x } b
  | .after x => T.cbAfter.apply { s := x } b

def Finish.run (T : BuilderFacts) (b : Bld) : Finish → Bld
  | .register n h => T.cbRegister.apply { s := n, hid := h } b
  | .replace n h => T.cbReplace.apply { s := n, hid := h } b
  | .remove n => T.cbRemove.apply { s := n } b

/-- the builder a chain hands to its finisher -/
def Chain.builder (T : BuilderFacts) (ch : Chain) : Bld :=
  ch.steps.foldl (Step.run T) (ch.start.run T)

/-- the record the finisher appends to `p.callbacks` -/
def Chain.record (T : BuilderFacts) (ch : Chain) : Bld :=
  ch.fin.run T (ch.builder T)

/-- the RECEIVER after a chain method whose result is thrown away (`b := p.Before(x); b.After(y); b.Register(…)`) -/
def Step.runRecv (T : BuilderFacts) (b : Bld) : Step → Bld
  | .before x => T.cbBeforeRecv.apply { s := x } b
  | .after x => T.cbAfterRecv.apply { s := x } b

/-- the record registered when every chain method is called on the starter's value and its result dropped -/
def Chain.recordDropped (T : BuilderFacts) (ch : Chain) : Bld :=
  ch.fin.run T (ch.steps.foldl (Step.runRecv T) (ch.start.run T))

/-- the record as the sorter sees it (`match` evaluated: nil = true; a nil handler has identity 0) -/
def Bld.toCb (b : Bld) : Cb :=
  { name := b.name, before := b.before, after := b.after, remove := b.remove, replace := b.replace,
    matchOk := b.mtch.getD true, hid := b.handler.getD 0 }

/-! ## the request a chain SPELLS (reference semantics, independent of the tables) -/

/-- the argument of the LAST `Before` of the chain (starter included), "" if there is none -/
def Chain.lastBefore (ch : Chain) : String :=
  ch.steps.foldl (fun acc s => match s with | .before x => x | .after _ => acc)
    (match ch.start with | .before x => x | _ => "")

def Chain.lastAfter (ch : Chain) : String :=
  ch.steps.foldl (fun acc s => match s with | .after x => x | .before _ => acc)
    (match ch.start with | .after x => x | _ => "")

/-- the predicate of the starter (`Match` exists on `*processor` only) -/
def Chain.pred (ch : Chain) : Option Bool :=
  match ch.start with | .mtch p => p | _ => none

/-- the record a chain asks for: last Before, last After, the Match, and the finisher's own fields -/
def Chain.request (ch : Chain) : Bld :=
  let b : Bld := { before := ch.lastBefore, after := ch.lastAfter, mtch := ch.pred }
  match ch.fin with
  | .register n h => { b with name := n, handler := some h }
  | .replace n h => { b with name := n, handler := some h, replace := true }
  | .remove n => { b with name := n, remove := true }

end CbB
open CbB

/-! ## running chains on a processor -/

/-- `p.callbacks = append(p.callbacks, c); return p.compile()` for an arbitrary record -/
def Proc.applyCbR (r : CbRepairs) (p : Proc) (c : Cb) : Proc × Option SortErr :=
  ({ p with callbacks := p.callbacks ++ [c] }).compileR r

def Proc.runCbsR (r : CbRepairs) (p : Proc) (cs : List Cb) : Proc × List (Option SortErr) :=
  cs.foldl (fun (acc : Proc × List (Option SortErr)) c =>
    let (p', e) := acc.1.applyCbR r c
    (p', acc.2 ++ [e])) (p, [])

/-- a history of chains on the tree under check -/
def Proc.runChains (T : BuilderFacts) (r : CbRepairs) (p : Proc) (chs : List Chain) : Proc × List (Option SortErr) :=
  p.runCbsR r (chs.map (fun ch => (ch.record T).toCb))

/-- `processor.Get(name)`: the handler of the last record of that name that is not a Remove record -/
def Proc.get (p : Proc) (name : String) : Option Nat :=
  (p.callbacks.reverse.find? (fun c => c.name == name && !c.remove)).map (·.hid)

/-! ## pointer identity: a builder VALUE used for more than one finisher

  `p.callbacks` is a slice of POINTERS; a finisher mutates its receiver and appends the receiver itself. `cells` are
  the `*callback` values ever created, `table` is `p.callbacks` as pointers (before `compile` filters/reorders it). -/

structure PtrTable where
  cells : List Bld := []
  table : List Nat := []
deriving Repr, DecidableEq

/-- what `compile` reads: the records behind the pointers -/
def PtrTable.view (t : PtrTable) : List Bld := t.table.filterMap (fun i => t.cells[i]?)

/-- a starter/chain allocates a new cell and returns its pointer -/
def PtrTable.alloc (t : PtrTable) (b : Bld) : PtrTable × Nat :=
  ({ t with cells := t.cells ++ [b] }, t.cells.length)

/-- a finisher through pointer `i`: mutate the cell, append the pointer -/
def PtrTable.finish (T : BuilderFacts) (t : PtrTable) (i : Nat) (f : Finish) : PtrTable :=
  { cells := t.cells.modify i (fun b => f.run T b), table := t.table ++ [i] }

end Gorm
