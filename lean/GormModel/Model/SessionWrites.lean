/-
  C06 (round 2) — which fields of the RECEIVER a `db.Session(&Session{…})` call writes.

  gorm.go `Session()` starts with `tx := &DB{Config: &txConfig, Statement: db.Statement, clone: 1}`: the new
  handle's `Statement` field IS the receiver's statement object until `tx.Statement = tx.Statement.clone()`
  runs.  Every later `tx.Statement.F = …` therefore writes the receiver (and every other handle sharing that
  statement) unless the clone has happened first.  This file runs the REGENERATED body of `Session()`
  (`Gen.sessionBody`: every simple statement with its path condition, extract/c18.go) symbolically for a
  valuation of the Session flags and records every field written through `tx.Statement` while it is still shared,
  every direct write to `db.…`, the clone mode of the result and whether it ends up with a private statement.
  Nothing about WHICH statements exist or under which guards is written down here.
-/
import GormModel.Model.Handle
namespace Gorm

/-- what one assignment target of a statement of `Session()` means for the receiver -/
inductive WAct where
  | init (cfgCopy : Bool)   -- `tx = &DB{Config: &txConfig, Statement: db.Statement, …, clone: 1}`
  | cloneStmt               -- `tx.Statement = tx.Statement.clone()`
  | stmtField (f : String)  -- `tx.Statement.F = …`  (writes the receiver's statement while it is shared)
  | recvWrite (p : String)  -- `db.… = …`
  | setClone2               -- `tx.clone = 2`
  | getInst                 -- `tx = tx.getInstance()`
  | ret                     -- `return tx`
  | priv                    -- locals, `txConfig.…`, `tx.Config.…` (tx.Config = &txConfig, a copy)
  | unknown (src : String)
deriving Repr, DecidableEq

def joinDots : List String → String
  | [] => ""
  | [a] => a
  | a :: r => a ++ "." ++ joinDots r

/-- classification of ONE assigned expression `w` of statement `s` -/
def classifyTarget (s : GStmt) (w : List String) : WAct :=
  match w with
  | ["tx"] =>
    if s.rhs == ["&DB{}"] && s.lit.contains ("Statement", "db.Statement") && s.lit.contains ("clone", "1") then
      .init (s.lit.contains ("Config", "&txConfig"))
    else if s.rhs == ["tx.getInstance()"] then .getInst
    else .unknown s.src
  | ["tx", "Statement"] => if s.rhs == ["tx.Statement.clone()"] then .cloneStmt else .unknown s.src
  | ["tx", "clone"] => if s.rhs == ["2"] then .setClone2 else .unknown s.src
  | "tx" :: "Statement" :: rest => .stmtField (joinDots rest)
  | "tx" :: "Config" :: _ :: _ => .priv
  | ["tx", "Config"] => .unknown s.src
  | "tx" :: _ => .unknown s.src
  | "db" :: rest => .recvWrite (joinDots ("db" :: rest))
  | "config" :: _ => .unknown s.src
  | _ => .priv

def classifyW (s : GStmt) : List WAct :=
  if s.kind == "return" then (if s.rhs == ["tx"] then [.ret] else [.unknown s.src])
  else s.writes.map (classifyTarget s)

def WAct.isPriv : WAct → Bool
  | .priv => true
  | _ => false

/-- `Session()` reduced to the statements that can matter for the receiver, guards resolved -/
def sessWProg : List (List CCond × WAct) :=
  Gen.sessionBody.flatMap (fun s =>
    ((classifyW s).filter (fun a => !a.isPriv)).map (fun a => (s.path.map SrcCond.compile, a)))

structure WState where
  shared : Bool := false        -- tx.Statement is still the receiver's statement object
  clone : Nat := 0
  inited : Bool := false
  cfgPrivate : Bool := false
  returned : Bool := false
  sharedWrites : List String := []
  bad : List String := []
deriving Repr, DecidableEq

/-- can the path hold?  (a condition the model cannot evaluate — the type switch on the ConnPool — may) -/
def mayPath (fl : SessFlags) (p : List CCond) : Bool := p.all (fun c => c.eval fl != some false)

def WState.exec (st : WState) (fl : SessFlags) (ga : List CCond × WAct) : WState :=
  if st.returned then st else
  match ga.2 with
  | .stmtField f =>
    if mayPath fl ga.1 then
      (if !st.inited then { st with bad := st.bad ++ ["tx.Statement." ++ f ++ " written before tx exists"] }
       else if st.shared then { st with sharedWrites := st.sharedWrites ++ ["Statement." ++ f] } else st)
    else st
  | .recvWrite p => if mayPath fl ga.1 then { st with sharedWrites := st.sharedWrites ++ [p] } else st
  | .unknown s => if mayPath fl ga.1 then { st with bad := st.bad ++ [s] } else st
  | .priv => st
  | a =>
    match evalCPath fl ga.1 with
    | some false => st
    | none => { st with bad := st.bad ++ ["structural statement under a condition the model cannot evaluate"] }
    | some true =>
      match a with
      | .init c => { st with shared := true, clone := 1, inited := true, cfgPrivate := c }
      | .cloneStmt => if st.inited then { st with shared := false } else { st with bad := st.bad ++ ["clone before init"] }
      | .setClone2 => { st with clone := 2 }
      | .getInst => if st.clone = 0 then st else { st with shared := false, clone := 0 }
      | .ret => { st with returned := true }
      | _ => st

def runW (prog : List (List CCond × WAct)) (fl : SessFlags) : WState :=
  prog.foldl (fun st ga => st.exec fl ga) {}

/-- summary of one `Session(&Session{…})` call with these flag values -/
def sessW (fl : SessFlags) : WState := runW sessWProg fl

/-- every flag some guard of the reduced program tests -/
def wFlags : List (List CCond × WAct) → List SessFlag
  | [] => []
  | ga :: rest => pathFlags ga.1 ++ wFlags rest

/-- the flags the guards of the statement-relevant part of `Session()` test on the unchanged tree -/
def wTested : List SessFlag := [.hasContext, .prepareStmt, .skipHooks, .newDB, .initialized]

/-- `tx.Config` is a private copy: the body starts with `txConfig = *db.Config`, the handle literal takes
    `&txConfig`, and nothing re-points `tx.Config` / `txConfig` afterwards -/
def sessConfigPrivate : Bool :=
  (Gen.sessionBody.head?.map (·.src)) == some "txConfig = *db.Config" &&
  Gen.sessionBody.any (fun s => s.lhs == [["tx"]] && s.lit.contains ("Config", "&txConfig")) &&
  (Gen.sessionBody.filter (fun s => s.writes.contains ["txConfig"] || s.writes.contains ["tx", "Config"])).length == 1

/-- gorm.go `getInstance()`: every assigned expression of every statement starts with the NEW handle `tx` -/
def getInstanceWritesOnlyTx : Bool :=
  Gen.getInstanceBody.all (fun s => s.writes.all (fun w => w.head? == some "tx"))

def flagOfName : String → Option SessFlag
  | "DryRun" => some .dryRun
  | "PrepareStmt" => some .prepareStmt
  | "NewDB" => some .newDB
  | "Initialized" => some .initialized
  | "SkipHooks" => some .skipHooks
  | "SkipDefaultTransaction" => some .skipDefaultTransaction
  | "DisableNestedTransaction" => some .disableNestedTransaction
  | "AllowGlobalUpdate" => some .allowGlobalUpdate
  | "FullSaveAssociations" => some .fullSaveAssociations
  | "PropagateUnscoped" => some .propagateUnscoped
  | "QueryFields" => some .queryFields
  | "Context" => some .hasContext
  | "Logger" => some .hasLogger
  | "NowFunc" => some .hasNowFunc
  | "CreateBatchSize" => some .batchSizePos
  | _ => none

end Gorm
