/-
  Model of the query SHAPING done by the read finishers of finisher_api.go over an abstract table
  (`tbl` = keys in key order; WHERE = `WUnit`s, ORDER BY = `OrdCol`s, LIMIT clause state = `Option Limit`):

    Find    : the chain as it is                                        (finisher_api.go Find)
    First   : `db.Limit(1).Order(pk)`        + RaiseErrorOnNotFound     (First)
    Last    : `db.Limit(1).Order(pk DESC)`   + RaiseErrorOnNotFound     (Last)
    Take    : `db.Limit(1)`                  + RaiseErrorOnNotFound     (Take)
    Count   : SELECT count(*), ORDER BY removed (no GROUP BY), LIMIT/OFFSET KEPT; `*count` is the scanned
              value if exactly one row came back, else RowsAffected; SELECT and ORDER BY are put back on the
              returned handle                                           (Count)
    Pluck   : the chain with one selected column                        (Pluck)
    Scan    : Rows() + at most one ScanRows for a non-slice destination (Scan / ScanRows / scan.go Scan)

  `Limit(1)` / `Order(col)` are the chain methods: `Limit.merge` (Model/Limit.lean) resp. append
  (clause/order_by.go MergeClause without Reorder).  Tied to the code by the `paths.shape` correspondence suite
  (the SQL each finisher sends, decomposed into order columns / limit / offset, and the handle it returns).
-/
import GormModel.Model.Limit
import GormModel.Model.Batches
namespace Gorm

/-- the part of `Statement` the read paths look at -/
structure Chain where
  units : List WUnit := []
  order : List OrdCol := []
  lim   : Option Limit := none

/-- `db.Limit(n)` / `db.Offset(n)` -/
def Chain.limit (c : Chain) (n : Int) : Chain := { c with lim := some ((LimCall.limit n).toLimit.merge c.lim) }
def Chain.offset (c : Chain) (n : Int) : Chain := { c with lim := some ((LimCall.offset n).toLimit.merge c.lim) }
/-- `db.Order(col)` -/
def Chain.orderBy (c : Chain) (col : OrdCol) : Chain := { c with order := c.order ++ [col] }

/-- rows matching the chain's WHERE, in key order -/
def Chain.matching (tbl : List Nat) (c : Chain) : List Nat := matchingW tbl c.units

/-- the rows the chain's SELECT returns, in delivery order -/
def Chain.run (tbl : List Nat) (c : Chain) : List Nat :=
  queryW tbl c.units c.order (effLimitOf c.lim) (effOffsetOf c.lim) none

/-- what a finisher reports -/
structure ReadOut where
  rows : List Nat            -- keys delivered to the destination, in order
  rowsAffected : Int
  notFound : Bool            -- ErrRecordNotFound
deriving Repr, DecidableEq

/-- callbacks/query.go + scan.go for a slice / map-slice destination: every row, never ErrRecordNotFound -/
def Chain.find (tbl : List Nat) (c : Chain) : ReadOut :=
  let r := c.run tbl
  { rows := r, rowsAffected := r.length, notFound := false }

/-- scan.go for a single struct/map destination with `RaiseErrorOnNotFound`:
    the first row (if any); `RowsAffected == 0` raises ErrRecordNotFound -/
def single (r : List Nat) : ReadOut :=
  { rows := r.take 1, rowsAffected := (r.take 1).length, notFound := r.isEmpty }

def Chain.first (tbl : List Nat) (c : Chain) : ReadOut := single (((c.limit 1).orderBy pkAsc).run tbl)
def Chain.last  (tbl : List Nat) (c : Chain) : ReadOut := single (((c.limit 1).orderBy pkDesc).run tbl)
def Chain.take  (tbl : List Nat) (c : Chain) : ReadOut := single ((c.limit 1).run tbl)

/-- `Pluck(col, &slice)`: one value per row of the chain -/
def Chain.pluck {α : Type} (tbl : List Nat) (c : Chain) (col : Nat → α) : List α := (c.run tbl).map col

/-- `Scan(&struct)` / `Scan(&primitive)`: first row of the chain AS IT IS (no LIMIT 1 added),
    RowsAffected 1 or 0, never ErrRecordNotFound -/
def Chain.scanOne (tbl : List Nat) (c : Chain) : ReadOut :=
  let r := c.run tbl
  { rows := r.take 1, rowsAffected := (r.take 1).length, notFound := false }

/-- the single-row result set of `SELECT count(*) … LIMIT l OFFSET o` -/
def countRows (m : Nat) (lim : Option Limit) : List Nat := window [m] (effLimitOf lim) (effOffsetOf lim)

/-- `Count(&n)` (no GROUP BY): `if tx.RowsAffected != 1 { *count = tx.RowsAffected }` -/
def Chain.count (tbl : List Nat) (c : Chain) : Nat :=
  let m := (c.matching tbl).length
  let out := countRows m c.lim
  if out.length = 1 then out.headD 0 else out.length

/-- the chains whose SELECT the single-record finders send (and which the handle they return carries) -/
def Chain.firstChain (c : Chain) : Chain := (c.limit 1).orderBy pkAsc
def Chain.lastChain (c : Chain) : Chain := (c.limit 1).orderBy pkDesc
def Chain.takeChain (c : Chain) : Chain := c.limit 1

/-- what the recording driver sees of a chain's SELECT: ORDER BY columns (identity, DESC), LIMIT, OFFSET -/
def Chain.shape (c : Chain) : List (Nat × Bool) × Option Int × Option Int :=
  (c.order.map (fun o => (o.tag, o.desc)), effLimitOf c.lim, effOffsetOf c.lim)

/-- the chain state of the handle `Count` returns: SELECT and ORDER BY are restored by the deferred funcs,
    WHERE / LIMIT were never touched -/
def Chain.afterCount (c : Chain) : Chain := c

/-- ORDER BY of the query `Count` sends (no GROUP BY): none -/
def Chain.countQueryOrder (_c : Chain) : List OrdCol := []

/-- the chain whose SELECT `Count` sends -/
def Chain.countChain (c : Chain) : Chain := { c with order := c.countQueryOrder }

end Gorm
