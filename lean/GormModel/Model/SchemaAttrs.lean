/-
  Model.SchemaAttrs — (C03, round 4) FIELD DECLARATIONS → the schema attributes the create path depends on.

  What is transcribed (statement by statement, for the attributes named below only):
    * schema/utils.go  `ParseTagSetting` (split on `;` with `\;` escapes, `KEY:value`, upper-cased trimmed key, a bare
      key is its own value) — `parseTagSetting`;  utils/utils.go `CheckTruth` — `checkTruth`
    * schema/field.go  `ParseField`: COLUMN, PRIMARYKEY / PRIMARY_KEY, AUTOINCREMENT, AUTOINCREMENTINCREMENT, DEFAULT (which
      default texts gorm turns into a Go value = `DefaultValueInterface`, which ones stay a DATABASE default), serializer →
      DataType, AUTOCREATETIME / AUTOUPDATETIME (+ the CreatedAt / UpdatedAt name convention), TYPE, the permission tags
      `-`, `->`, `<-` in the order of the source, and the EMBEDDED / anonymous branch (BindNames, embeddedPrefix, the reset
      of a CONVENTIONAL key of the embedded struct, tag inheritance) — `parseField`, `adjust`, `collect`
    * schema/schema.go `ParseWithSpecialTableName`: default column names, the registration loop (Model.Scan section vi) with
      `PrimaryFields`, the PRIORITIZED PRIMARY FIELD (`LookUpField("id")`, `LookUpField("ID")`, single / auto-increment
      primary field), `FieldsWithDefaultDBValue` and the auto-increment inference for an integer prioritized key — `finish`
    * callbacks/create.go `Create` (RETURNING list) and `ConvertToCreateValues` (INSERT column list of a struct / a slice
      WITH the create permission, statement.go `SelectAndOmitColumns(true,false)`) — `returningList`, `insertColsA`

  Supplied by the harness (not modelled): the Go kind class of a field type after Valuer unwrapping, whether the type is
  its own serializer, and `namer.ColumnName` of every Go name.  ASCII only (Go's ToUpper/ToLower/EqualFold are Unicode).
  Core Lean only.
-/
import GormModel.Model.Scan
namespace Gorm.Attrs
open Gorm.Scan

/-! ## (0) the fragments of Go's `strings` that the parsers use -/

def lowerC (c : Char) : Char := if 'A' ≤ c ∧ c ≤ 'Z' then Char.ofNat (c.toNat + 32) else c
def upperC (c : Char) : Char := if 'a' ≤ c ∧ c ≤ 'z' then Char.ofNat (c.toNat - 32) else c
def lower (s : String) : String := String.ofList (s.toList.map lowerC)
def upper (s : String) : String := String.ofList (s.toList.map upperC)
def isSpace (c : Char) : Bool := c == ' ' || c == '\t' || c == '\n' || c == '\r'
def trimSpace (s : String) : String :=
  String.ofList ((s.toList.dropWhile isSpace).reverse.dropWhile isSpace).reverse
/-- `strings.Trim(s, string(ch))` -/
def trimChar (ch : Char) (s : String) : String :=
  String.ofList ((s.toList.dropWhile (· == ch)).reverse.dropWhile (· == ch)).reverse
def hasSub : List Char → List Char → Bool
  | [], sub => sub.isEmpty
  | c :: r, sub => sub.isPrefixOf (c :: r) || hasSub r sub
/-- `strings.Contains` -/
def contains (s sub : String) : Bool := hasSub s.toList sub.toList
def equalFold (a b : String) : Bool := lower a == lower b
/-- `strings.Split(s, string(sep))` (`acc` = the current piece, reversed) -/
def splitC (sep : Char) : List Char → List Char → List (List Char)
  | [], acc => [acc.reverse]
  | c :: r, acc => if c == sep then acc.reverse :: splitC sep r [] else splitC sep r (c :: acc)
def joinC (sep : Char) : List (List Char) → List Char
  | [] => []
  | [a] => a
  | a :: r => a ++ sep :: joinC sep r

/-! ## (i) schema/utils.go `ParseTagSetting`, utils/utils.go `CheckTruth` -/

/-- `map[string]string` in insertion order; a key occurs once (`setTag` = map assignment) -/
abbrev Tags := List (String × String)

def setTag (t : Tags) (k v : String) : Tags := t.filter (fun p => p.1 != k) ++ [(k, v)]
def tagGet? (t : Tags) (k : String) : Option String := (t.find? (fun p => p.1 == k)).map (·.2)
/-- `settings[k]` ("" when absent) -/
def tagGet (t : Tags) (k : String) : String := (tagGet? t k).getD ""
def hasTag (t : Tags) (k : String) : Bool := (tagGet? t k).isSome

/-- utils.go:20-32: a piece that ends in `\` swallows the separator and the next piece (`cur` = the piece being merged).
    (A trailing `\` at the very end of the tag makes the Go code index out of range: not generated, left as is here.) -/
def mergeEscAux : Option (List Char) → List (List Char) → List (List Char)
  | none, [] => []
  | some p, [] => [p]
  | cur, q :: rest =>
    let p := match cur with
      | none => q
      | some p => p.dropLast ++ ';' :: q
    if p.getLast? == some '\\' then mergeEscAux (some p) rest else p :: mergeEscAux none rest

def mergeEsc (l : List (List Char)) : List (List Char) := mergeEscAux none l

/-- utils.go:16-45 with `sep = ";"` -/
def parseTagSetting (s : String) : Tags :=
  (mergeEsc (splitC ';' s.toList [])).foldl (fun t part =>
    match splitC ':' part [] with
    | [] => t
    | k :: vs =>
      let key := trimSpace (upper (String.ofList k))
      if !vs.isEmpty then setTag t key (String.ofList (joinC ':' vs))
      else if key != "" then setTag t key key else t) []

/-- utils.go `CheckTruth`: some value is non-empty and not (any spelling of) "false" -/
def checkTruth (vals : List String) : Bool := vals.any (fun v => v != "" && !equalFold v "false")

/-! ## (ii) schema/field.go `ParseField` -/

/-- `reflect.Indirect(fieldValue).Kind()` class at field.go:233 (after pointer and Valuer unwrapping); `other` = a struct
    that is not a time, a map, a non-byte slice, … -/
inductive Kind | bool | int | uint | float | string | time | bytes | other
  deriving DecidableEq, Repr, Inhabited

/-- `schema.DataType` classes; `none` = "" -/
inductive DT | none | bool | int | uint | float | string | time | bytes
  deriving DecidableEq, Repr, Inhabited

/-- `field.DefaultValueInterface` when it is not nil -/
inductive DefVal | bool (b : Bool) | int (n : Int) | str (s : String) | float
  deriving DecidableEq, Repr, Inhabited

/-- `schema.TimeType`: 0, UnixTime, UnixSecond, UnixMillisecond, UnixNanosecond -/
inductive TT | none | unixTime | sec | milli | nano
  deriving DecidableEq, Repr, Inhabited

/-- one column-backed (or ignored) struct field as the harness declares it -/
structure Leaf where
  name : String
  kind : Kind
  /-- the text of the `gorm:"…"` tag -/
  tag : String
  /-- `namer.ColumnName(table, name)` (supplied) -/
  defCol : String
  /-- the type implements `schema.SerializerInterface` itself (field.go:187) -/
  selfSer : Bool := false
  /-- the Go type is a pointer or an `sql.Null*` wrapper: `field.Set` of a literal default makes it non-zero (non-nil /
      `Valid`), whatever the literal -/
  ptr : Bool := false
  deriving Repr, Inhabited

/-- the attributes of a parsed `*schema.Field` that the create path reads -/
structure AField where
  name : String
  dbName : String := ""
  defCol : String := ""
  /-- `BindNames` -/
  path : List String := []
  gormDT : DT := .none
  /-- `DataType != ""`: the field is backed by a column -/
  typed : Bool := false
  primaryKey : Bool := false
  autoInc : Bool := false
  autoIncInc : Int := 1
  hasDefault : Bool := false
  defaultValue : String := ""
  defaultIface : Option DefVal := none
  ptr : Bool := false
  creatable : Bool := true
  updatable : Bool := true
  readable : Bool := true
  autoCreate : TT := .none
  autoUpdate : TT := .none
  ignoreMigration : Bool := false
  /-- `TagSettings` as later code reads them (an embedded field inherits the tags of the embedding field) -/
  tags : Tags := []
  /-- `schema.err` was set while parsing this field -/
  bad : Bool := false
  /-- the declaration leaves the modelled fragment (octal / hex default literals, time literals …) -/
  unmodelled : Bool := false
  deriving Repr, Inhabited

def AField.perm (f : AField) : Bool := f.creatable || f.updatable || f.readable

/-- the bytes of an ASCII string -/
def strBytes (s : String) : List Nat := s.toList.map (·.toNat)

/-- strconv.ParseBool with its error -/
def parseBoolE (s : String) : Option Bool :=
  if s == "1" || s == "t" || s == "T" || s == "TRUE" || s == "true" || s == "True" then some true
  else if s == "0" || s == "f" || s == "F" || s == "FALSE" || s == "false" || s == "False" then some false
  else none

/-- plain decimal float literal `[+-]digits[.digits]` (the modelled fragment of strconv.ParseFloat) -/
def isSimpleFloat (s : String) : Bool :=
  let body := match s.toList with
    | '-' :: r => r
    | '+' :: r => r
    | l => l
  match splitC '.' body [] with
  | [a] => !a.isEmpty && a.all Char.isDigit
  | [a, b] => !a.isEmpty && a.all Char.isDigit && !b.isEmpty && b.all Char.isDigit
  | _ => false

structure DefParse where
  iface : Option DefVal := none
  value : String
  bad : Bool := false
  unmodelled : Bool := false

/-- field.go:229-286: which `default:` texts become a Go value.  `dv` is already trimmed. -/
def parseDefault (k : Kind) (hasDefault : Bool) (dv : String) : DefParse :=
  let skip := (contains dv "(" && contains dv ")") || lower dv == "null" || dv == ""
  if !hasDefault || skip then { value := dv }
  else match k with
    | .bool => match parseBoolE dv with
      | some b => { iface := some (.bool b), value := dv }
      | none => { value := dv, bad := true }
    | .int => match parseDec true (strBytes dv) with
      | .ok n => if -(2 : Int) ^ 63 ≤ n ∧ n < (2 : Int) ^ 63 then { iface := some (.int n), value := dv } else { value := dv, bad := true }
      | .syntaxErr => { value := dv, bad := true }
      | .unmodelled => { value := dv, unmodelled := true }
    | .uint => match parseDec false (strBytes dv) with
      | .ok n => if n < (2 : Int) ^ 64 then { iface := some (.int n), value := dv } else { value := dv, bad := true }
      | .syntaxErr => { value := dv, bad := true }
      | .unmodelled => { value := dv, unmodelled := true }
    | .float => if isSimpleFloat dv then { iface := some .float, value := dv } else { value := dv, unmodelled := true }
    | .string =>
      let v := trimChar '"' (trimChar '\'' dv)
      { iface := some (.str v), value := v }
    | .time => { value := dv, unmodelled := dv != "CURRENT_TIMESTAMP" }   -- now.Parse fails on it: stays a DB default
    | .bytes | .other => { value := dv }

def kindDT : Kind → DT → DT
  | .bool, _ => .bool | .int, _ => .int | .uint, _ => .uint | .float, _ => .float | .string, _ => .string
  | .time, _ => .time
  | .bytes, d => if d == .none then .bytes else d
  | .other, d => d

def parseIntOr0 (s : String) : Int :=
  match parseDec true (strBytes s) with
  | .ok n => n
  | _ => 0

/-- field.go:292-314 for one of AUTOCREATETIME / AUTOUPDATETIME (`conv` = the CreatedAt / UpdatedAt name convention) -/
def autoTime (t : Tags) (key : String) (conv : Bool) (dt : DT) : TT :=
  let v := tagGet t key
  let on := match tagGet? t key with
    | some x => checkTruth [x]
    | none => conv && (dt == .time || dt == .int || dt == .uint)
  if !on then .none
  else if dt == .time then .unixTime
  else if upper v == "NANO" then .nano
  else if upper v == "MILLI" then .milli
  else .sec

/-- field.go:342-385: the permission tags in source order -/
def perms (t : Tags) (typed : Bool) : Bool × Bool × Bool × Bool × Bool :=
  let (c, u, r, typed, ign) := match tagGet? t "-" with
    | some v =>
      let v := lower (trimSpace v)
      if v == "-" then (false, false, false, false, false)
      else if v == "all" then (false, false, false, false, true)
      else (true, true, true, typed, v == "migration")
    | none => (true, true, true, typed, false)
  let (c, u, r) := match tagGet? t "->" with
    | some v => (false, false, !(lower v == "false"))
    | none => (c, u, r)
  let (c, u) := match tagGet? t "<-" with
    | some v => if v == "<-" then (true, true) else (contains v "create", contains v "update")
    | none => (c, u)
  (c, u, r, typed, ign)

/-- field.go:106-385 for a field that is not embedded -/
def parseField (l : Leaf) : AField :=
  let t := parseTagSetting l.tag
  let autoIncTag := checkTruth [tagGet t "AUTOINCREMENT"]
  let serName := if tagGet t "JSON" != "" then tagGet t "JSON" else tagGet t "SERIALIZER"
  let serKnown := lower serName == "json" || lower serName == "gob" || lower serName == "unixtime"
  let dt0 : DT := if l.selfSer || (serName != "" && serKnown) then .string else .none
  let bad0 := !l.selfSer && serName != "" && !serKnown
  let inc : Int := match tagGet? t "AUTOINCREMENTINCREMENT" with
    | some v => parseIntOr0 v
    | none => 1
  let hasDef := autoIncTag || hasTag t "DEFAULT"
  let dp := parseDefault l.kind hasDef (trimSpace (tagGet t "DEFAULT"))
  let dt := kindDT l.kind dt0
  let typed0 := match tagGet? t "TYPE" with
    | some v => v != ""
    | none => dt != .none
  let (c, u, r, typed, ign) := perms t typed0
  { name := l.name, dbName := tagGet t "COLUMN", defCol := l.defCol, path := [l.name], gormDT := dt, typed := typed,
    primaryKey := checkTruth [tagGet t "PRIMARYKEY", tagGet t "PRIMARY_KEY"],
    autoInc := autoIncTag, autoIncInc := inc, hasDefault := hasDef, defaultValue := dp.value, defaultIface := dp.iface,
    creatable := c, updatable := u, readable := r, ptr := l.ptr,
    autoCreate := autoTime t "AUTOCREATETIME" (l.name == "CreatedAt") dt,
    autoUpdate := autoTime t "AUTOUPDATETIME" (l.name == "UpdatedAt") dt,
    ignoreMigration := ign, tags := t, bad := bad0 || dp.bad, unmodelled := dp.unmodelled }

/-- field.go:404-439: what the embedding field `name` (tags `t`) does to a field of the embedded schema -/
def adjust (name : String) (t : Tags) (ef : AField) : AField :=
  let ef := { ef with path := name :: ef.path }
  let ef := match tagGet? t "EMBEDDEDPREFIX" with
    | some p => if ef.dbName != "" then { ef with dbName := p ++ ef.dbName } else ef
    | none => ef
  let ef :=
    if ef.primaryKey && !checkTruth [tagGet ef.tags "PRIMARYKEY", tagGet ef.tags "PRIMARY_KEY"] then
      let ai := match tagGet? ef.tags "AUTOINCREMENT" with
        | some v => if checkTruth [v] then ef.autoInc else false
        | none => false
      { ef with primaryKey := false, autoInc := ai, hasDefault := if !ai && ef.defaultValue == "" then false else ef.hasDefault }
    else ef
  { ef with tags := t.foldl (fun acc kv => setTag acc kv.1 kv.2) ef.tags }

/-! ## (iii) schema/schema.go `ParseWithSpecialTableName`, after the field loop -/

structure SchemaAttrs where
  /-- `schema.Fields` with their final attributes -/
  fields : List AField := []
  dbNames : List String := []
  /-- `FieldsByDBName` as indices into `fields` -/
  byDB : List (String × Nat) := []
  /-- the values of `FieldsByName` as indices into `fields` (one per bound Go name) -/
  byName : List Nat := []
  primaryFields : List Nat := []
  prioritized : Option Nat := none
  /-- `FieldsWithDefaultDBValue` as indices into `fields` -/
  withDefaultDB : List Nat := []
  deriving Repr, Inhabited

def toPField (f : AField) : PField String :=
  { name := f.name, dbName := if f.dbName == "" then none else some f.dbName, depth := f.path.length,
    perm := f.perm, ignored := tagGet f.tags "-" == "-" }

/-- schema.go:213-216 -/
def nameCols (fs : List AField) : List AField :=
  fs.map (fun f => if f.dbName == "" && f.typed then { f with dbName := f.defCol } else f)

def isPrimary (fs : List AField) (j : Nat) : Bool := ((nth? fs j).map (·.primaryKey)).getD false

/-- schema.go:229-239 inside the registration loop: `st` = the maps BEFORE field `i` is registered -/
def primStep (fs : List AField) (st : Reg String) (prims : List Nat) (i : Nat) (f : AField) : List Nat :=
  if f.dbName == "" then prims
  else match assoc f.dbName st.byDB with
    | none => if f.primaryKey then prims ++ [i] else prims
    | some v =>
      if f.perm && f.path.length < v.2.depth then
        let p := if isPrimary fs v.1 then prims.filter (· != v.1) else prims
        if f.primaryKey then p ++ [i] else p
      else prims

def primsFrom (all : List AField) : Nat → List AField → Reg String → List Nat → List Nat
  | _, [], _, prims => prims
  | i, f :: fs, st, prims => primsFrom all (i + 1) fs (regStep st (i, toPField f)) (primStep all st prims i f)

def setNth {β : Type} : List β → Nat → β → List β
  | [], _, _ => []
  | _ :: l, 0, x => x :: l
  | a :: l, n + 1, x => a :: setNth l n x

/-- `field.DataType != "" && field.HasDefaultValue && field.DefaultValueInterface == nil` (schema.go:287) -/
def AField.dbDefault (f : AField) : Bool := f.typed && f.hasDefault && f.defaultIface.isNone

/-- indices (from `k` on) of the fields that satisfy `p`, in order -/
def idxFilterFrom (p : AField → Bool) : Nat → List AField → List Nat
  | _, [] => []
  | k, f :: fs => if p f then k :: idxFilterFrom p (k + 1) fs else idxFilterFrom p (k + 1) fs

def idxFilter (p : AField → Bool) (fs : List AField) : List Nat := idxFilterFrom p 0 fs

/-- schema.go:253-256: `LookUpField("id")`, else `LookUpField("ID")` (column names first, Go field names second) -/
def keyCandidate (st : Reg String) : Option Nat :=
  match lookUpField st "id" with
  | some i => some i
  | none => lookUpField st "ID"

/-- the field at index `i` is backed by a column (`DBName != ""`) -/
def hasColumn (fs : List AField) (i : Nat) : Bool := ((nth? fs i).map (fun f => f.dbName != "")).getD false

/-- schema.go:253-280: the prioritized primary field.  Returns (fields, primaryFields, prioritized).
    `needCol` (regenerated fact `Gen.priorityNeedsColumn`, extract/gen_c03_priority.go): the `if` in front of the
    conventional-key block also demands `prioritizedPrimaryField.DBName != ""` — the repair of finding F28; a field that
    `LookUpField` found through its Go name but that has no column (`gorm:"-"`) is then no key candidate at all. -/
def prioritize (needCol : Bool) (fs : List AField) (st : Reg String) (prims : List Nat) : List AField × List Nat × Option Nat :=
  let cand := match keyCandidate st with
    | some i => if needCol && !hasColumn fs i then none else some i
    | none => none
  let (fs, prims, prio) := match cand with
    | some i =>
      if isPrimary fs i then (fs, prims, some i)
      else if prims.isEmpty then
        (match nth? fs i with
          | some f => setNth fs i { f with primaryKey := true }
          | none => fs, [i], some i)
      else (fs, prims, none)
    | none => (fs, prims, none)
  let prio := match prio with
    | some i => some i
    | none =>
      match prims with
      | [i] => some i
      | [] => none
      | _ => prims.find? (fun i => ((nth? fs i).map (·.autoInc)).getD false)
  (fs, prims, prio)

/-- schema.go:286-304: `FieldsWithDefaultDBValue`, then the auto-increment inference for an integer prioritized key
    (which appends the key LAST unless it is already listed as a field with a database default) -/
def defaultsStep (fs : List AField) (prio : Option Nat) : List AField × List Nat :=
  let base := idxFilter AField.dbDefault fs
  match prio with
  | none => (fs, base)
  | some p =>
    match nth? fs p with
    | none => (fs, base)
    | some f =>
      if (f.gormDT == .int || f.gormDT == .uint) && !hasTag f.tags "AUTOINCREMENT" then
        (setNth fs p { f with hasDefault := true, autoInc := true },
          if !f.hasDefault || f.defaultIface.isSome then base ++ [p] else base)
      else (fs, base)

/-- `ParseWithSpecialTableName` after the field loop, for the flattened fields `fs0` (`needCol`: see `prioritize`) -/
def finish (needCol : Bool) (fs0 : List AField) : SchemaAttrs :=
  let fs1 := nameCols fs0
  let st := parseReg (fs1.map toPField)
  let pr := prioritize needCol fs1 st (primsFrom fs1 0 fs1 {} [])
  let ds := defaultsStep pr.1 pr.2.2
  { fields := ds.1, dbNames := st.dbNames, byDB := st.dbNames.filterMap (fun c => (assoc c st.byDB).map (fun e => (c, e.1))),
    byName := (st.byName.map (·.1)).eraseDups.filterMap (fun n => (assoc n st.byName).map (·.1)),
    primaryFields := pr.2.1, prioritized := pr.2.2, withDefaultDB := ds.2 }

/-! ## (iv) a struct declaration (first child / next sibling, as Model.Scan.EDecl) and its parse -/

inductive Decl where
  | nil
  | leaf (l : Leaf) (next : Decl)
  /-- a struct-typed field: `anon` = Go anonymous field; embedded when it carries the `embedded` tag or is anonymous
      with some permission (field.go:388-389) -/
  | embed (name : String) (anon : Bool) (tag : String) (kids : Decl) (next : Decl)
  deriving Repr, Inhabited

/-- `schema.Fields` before the schema-level steps: schema.go:203-211 + the embedded branch of ParseField, which parses
    the embedded struct as a schema of its own (`finish`) and then adjusts its fields -/
def collect (needCol : Bool) : Decl → List AField
  | .nil => []
  | .leaf l next => parseField l :: collect needCol next
  | .embed name anon tag kids next =>
    let t := parseTagSetting tag
    let (c, u, r, _, _) := perms t false
    if hasTag t "EMBEDDED" || (anon && (c || u || r)) then
      (finish needCol (collect needCol kids)).fields.map (adjust name t) ++ collect needCol next
    else
      -- not embedded: a struct field without column (a relation candidate; not generated)
      { name := name, path := [name], creatable := c, updatable := u, readable := r, tags := t } :: collect needCol next

def parseDecl (needCol : Bool) (d : Decl) : SchemaAttrs := finish needCol (collect needCol d)

def SchemaAttrs.bad (s : SchemaAttrs) : Bool := s.fields.any (·.bad)
def SchemaAttrs.unmodelled (s : SchemaAttrs) : Bool := s.fields.any (·.unmodelled)

/-! ## (v) callbacks/create.go: RETURNING list and INSERT column list from the attributes -/

def withDefaultNames (s : SchemaAttrs) : List String :=
  s.withDefaultDB.filterMap (fun i => (nth? s.fields i).map (·.dbName))

/-- create.go:52-60 -/
def returningList (support : Bool) (s : SchemaAttrs) : Option (List String) :=
  if support && !s.withDefaultDB.isEmpty then some (withDefaultNames s) else none

def owner? (s : SchemaAttrs) (c : String) : Option AField := (assoc c s.byDB).bind (fun i => nth? s.fields i)

/-- statement.go:732-745 `SelectAndOmitColumns(true, false)` without Select/Omit: every field bound in `FieldsByName` that
    has no create permission maps ITS COLUMN — its Go name when it has no column — to false; create.go then looks the
    map up by column name -/
def blocked (s : SchemaAttrs) (c : String) : Bool :=
  s.byName.any (fun i => match nth? s.fields i with
    | some g => !g.creatable && (if g.dbName == "" then g.name else g.dbName) == c
    | none => false)

/-- create.go:261-267 without Select/Omit: a column is listed when its field has no default or a literal one AND the
    column is not blocked -/
def baseColsA (s : SchemaAttrs) : List String :=
  s.dbNames.filter (fun c => match owner? s c with
    | some f => (!f.hasDefault || f.defaultIface.isSome) && !blocked s c
    | none => false)

def DefVal.nonzero : DefVal → Bool
  | .bool b => b
  | .int n => n != 0
  | .str v => v != ""
  | .float => true

/-- create.go:348-355 (struct; `&& DefaultValueInterface == nil`) and :306-329 (slice; no such test): the DB-default
    columns that are non-zero in the record / in some element and not blocked.  In the slice branch the base-column loop
    has already SUBSTITUTED a literal default into a zero field (create.go:293-295) when this loop looks at it: an integer
    prioritized key with a literal default is then non-zero and its column is listed a second time. -/
def extraColsA (single : Bool) (s : SchemaAttrs) (nonzero : Nat → Bool) : List String :=
  s.withDefaultDB.filterMap (fun i => match nth? s.fields i with
    | some f =>
      let substituted := !single && (baseColsA s).contains f.dbName && ((f.defaultIface.map (fun d => d.nonzero || f.ptr)).getD false)
      if !blocked s f.dbName && (!single || f.defaultIface.isNone) && (nonzero i || substituted) then some f.dbName else none
    | none => none)

def insertColsA (single : Bool) (s : SchemaAttrs) (nonzero : Nat → Bool) : List String :=
  baseColsA s ++ extraColsA single s nonzero

/-! ## (vi) callbacks/helper.go: Create from MAPS — which keys become columns, what is written for them

  `ConvertMapToValuesForCreate` (one `map[string]interface{}` / `*map…`) and `ConvertSliceOfMapToValuesForCreate`
  (`[]map…` / `*[]map…`).  Neither function looks at a VALUE: whatever the caller put under a key — an untyped nil, a
  typed nil pointer, a zero, anything — is handed to the INSERT as it is (`nil` → NULL); a key the map does not hold is
  not mentioned in the INSERT of a single map (the column's DEFAULT applies) and is bound as `nil` in a slice of maps when
  another element mentions the column.  `V` = the value alphabet (opaque). -/

/-- `Schema.LookUpField(k)` over the final registries: `FieldsByDBName[k]`, else `FieldsByName[k]` -/
def lookUpA (s : SchemaAttrs) (k : String) : Option AField :=
  match assoc k s.byDB with
  | some i => nth? s.fields i
  | none => (s.byName.filterMap (nth? s.fields)).find? (fun f => f.name == k)

/-- helper.go:24-28 / :60-64: the column a map key is written to (`none` = the statement has no schema: `Table("t")` only).
    A key that names a field WITHOUT column is rewritten to the empty column name, as the Go code does. -/
def mapKeyCol (s : Option SchemaAttrs) (k : String) : String :=
  match s with
  | none => k
  | some s => match lookUpA s k with
    | some f => f.dbName
    | none => k

/-- statement.go:695-720 `processColumn` for a plain name (no `*`, no `table.column`, no association): the column of
    the field it names when that field has one, else the name itself -/
def selCol (s : Option SchemaAttrs) (n : String) : String :=
  match s with
  | none => n
  | some s => match lookUpA s n with
    | some f => if f.dbName != "" then f.dbName else n
    | none => n

/-- statement.go `SelectAndOmitColumns(true, false)` looked up as helper.go:30 / :67 do:
    `if v, ok := selectColumns[k]; (ok && v) || (!ok && !restricted)`.  The map is written Selects first, Omits second,
    the fields without create permission last (later writes win). -/
def mapColAllowed (s : Option SchemaAttrs) (selects omits : List String) (c : String) : Bool :=
  let isBlocked := match s with
    | none => false
    | some s => blocked s c
  if isBlocked then false
  else if omits.any (fun n => selCol s n == c) then false
  else if selects.any (fun n => selCol s n == c) then true
  else selects.isEmpty

/-- `sort.Strings` (insertion sort; strings compare as their byte sequences — ASCII here) -/
def insertStr (x : String) : List String → List String
  | [] => [x]
  | y :: l => if x ≤ y then x :: y :: l else y :: insertStr x l
def sortStrings : List String → List String
  | [] => []
  | x :: l => insertStr x (sortStrings l)

def insertEnt {V : Type} (x : String × V) : List (String × V) → List (String × V)
  | [] => [x]
  | y :: l => if x.1 ≤ y.1 then x :: y :: l else y :: insertEnt x l
/-- helper.go:16-20: the entries of the map in the order of `sort.Strings(keys)` (keys of a Go map are distinct) -/
def sortEnts {V : Type} : List (String × V) → List (String × V)
  | [] => []
  | x :: l => insertEnt x (sortEnts l)

/-- helper.go:12-41 `ConvertMapToValuesForCreate`: (column, value) of the single VALUES row, in the order of the INSERT -/
def mapCreateOne {V : Type} (s : Option SchemaAttrs) (selects omits : List String) (m : List (String × V)) : List (String × V) :=
  (sortEnts m).filterMap (fun e =>
    let c := mapKeyCol s e.1
    if mapColAllowed s selects omits c then some (c, e.2) else none)

/-- helper.go:58-75: the columns of `ConvertSliceOfMapToValuesForCreate` (every allowed column some element mentions,
    sorted) -/
def mapCreateCols {V : Type} (s : Option SchemaAttrs) (selects omits : List String) (ms : List (List (String × V))) : List String :=
  sortStrings ((((ms.map (fun m => m.map (fun e => mapKeyCol s e.1))).flatten).filter (mapColAllowed s selects omits)).eraseDups)

/-- helper.go:76-90: the VALUES row of element `m`: under every column the value of the key that is written to it, `none`
    (= Go nil, bound as NULL) when the element has no such key.  (Two keys of ONE element that name the same column — a
    column name next to its Go field name — are written in Go's map iteration order: not modelled, not generated.) -/
def mapCreateRow {V : Type} (s : Option SchemaAttrs) (cols : List String) (m : List (String × V)) : List (Option V) :=
  cols.map (fun c => (m.find? (fun e => mapKeyCol s e.1 == c)).map (·.2))

def mapCreateMany {V : Type} (s : Option SchemaAttrs) (selects omits : List String) (ms : List (List (String × V))) :
    List String × List (List (Option V)) :=
  let cols := mapCreateCols s selects omits ms
  (cols, ms.map (mapCreateRow s cols))

end Gorm.Attrs
