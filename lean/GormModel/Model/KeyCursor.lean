/-
  C15 round 4 — FindInBatches over tables whose primary key is NOT one unique column: the key cursor.

  finisher_api.go FindInBatches, loop body after a full batch (no LIMIT on the chain):

      if result.Statement.Schema.PrioritizedPrimaryField == nil { tx.AddError(ErrPrimaryKeyRequired); break }
      primaryValue, zero := PrioritizedPrimaryField.ValueOf(last element of the batch)
      if zero { tx.AddError(ErrPrimaryKeyRequired); break }
      queryDB = tx.Clauses(clause.Gt{Column: pk, Value: primaryValue})

  A table is the list of its rows in the order `ORDER BY <cursor column>` delivers them, each row = (identity,
  value of the cursor column) — the cursor column is the prioritized primary field (schema/schema.go: the field
  named ID if it is a key, else the only key column, else the auto-increment member of a composite key) or, when there
  is none, the first column of the schema (statement.go QuoteTo of clause.PrimaryKey).  `cursor = false` is a schema
  without prioritized primary field (composite key without ID / auto-increment member, or no key at all).

  Which field the loop reads the cursor value from, and that a nil field ends the loop with ErrPrimaryKeyRequired, is
  REGENERATED (extract/gen_c15c.go → Gen/ReadSelectFacts.lean findInBatchesCursor*).  Tied to the code by the
  `keys.batches` correspondence (batches, error and query count of the real FindInBatches on generated key shapes).
-/
namespace Gorm.KeyCursor

structure KOut where
  batches : List (List Nat) := []   -- row identities handed to the callback, per batch
  pkRequired : Bool := false        -- ErrPrimaryKeyRequired
  fuelOut : Bool := false
deriving DecidableEq, Repr

/-- rows the next query returns: `WHERE cursorcol > c` (none: first query), in table order, LIMIT batch -/
def nextBatch (rows : List (Nat × Nat)) (batch : Nat) (c : Option Nat) : List (Nat × Nat) :=
  (rows.filter (fun r => match c with | none => true | some k => decide (k < r.2))).take batch

def lastKey (b : List (Nat × Nat)) : Nat := (b.getLast?.map (·.2)).getD 0

/-- the loop; `cursor` = the schema has a prioritized primary field -/
def batchesK (cursor : Bool) (rows : List (Nat × Nat)) (batch : Nat) : Nat → Option Nat → KOut
  | 0, _ => { fuelOut := true }
  | fuel + 1, c =>
    let b := nextBatch rows batch c
    if b.isEmpty then {}                                        -- RowsAffected 0 < batchSize: break, no callback
    else if b.length < batch then { batches := [b.map (·.1)] }  -- short batch: break
    else if !cursor then { batches := [b.map (·.1)], pkRequired := true }
    else if lastKey b = 0 then { batches := [b.map (·.1)], pkRequired := true }   -- zero key value
    else
      let rest := batchesK cursor rows batch fuel (some (lastKey b))
      { rest with batches := (b.map (·.1)) :: rest.batches }

def KOut.delivered (o : KOut) : List Nat := o.batches.flatten

/-- the cursor the loop uses for a schema, given the regenerated shape of the loop: `fallback` = "when the schema
    has no prioritized primary field the loop goes on with another column" (the tree the property needs: false) -/
def cursorFor (fallback : Bool) (hasPrioritized : Bool) : Bool := hasPrioritized || fallback

end Gorm.KeyCursor
