/-
  C16 (round 2) — two pieces of code the first model did not reach:

  A. `clause.OnConflict` as the STRUCT it is (clause/on_conflict.go: Columns, Where, TargetWhere, OnConstraint,
     DoNothing, DoUpdates, UpdateAll), gorm's own rewriting of it (callbacks/create.go ConvertToCreateValues,
     the `OnConflict.UpdateAll` block l.348-392), its rendering (`OnConflict.Build`) and what the rendered rule does
     to the conflicting row (`DO UPDATE SET … WHERE guard`: SQLite / PostgreSQL semantics, right-hand sides are
     evaluated against the stored row and `excluded.*`, the rightmost assignment of a column wins).

  B. finisher_api.go `Save` under the chain modifiers it reads: `Statement.Selects` / `Statement.Omits`
     (`selectedUpdate`, the appended "*", the upsert fallback) with callbacks/update.go ConvertToAssignments
     (struct branch, Dest == Model). WHICH statement fields make an update "selected" is not written here: it is
     the parameter `SaveCfg`, instantiated by `genSaveCfg` from the regenerated `Gen.saveSelectedReads`.
-/
import GormModel.Model.Upsert
import GormModel.Gen.UpsertFacts
namespace Gorm.Upsert

/-! ### A. the ON CONFLICT clause, field by field -/

/-- right-hand sides / guard operands: a column of the stored row, a column of `excluded`, a literal, a sum
    (`gorm.Expr("t.qty + excluded.qty")`, `gorm.Expr("t.qty + ?", n)`) -/
inductive Term where
  | old (c : Nat)
  | exc (c : Nat)
  | lit (v : Nat)
  | add (a b : Term)
deriving DecidableEq, Repr

def Term.eval (o p : Row) : Term → Nat
  | .old c => o c
  | .exc c => p c
  | .lit v => v
  | .add a b => a.eval o p + b.eval o p

inductive Cmp where
  | eq | ne | gt | lt
deriving DecidableEq, Repr

/-- one expression of a `clause.Where` inside the rule (`Where` = the DO UPDATE guard, `TargetWhere` = the
    predicate of a partial unique index) -/
structure Guard where
  l : Term
  op : Cmp
  r : Term
deriving DecidableEq, Repr

def Guard.holds (o p : Row) (g : Guard) : Bool :=
  match g.op with
  | .eq => g.l.eval o p == g.r.eval o p
  | .ne => g.l.eval o p != g.r.eval o p
  | .gt => decide (g.l.eval o p > g.r.eval o p)
  | .lt => decide (g.l.eval o p < g.r.eval o p)

/-- `clause.Where.Build` over plain expressions: a conjunction -/
def guardsHold (o p : Row) (gs : List Guard) : Bool := gs.all (Guard.holds o p)

/-- clause/on_conflict.go `type OnConflict struct` — every field -/
structure OC where
  columns : List Nat
  where_ : List Guard
  targetWhere : List Guard
  onConstraint : String
  doNothing : Bool
  doUpdates : List (Nat × Term)
  updateAll : Bool
deriving DecidableEq, Repr

/-- the assignments the UpdateAll block appends (create.go l.353-378): while ranging over `values.Columns` an
    auto-update-time column is appended to `DoUpdates` at once (`col = NOW`), the other assignable columns are
    collected and appended afterwards as `clause.AssignmentColumns` (`col = excluded.col`) -/
def expandUpdates (sch : Schema) (src : Src) (ins : Nat → Bool) : List (Nat × Term) :=
  ((List.range sch.ncols).filterMap (fun c =>
      match updateAllIns sch src ins c with
      | some (.lit x) => some (c, Term.lit x)
      | _ => none)) ++
  ((List.range sch.ncols).filterMap (fun c =>
      match updateAllIns sch src ins c with
      | some .excluded => some (c, Term.exc c)
      | _ => none))

/-- `stmt.Schema.PrimaryFields` -/
def pkCols (sch : Schema) : List Nat := (List.range sch.ncols).filter (fun c => sch.kind c == .pk)

/-- callbacks/create.go ConvertToCreateValues l.348-392: what gorm re-adds to the statement as THE clause.
    `hasCols` = `stmt.Schema != nil && len(values.Columns) >= 1`. Only `DoUpdates` grows; an empty result turns
    the rule into DO NOTHING; an empty conflict target defaults to the primary key; nothing else is touched. -/
def OC.expand (sch : Schema) (src : Src) (ins : Nat → Bool) (hasCols : Bool) (oc : OC) : OC :=
  if oc.updateAll && hasCols then
    let du := oc.doUpdates ++ expandUpdates sch src ins
    { oc with
      doUpdates := du,
      doNothing := if du.isEmpty then true else oc.doNothing,
      columns := if oc.columns.isEmpty then pkCols sch else oc.columns }
  else oc

/-! #### rendering: clause/on_conflict.go Build, as a token list -/

def Term.tok : Term → String
  | .old c => "o" ++ toString c
  | .exc c => "e" ++ toString c
  | .lit v => "#" ++ toString v
  | .add a b => "(" ++ a.tok ++ "+" ++ b.tok ++ ")"

def Cmp.tok : Cmp → String
  | .eq => "=" | .ne => "<>" | .gt => ">" | .lt => "<"

def Guard.tok (g : Guard) : String := g.l.tok ++ g.op.tok ++ g.r.tok

/-- `" WHERE "` + `clause.Where.Build` -/
def renderWhere (gs : List Guard) : List String :=
  if gs.isEmpty then [] else "WHERE" :: gs.map Guard.tok

def renderTarget (oc : OC) : List String :=
  if oc.onConstraint != "" then ["ON CONSTRAINT", oc.onConstraint]
  else (if oc.columns.isEmpty then [] else "(" :: oc.columns.map toString ++ [")"]) ++ renderWhere oc.targetWhere

def renderAction (oc : OC) : List String :=
  if oc.doNothing then ["DO NOTHING"]
  else "DO UPDATE SET" :: oc.doUpdates.map (fun a => toString a.1 ++ ":=" ++ a.2.tok)

/-- on_conflict.go Build l.18-54 -/
def OC.render (oc : OC) : List String := renderTarget oc ++ renderAction oc ++ renderWhere oc.where_

/-! #### what the rendered rule does to the row that conflicts -/

/-- `SET a = x, b = y, …`: every right-hand side sees the stored row `o` and `excluded` = `p`; a column named
    twice keeps its rightmost assignment -/
def setTerms (o p : Row) : List (Nat × Term) → Row → Row
  | [], r => r
  | a :: rest, r => setTerms o p rest (setCol r a.1 (a.2.eval o p))

/-- the conflicting row after `ON CONFLICT … DO NOTHING | DO UPDATE SET … [WHERE guard]` -/
def OC.onRow (oc : OC) (o p : Row) : Row :=
  if oc.doNothing then o
  else if guardsHold o p oc.where_ then setTerms o p oc.doUpdates o
  else o

/-- the whole path for one conflicting row: gorm's expansion, then the database's rule -/
def upsertRow (sch : Schema) (src : Src) (ins : Nat → Bool) (hasCols : Bool) (oc : OC) (o p : Row) : Row :=
  (oc.expand sch src ins hasCols).onRow o p

/-- the three documented rules of the first model as clauses (conflict target = primary key) -/
def Asg.term (c : Nat) : Asg → Term
  | .excluded => .exc c
  | .lit v => .lit v

def Rule.toOC : Rule → OC
  | .doNothing => { columns := [], where_ := [], targetWhere := [], onConstraint := "", doNothing := true, doUpdates := [], updateAll := false }
  | .doUpdates as => { columns := [0], where_ := [], targetWhere := [], onConstraint := "", doNothing := false,
                       doUpdates := as.map (fun a => (a.1, a.2.term a.1)), updateAll := false }
  | .updateAll => { columns := [], where_ := [], targetWhere := [], onConstraint := "", doNothing := false, doUpdates := [], updateAll := true }

/-! #### the regenerated shape of the rewriting (extract/gen_c16.go) -/

/-- a field of `clause.OnConflict` survives the UpdateAll block iff the block does not assign it and what is
    handed back to `stmt.AddClause` still carries it (the variable itself, or a literal naming the field) -/
def genFieldSurvives (f : String) : Bool :=
  !Gen.ocExpandAssigns.contains f && (Gen.ocExpandReAddsWhole || Gen.ocExpandReAddFields.contains f)

/-- a field reaches the SQL iff `OnConflict.Build` reads it -/
def genFieldRendered (f : String) : Bool := Gen.ocBuildReads.contains f

/-! ### B. Save under Select / Omit -/

/-- which Statement fields decide `selectedUpdate` in finisher_api.go Save (regenerated, see `genSaveCfg`) -/
structure SaveCfg where
  selBySelects : Bool
  selByOmits : Bool
deriving DecidableEq, Repr

def genSaveCfg : SaveCfg :=
  { selBySelects := Gen.saveSelectedReads.contains "Selects",
    selByOmits := Gen.saveSelectedReads.contains "Omits" }

/-- the chain modifiers Save reads: `Select("*")`, `Select(cols…)`, `Omit(cols…)`, and `omitOther` = an Omit that
    names no column of the table (`clause.Associations`, a relation name) -/
structure Mods where
  star : Bool
  sel : List Nat
  om : List Nat
  omitOther : Bool
deriving DecidableEq, Repr

def Mods.none : Mods := { star := false, sel := [], om := [], omitOther := false }

/-- finisher_api.go Save l.100: `selectedUpdate` -/
def saveSelected (cfg : SaveCfg) (m : Mods) : Bool :=
  (cfg.selBySelects && (m.star || !m.sel.isEmpty)) || (cfg.selByOmits && (!m.om.isEmpty || m.omitOther))

/-- callbacks/update.go ConvertToAssignments l.245-275 (struct, Dest == Model, hooks on) after
    statement.go SelectAndOmitColumns(false, true): is column `c` in the SET list.
    `(ok && v) || (!ok && (!restricted || AutoUpdateTime > 0))`, then `(ok || !isZero)`; "*" mentions every column -/
def updAssigned (sch : Schema) (star : Bool) (sel om : List Nat) (v : Row) (c : Nat) : Bool :=
  match sch.kind c with
  | .pk => false
  | .autoUpdate => !om.contains c
  | _ =>
    if om.contains c then false
    else if star || sel.contains c then true
    else sel.isEmpty && v c != 0

/-- the source of the Create calls inside Save: for Create `Selects = ["*"]` + Omits is the same restriction as
    Omits alone (every `(ok && v) || (!ok && !restricted)` test agrees) -/
def Mods.src (m : Mods) : Src := if m.star then .struct [] m.om else .struct m.sel m.om

/-- finisher_api.go Save l.73-115, struct branch, any Select / Omit on the chain -/
def saveFrom (cfg : SaveCfg) (sch : Schema) (s : Store) (m : Mods) (v : Row) : Out :=
  if v 0 = 0 then insertFrom sch s none m.src v
  else
    let selected := saveSelected cfg m
    -- l.102-104: `if !selectedUpdate { Selects = append(Selects, "*") }`
    let star := m.star || !selected
    let asg := updAssigned sch star m.sel m.om v
    let v1 : Row := fun c => if asg c && sch.kind c == .autoUpdate then NOW else v c
    let upd : Store × Nat :=
      match s.rows (v 0) with
      | some old =>
        -- no SET list ⇒ the update callback returns before building SQL (callbacks/update.go l.70-80)
        if (List.range sch.ncols).any asg && visible sch old
        then (s.put (v 0) (fun c => if asg c then v1 c else old c), 1)
        else (s, 0)
      | none => (s, 0)
    if upd.2 = 0 && !selected then
      -- here `star` holds: Selects = ["*"] (+ Omits), for Create the same restriction as the Omits alone
      insertFrom sch upd.1 (some .updateAll) (.struct [] m.om) v1
    else { store := upd.1, val := v1, ra := upd.2, err := .ok }

end Gorm.Upsert
