/-!
  C07 (round 5): Go slices as (backing array, len, cap) over a heap of arrays — the part of the Go memory model that decides
  whether an `append` made through a DERIVED statement writes memory the SHARED handle (or a sibling instance) still reads.

  Transcribes: the built-in `append` (Go spec "Appending to and copying slices": in place iff len < cap, else a new array),
  statement.go `Statement.clone`'s `make([]T, len(s)); copy(…)` (`copyExact`) versus a literal field `Joins: stmt.Joins`
  (`share`), and chainable_api.go `joins` / `Scopes` (`tx.Statement.X = append(tx.Statement.X, …)` on the per-call instance).
-/
namespace Gorm.SliceAlias

/-- a slice header (offset 0: gorm never re-slices these lists) -/
structure Sl where
  arr : Nat
  len : Nat
  cap : Nat
deriving Repr, DecidableEq

/-- the heap: backing arrays (cells are Nat-coded values) -/
abbrev Heap := List (List Nat)

def cells (h : Heap) (a : Nat) : List Nat := h.getD a []

/-- what a reader of the slice sees -/
def view (h : Heap) (s : Sl) : List Nat := (cells h s.arr).take s.len

/-- built-in append of one value; `grow` = the capacity the runtime picks when it has to allocate -/
def append (grow : Nat → Nat) (h : Heap) (s : Sl) (v : Nat) : Heap × Sl :=
  if s.len < s.cap then
    (h.set s.arr ((cells h s.arr).set s.len v), { s with len := s.len + 1 })
  else
    (h ++ [view h s ++ [v] ++ List.replicate (grow s.len) 0], { arr := h.length, len := s.len + 1, cap := s.len + 1 + grow s.len })

/-- Statement.clone: `newStmt.X = make([]T, len(stmt.X)); copy(newStmt.X, stmt.X)` -/
def copyExact (h : Heap) (s : Sl) : Heap × Sl := (h ++ [view h s], { arr := h.length, len := s.len, cap := s.len })

/-- Statement.clone with `X: stmt.X` in the literal -/
def share (h : Heap) (s : Sl) : Heap × Sl := (h, s)

/-- a chain: derive the per-call instance's list from the shared handle's (copied or shared), then append the values one by one -/
def derive (copied : Bool) (grow : Nat → Nat) (h : Heap) (s : Sl) (vs : List Nat) : Heap × Sl :=
  vs.foldl (fun p v => append grow p.1 p.2 v) (if copied then copyExact h s else share h s)

end Gorm.SliceAlias
