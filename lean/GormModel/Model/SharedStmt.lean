import GormModel.Gen.SharedState
/-
  C07 (round 4): the shared handle's own Statement under concurrent finishers.

  A reusable handle (`shared := db.Model(&T{}).Order(…).Session(&gorm.Session{})`) carries clauses in the Clauses map of ITS
  Statement.  Every operation started through it first clones that Statement (gorm.go `getInstance` → statement.go
  `Statement.clone`: a new map with the same entries) and works on the clone.  finisher_api.go `DB.Count` temporarily removes
  ORDER BY for its own query (`delete(tx.Statement.Clauses, "ORDER BY")`, restored by a deferred re-insert).

    onRecv = false : strip / restore act on the per-call instance `tx` (the code of the tree)
    onRecv = true  : they act on the receiver `db`, i.e. on the shared base that every other goroutine clones

  Which of the two the tree under check does is a regenerated fact (Gen.recvWrites: a write through the receiver inside DB.Count).
-/
namespace Gorm

/-- regenerated: DB.Count writes through its receiver (not re-bound to an instance before the write) -/
def countStripsOnReceiver : Bool :=
  Gen.recvWrites.any fun w => w.fn == "DB.Count" && !w.rebound

end Gorm

namespace Gorm.SharedStmt

/-- one goroutine: `pc` program counter, `inst` the clause keys of its own instance (after the clone), `built` the clause keys the
  statement it executed was built from (none = not executed yet) -/
structure Th where
  pc : Nat
  inst : List Nat
  built : Option (List Nat)
deriving DecidableEq, Repr

/-- `base` = keys of the Clauses map of the shared handle's Statement; key 0 = ORDER BY -/
structure St where
  base : List Nat
  ths : Nat → Th

def upd (f : Nat → Th) (t : Nat) (v : Th) : Nat → Th := fun i => if i = t then v else f i

def init (base : List Nat) : St := ⟨base, fun _ => ⟨0, [], none⟩⟩

/-- one step of goroutine t.  `isCount t`: the goroutine runs Count (clone; strip ORDER BY; build + execute; restore), otherwise any
  other finisher (clone; build + execute).
    pc 0 → 1  getInstance: inst := copy of base                          (statement.go clone, `for k, c := range stmt.Clauses`)
    Count pc 1 → 2  delete(<tx|db>.Statement.Clauses, "ORDER BY")        (finisher_api.go Count)
    Count pc 2 → 3  Execute: the statement is built from inst
    Count pc 3 → 4  deferred <tx|db>.Statement.Clauses["ORDER BY"] = saved
    other pc 1 → 2  Execute: the statement is built from inst -/
def step (onRecv : Bool) (isCount : Nat → Bool) (s : St) (t : Nat) : St :=
  let th := s.ths t
  if th.pc = 0 then
    { s with ths := upd s.ths t { th with pc := 1, inst := s.base } }
  else if isCount t then
    if th.pc = 1 then
      if onRecv then { base := s.base.erase 0, ths := upd s.ths t { th with pc := 2 } }
      else { s with ths := upd s.ths t { th with pc := 2, inst := th.inst.erase 0 } }
    else if th.pc = 2 then
      { s with ths := upd s.ths t { th with pc := 3, built := some th.inst } }
    else if th.pc = 3 then
      if onRecv then { base := 0 :: s.base.erase 0, ths := upd s.ths t { th with pc := 4 } }
      else { s with ths := upd s.ths t { th with pc := 4, inst := 0 :: th.inst.erase 0 } }
    else s
  else
    if th.pc = 1 then { s with ths := upd s.ths t { th with pc := 2, built := some th.inst } }
    else s

def run (onRecv : Bool) (isCount : Nat → Bool) (s : St) (sched : List Nat) : St := sched.foldl (step onRecv isCount) s

end Gorm.SharedStmt
