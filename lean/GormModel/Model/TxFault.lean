/-
  C05 — the implicit transaction at the level of error VALUES.

  Transcribes, statement by statement,
    * finisher_api.go `DB.Begin` / `DB.Commit` / `DB.Rollback` (what they pass to `AddError`),
    * callbacks/transaction.go `BeginTransaction` / `CommitOrRollbackTransaction`,
    * gorm.go `AddError` (`addError`, Model/Exec.lean),
  and composes them with the guarded statement steps of a write pipeline (every statement-sending call is
  dominated by `db.Error == nil` and hands its error to `AddError`: regenerated facts, Props/C05.lean).

  Errors are opaque texts: the model never inspects an error value except where the Go code does
  (`tx.Error == gorm.ErrInvalidTransaction` in BeginTransaction), so no value can be special-cased.
  Tied to the real functions by the harness suites `tx-callbacks` (real BeginTransaction /
  CommitOrRollbackTransaction on a scripted ConnPool) and `tx-trace` (real single-statement operations under
  injected error values).
-/
import GormModel.Model.Exec
namespace Gorm.TxF

/-- what `ConnPool.BeginTx` does for `DB.Begin` -/
inductive BeginRes where
  | ok                     -- a transaction pool is returned
  | notBeginner            -- the pool is neither TxBeginner nor ConnPoolBeginner (already a transaction):
                           --   `err = ErrInvalidTransaction`
  | fail (e : String)      -- BeginTx returned an error (any value other than the sentinel itself)
  | failSentinel           -- BeginTx itself returned gorm.ErrInvalidTransaction (the identical value)
deriving Repr, DecidableEq

def invalidTx : String := "invalid transaction"

structure St where
  err : Option String      -- db.Error
  started : Bool           -- InstanceGet("gorm:started_transaction")
  onTx : Bool              -- db.Statement.ConnPool is the transaction opened by BeginTransaction
  openTx : Nat             -- driver-level transactions opened by this operation and not finished
  log : List String        -- "B" "B!" "S" "S!" "C" "C!" "R" "R!"   (! = the call returned an error)
deriving Repr, DecidableEq

def St.init : St := { err := none, started := false, onTx := false, openTx := 0, log := [] }

/-- finisher_api.go `DB.Begin`: the error handed to `tx.AddError` (none = success) and whether the sentinel
    identity survives (`AddError` stores the value itself when `tx.Error == nil`) -/
def beginErr : BeginRes → Option String × Bool
  | .ok => (none, false)
  | .notBeginner => (some invalidTx, true)
  | .fail e => (some e, false)
  | .failSentinel => (some invalidTx, true)

/-- callbacks/transaction.go `BeginTransaction` -/
def beginTransaction (skip : Bool) (s : St) (b : BeginRes) : St :=
  if !skip && s.err.isNone then
    match beginErr b with
    | (none, _) =>                       -- tx.Error == nil
      { s with started := true, onTx := true, openTx := s.openTx + 1, log := s.log ++ ["B"] }
    | (some _, true) =>                  -- tx.Error == gorm.ErrInvalidTransaction: tx.Error = nil
      { s with log := s.log ++ (if b = .notBeginner then [] else ["B!"]) }
    | (some e, false) =>                 -- db.Error = tx.Error
      { s with err := some e, log := s.log ++ ["B!"] }
  else s

/-- one statement-sending step of the pipeline (callbacks/create.go, update.go, delete.go and the nested
    association operations): runs only while `db.Error == nil`, its error goes to `AddError` -/
def stmt (s : St) (e : Option String) : St :=
  match s.err with
  | some _ => s
  | none => { s with err := addError s.err e, log := s.log ++ [if e.isSome then "S!" else "S"] }

def stmts : St → List (Option String) → St
  | s, [] => s
  | s, e :: es => stmts (stmt s e) es

/-- callbacks/transaction.go `CommitOrRollbackTransaction` with finisher_api.go `DB.Commit` / `DB.Rollback`:
    `db.AddError(committer.Commit())` / `db.AddError(committer.Rollback())`, then the pool is reset.
    database/sql finishes the transaction on either call whatever it returns. -/
def commitOrRollback (skip : Bool) (s : St) (commitErr rollbackErr : Option String) : St :=
  if !skip then
    if s.started then
      match s.err with
      | some _ =>
        { s with err := addError s.err rollbackErr, onTx := false, openTx := s.openTx - 1,
                 log := s.log ++ [if rollbackErr.isSome then "R!" else "R"] }
      | none =>
        { s with err := addError s.err commitErr, onTx := false, openTx := s.openTx - 1,
                 log := s.log ++ [if commitErr.isSome then "C!" else "C"] }
    else s
  else s

/-- a whole write operation: BeginTransaction, the statements, CommitOrRollbackTransaction -/
def runWrite (skip : Bool) (b : BeginRes) (es : List (Option String)) (commitErr rollbackErr : Option String) : St :=
  commitOrRollback skip (stmts (beginTransaction skip St.init b) es) commitErr rollbackErr

/-- error-sink discipline of a handler body: every statement-sending call is immediately followed by
    `AddError(err)` under the same conditions, at most narrowed by `err != nil` -- no condition on WHICH error -/
def sinkOK : List HCall → Bool
  | [] => true
  | c :: rest =>
    if c.kind = "driver" then
      match rest with
      | a :: rest' =>
        (a.kind = "adderror" && a.what = "err" &&
          (a.guards = c.guards || a.guards = c.guards ++ ["err != nil"])) && sinkOK rest'
      | [] => false
    else sinkOK rest

end Gorm.TxF
