/-
  Model of hook invocation: callbacks/callmethod.go `callMethod` over an argument shape, and the
  event list of a whole operation derived from the REGENERATED pipeline/handler tables
  (which callbacks call hooks, in which order the interface tests appear, where the statement is).
-/
import GormModel.Model.Pipeline
namespace Gorm

/-- argument shapes `callMethod` distinguishes (db.Statement.ReflectValue) -/
inductive Shape where
  | structAddr                 -- pointer to struct
  | structVal                  -- struct value (not addressable)
  | slice (addr : List Bool)   -- slice/array; per element: is `reflect.Indirect(elem)` addressable?
  | other
deriving Repr, DecidableEq

inductive CallOut where
  | call (idx : Nat)           -- fc(value of record idx)
  | whole                      -- fc(whole value) returned called = true
  | invalidValue               -- db.AddError(gorm.ErrInvalidValue)
deriving Repr, DecidableEq

/-- the slice loop: `for i … { if CanAddr { fc(elem) } else { AddError; return }; CurDestIndex++ }` -/
def callSlice : List Bool → Nat → List CallOut
  | [], _ => []
  | a :: rest, i => if a then CallOut.call i :: callSlice rest (i+1) else [CallOut.invalidValue]

/-- `callMethod(db, fc)`: `wholeImplements` = the whole value itself satisfies the hook interface -/
def callMethod (wholeImplements : Bool) : Shape → List CallOut
  | sh =>
    if wholeImplements then [CallOut.whole]
    else match sh with
      | .slice addr => callSlice addr 0
      | .structAddr => [CallOut.call 0]
      | .structVal => [CallOut.invalidValue]
      | .other => []

/-- events of one operation: hook invocations and the statement -/
inductive HEv where
  | hook (name : String) (rec : Nat)
  | stmt
deriving Repr, DecidableEq

/-- hooks called by a handler, in the order of the interface tests in its closure -/
def HandlerFact.hooks (h : HandlerFact) : List String :=
  (h.calls.filter (fun c => c.kind = "hook")).map (·.what)

def HandlerFact.callsMethod (h : HandlerFact) : Bool := h.calls.any (fun c => c.kind = "callMethod")
def HandlerFact.sendsStatement (h : HandlerFact) : Bool := h.calls.any (fun c => c.kind = "driver")

/-- per-record hook events of one hook-calling handler over `n` addressable records:
    record by record, and for each record the handler's hooks in source order (filtered by the
    hooks the model type implements) -/
def hookEventsOf (hooks : List String) (has : String → Bool) : Nat → Nat → List HEv
  | 0, _ => []
  | n+1, i => (hooks.filter has).map (fun h => HEv.hook h i) ++ hookEventsOf hooks has n (i+1)

/-- predicted event list of an operation on `n` records (slice of pointers), no failure, hooks on -/
def opEvents (hs : List HandlerFact) (regs : List CbReg) (has : String → Bool) (n : Nat) : List HEv :=
  regs.flatMap fun r =>
    match handlerOf hs r.handler with
    | some h =>
      (if h.callsMethod then hookEventsOf h.hooks has n 0 else []) ++
      (if h.sendsStatement then [HEv.stmt] else [])
    | none => []

end Gorm
