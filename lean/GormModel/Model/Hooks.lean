/-
  Model of hook invocation: callbacks/callmethod.go `callMethod` over an argument shape, and the
  event list of a whole operation derived from the REGENERATED pipeline/handler tables
  (which callbacks call hooks, in which order the interface tests appear, where the statement is).
-/
import GormModel.Model.Pipeline
import GormModel.Gen.Finishers
import GormModel.Gen.Misc
namespace Gorm

/-- argument shapes `callMethod` distinguishes (db.Statement.ReflectValue) -/
inductive Shape where
  | structAddr                 -- pointer to struct
  | structVal                  -- struct value (not addressable)
  | slice (addr : List Bool)   -- slice/array; per element: is `reflect.Indirect(elem)` addressable?
  | other
deriving Repr, DecidableEq

inductive CallOut where
  | call (idx : Nat)           -- fc(value of record idx)
  | whole                      -- fc(whole value) returned called = true
  | invalidValue               -- db.AddError(gorm.ErrInvalidValue)
deriving Repr, DecidableEq

/-- the slice loop: `for i … { if CanAddr { fc(elem) } else { AddError; return }; CurDestIndex++ }` -/
def callSlice : List Bool → Nat → List CallOut
  | [], _ => []
  | a :: rest, i => if a then CallOut.call i :: callSlice rest (i+1) else [CallOut.invalidValue]

/-- `callMethod(db, fc)`: `wholeImplements` = the whole value itself satisfies the hook interface -/
def callMethod (wholeImplements : Bool) : Shape → List CallOut
  | sh =>
    if wholeImplements then [CallOut.whole]
    else match sh with
      | .slice addr => callSlice addr 0
      | .structAddr => [CallOut.call 0]
      | .structVal => [CallOut.invalidValue]
      | .other => []

/-- events of one operation: hook invocations and the statement -/
inductive HEv where
  | hook (name : String) (rec : Nat)
  | stmt
deriving Repr, DecidableEq

/-- hooks called by a handler, in the order of the interface tests in its closure -/
def HandlerFact.hooks (h : HandlerFact) : List String :=
  (h.calls.filter (fun c => c.kind = "hook")).map (·.what)

def HandlerFact.callsMethod (h : HandlerFact) : Bool := h.calls.any (fun c => c.kind = "callMethod")
def HandlerFact.sendsStatement (h : HandlerFact) : Bool := h.calls.any (fun c => c.kind = "driver")

/-- per-record hook events of one hook-calling handler over `n` addressable records:
    record by record, and for each record the handler's hooks in source order (filtered by the
    hooks the model type implements) -/
def hookEventsOf (hooks : List String) (has : String → Bool) : Nat → Nat → List HEv
  | 0, _ => []
  | n+1, i => (hooks.filter has).map (fun h => HEv.hook h i) ++ hookEventsOf hooks has n (i+1)

/-- predicted event list of an operation on `n` records (slice of pointers), no failure, hooks on -/
def opEvents (hs : List HandlerFact) (regs : List CbReg) (has : String → Bool) (n : Nat) : List HEv :=
  regs.flatMap fun r =>
    match handlerOf hs r.handler with
    | some h =>
      (if h.callsMethod then hookEventsOf h.hooks has n 0 else []) ++
      (if h.sendsStatement then [HEv.stmt] else [])
    | none => []

/-! ## Compound finishers (finisher_api.go): which pipelines one call runs with hooks on

`Gen.finishers` lists, per finisher, every place where a callback pipeline is entered (directly through
`callbacks.K().Execute`, or by calling another finisher on a derived handle) and every control-flow path
through the body.  A *run* is what one path executes: a list of (pipeline kind, hooks on?) -- an entry whose
handle derives from a `Session{SkipHooks: true}` literal runs its pipelines with hooks off. -/

/-- hooks a pipeline can fire (from the regenerated registration + handler tables) -/
def pipelineHooks (hs : List HandlerFact) (regs : List CbReg) : List String :=
  regs.flatMap fun r =>
    match handlerOf hs r.handler with
    | some h => if h.callsMethod then h.hooks else []
    | none => []

def kindHooks (ps : List (String × List CbReg)) (hs : List HandlerFact) (k : String) : List String :=
  match ps.find? (fun p => p.1 = k) with
  | some p => pipelineHooks hs p.2
  | none => []

/-- all lists obtained by picking one alternative per position and concatenating -/
def concatAlts {α : Type} : List (List (List α)) → List (List α)
  | [] => [[]]
  | alts :: rest => alts.flatMap fun a => (concatAlts rest).map fun r => a ++ r

/-- runs of finisher `fn`: per path, the (kind, hooksOn) sequence; re-entered finishers are expanded (`fuel`
    bounds the nesting: Save -> Create -> CreateInBatches is depth 3); `skip` = an enclosing entry already
    switched hooks off -/
def runsOf (fs : List Gen.FinisherFact) (skipFns : List String := []) : Nat → Bool → String → List (List (String × Bool))
  | 0, _, _ => []
  | fuel+1, skip0, fn =>
    -- `skipFns`: finishers that assign `tx.Statement.SkipHooks = true` before executing (UpdateColumn(s))
    let skip := skip0 || skipFns.contains fn
    match fs.find? (fun f => f.fn = fn) with
    | none => []
    | some f =>
      f.paths.flatMap fun path =>
        concatAlts (path.map fun id =>
          match f.entries.find? (fun e => e.id = id) with
          | none => [[]]
          | some e =>
            let sk := skip || e.skipHooks
            if e.callee = "" then [[(e.kind, !sk)]]
            else runsOf fs skipFns fuel sk ("DB." ++ e.callee))

/-- finishers of finisher_api.go that assign `Statement.SkipHooks = true` (regenerated: Gen.skipHooksAssigns) -/
def skipHookFinishers : List String :=
  (Gen.skipHooksAssigns.filter fun a => a.1 = "finisher_api.go" && a.2.2 = "true").map (·.2.1)

/-- hook names one run can fire for a record -/
def runHooks (ps : List (String × List CbReg)) (hs : List HandlerFact) (run : List (String × Bool)) : List String :=
  run.flatMap fun ke => if ke.2 then kindHooks ps hs ke.1 else []

/-- the batch loop of CreateInBatches: `for i := 0; i < n; i += b { ends := min(i+b, n); Dest = value[i:ends] }`
    (fuel = n suffices for b >= 1) -/
def batchFrom (b n : Nat) : Nat → Nat → List (Nat × Nat)
  | 0, _ => []
  | fuel+1, i => if i < n then (i, min (i + b) n) :: batchFrom b n fuel (i + b) else []

def batchRanges (n b : Nat) : List (Nat × Nat) := batchFrom b n n 0

def HEv.shift (off : Nat) : HEv → HEv
  | .hook h i => .hook h (i + off)
  | .stmt => .stmt

/-- predicted event list of one run over top-level records: a run of one repeatable pipeline is executed once per
    batch (sizes = batch ranges); otherwise every pipeline of the run sees all `n` records -/
def compoundEvents (ps : List (String × List CbReg)) (hs : List HandlerFact) (has : String → Bool)
    (run : List (String × Bool)) (n : Nat) (batches : List (Nat × Nat)) : List HEv :=
  let one (ke : String × Bool) (cnt off : Nat) : List HEv :=
    match ps.find? (fun p => p.1 = ke.1) with
    | some p => (opEvents hs p.2 (fun h => ke.2 && has h) cnt).map (HEv.shift off)
    | none => []
  match run, batches with
  | [ke], _ :: _ => batches.flatMap fun r => one ke (r.2 - r.1) r.1
  | _, _ => run.flatMap fun ke => one ke n 0

end Gorm
