/-
  C19 (round 4) — the RECEIVER of ToSQL / Session{DryRun} and the WIRE of a real run.

  (A) Which statement does the handle work with that `DB.ToSQL` passes to its callback (and, generally, the handle a
      `Session(&Session{…})` call returns)?  Executed symbolically over the REGENERATED bodies of gorm.go `Session()` /
      `getInstance()` (`Gen.sessionBody`, `Gen.getInstanceBody`, via `sessionProg` / `classifyGi` of Model/Handle.lean) and the
      regenerated copy discipline of statement.go `clone()` (`Gen.cloneLiteral`, `Gen.cloneLater`): the contents are
        `recv`  — what the receiver's chain put on its statement (Model, Table, conditions, Select/Omit, Order/Limit, Joins,
                  Preloads, Unscoped, scopes, Clauses …), possibly as a private copy,
        `empty` — a fresh statement (`getInstance()` of a `clone == 1` handle: `Session{NewDB: true}`),
        `lost`  — anything the model cannot account for.
      `DB.ToSQL` is `queryFn(db.Session(&Session{<Gen.toSQLSession>}))`: its flags come from the regenerated literal.

  (B) What does the driver receive for a statement `(sql, vars)` handed to the statement's ConnPool?  Through a plain pool
      the text and values as they are (trusted: database/sql); through the prepared-statement pool (prepare_stmt.go) whatever
      the wrappers hand on — read from the regenerated `Gen.prepFns`: the text is `some sql` only if every wrapper passes its
      `query` parameter to `prepare` unchanged, `prepare` passes it to `PrepareContext` unchanged and uses it as cache key, no
      parameter is ever written, and the bound values are passed as `args...`.
-/
import GormModel.Model.Handle
import GormModel.Gen.CloneFacts
import GormModel.Gen.DryRunRecv
namespace Gorm
open Gen

/-! ## (A) statement contents through Session() / getInstance() -/

inductive StSym where
  | recv | empty | lost
deriving Repr, DecidableEq

/-- statement.go `Statement` fields that carry chain state and must be copied by `clone()` in the literal … -/
def stateFieldsLit : List String :=
  ["TableExpr", "Table", "Model", "Unscoped", "Dest", "ReflectValue", "Distinct", "Selects", "Omits", "ColumnMapping",
   "Schema", "RaiseErrorOnNotFound", "attrs", "assigns"]
/-- … or by the copy loops after it -/
def stateFieldsLater : List String := ["Clauses", "Preloads", "Joins", "scopes", "Settings"]

/-- statement.go `clone()` carries every piece of chain state over (regenerated `Gen.cloneLiteral` / `Gen.cloneLater`) -/
def cloneKeepsState : Bool :=
  stateFieldsLit.all (fun f => cloneLiteral.contains (f, "stmt." ++ f)) &&
  stateFieldsLater.all (fun f => cloneLater.any (fun p => p.1 == f))

/-- the fresh statement of `getInstance()` (clone == 1) carries NO chain state: its literal names none of the state fields
    (an empty `Clauses` map apart) -/
def freshIsEmpty : Bool :=
  getInstanceLiteral.all (fun p => !(stateFieldsLit.contains p.1) &&
    (!(stateFieldsLater.contains p.1) || p == ("Clauses", "map[string]clause.Clause{}")))

structure GiStmt where
  cur : Option StSym := none
  result : Option StSym := none
  returned : Bool := false
  bad : List String := []
deriving Repr, DecidableEq

def GiStmt.exec (st : GiStmt) (g : Option Bool) (a : GiAct) : GiStmt :=
  if st.returned then st else
  match g with
  | some false => st
  | none => { st with bad := st.bad ++ ["statement under a condition the model cannot evaluate"] }
  | some true =>
    match a with
    | .newTx => { st with cur := none }
    | .fresh _ => { st with cur := some (if freshIsEmpty then .empty else .lost) }
    | .viaClone => { st with cur := some (if cloneKeepsState then .recv else .lost) }
    | .retTx => { st with returned := true, result := some (st.cur.getD .lost) }
    | .retDb => { st with returned := true, result := some .recv }
    | .unknown s => { st with bad := st.bad ++ [s] }

def giStmtRun (pos one : Bool) : GiStmt :=
  getInstanceBody.foldl
    (fun st s => match classifyGi s with
      | none => st
      | some a => st.exec (evalPath (giAtom pos one) s.path) a) {}

/-- contents of the statement `db.getInstance()` returns, relative to the receiver's, by `clone` mode -/
def giStmt (clone : Nat) : StSym :=
  let r := giStmtRun (decide (clone > 0)) (clone == 1)
  if r.bad.isEmpty && r.returned then r.result.getD .lost else .lost

def StSym.comp (outer inner : StSym) : StSym :=
  match outer with
  | .recv => inner
  | .empty => .empty
  | .lost => .lost

structure SessStmt where
  cur : StSym := .lost     -- contents of tx.Statement
  clone : Nat := 0
  inited : Bool := false
  returned : Bool := false
  bad : List String := []
deriving Repr, DecidableEq

def SessStmt.getInst (st : SessStmt) : SessStmt :=
  { st with cur := (giStmt st.clone).comp st.cur, clone := 0 }

def SessStmt.exec (st : SessStmt) (g : Option Bool) (a : SAct) : SessStmt :=
  if st.returned then st else
  match g with
  | some false => st
  | none => { st with bad := st.bad ++ ["statement under a condition the model cannot evaluate"] }
  | some true =>
    match a with
    | .init => { st with cur := .recv, clone := 1, inited := true }
    | .cloneStmt => if st.inited then { st with cur := if cloneKeepsState then st.cur else .lost }
                    else { st with bad := st.bad ++ ["clone before init"] }
    | .setCtx => st
    | .setClone2 => { st with clone := 2 }
    | .getInst => if st.inited then st.getInst else { st with bad := st.bad ++ ["getInstance before init"] }
    | .ret => { st with returned := true }
    | .unknown s => { st with bad := st.bad ++ [s] }

def runSessStmt (prog : List (List CCond × SAct)) (fl : SessFlags) : SessStmt :=
  prog.foldl (fun st ga => st.exec (evalCPath fl ga.1) ga.2) {}

def SessStmt.ok (st : SessStmt) : Bool := st.bad.isEmpty && st.returned && st.inited

/-- contents of the statement the FIRST chain call / finisher on the returned handle works with -/
def SessStmt.next (st : SessStmt) : StSym := if st.ok then st.getInst.cur else .lost

/-- does `Session()` switch `tx.Config.<field>` on exactly under `config.<field>` (regenerated body)? -/
def sessionSetsConfig (field : String) : Bool :=
  sessionBody.any (fun s => s.kind == "assign" && s.path == [.atom ("config." ++ field)] &&
    s.lhs == [["tx", "Config", field]] && s.rhs == ["true"])

/-- … and never switches it off / writes it anywhere else -/
def sessionOnlySetsConfig (field : String) : Bool :=
  sessionBody.all (fun s => !(s.writes.contains ["tx", "Config", field] || s.writes.contains ["txConfig", field]) ||
    (s.path == [.atom ("config." ++ field)] && s.rhs == ["true"]))

/-- the handle a `Session(&Session{…})` call returns, as far as C19 needs it -/
structure DryHandle where
  stmt : StSym          -- what its first chain call / finisher works with
  clone : Nat           -- > 0: every chain started on it gets its own statement
  dryRun : Bool         -- switched on by this session
  skipDefaultTx : Bool  -- switched on by this session
  ok : Bool
deriving Repr, DecidableEq

def sessionHandle (fl : SessFlags) : DryHandle :=
  let r := runSessStmt sessionProg fl
  { stmt := r.next, clone := r.clone, ok := r.ok,
    dryRun := fl .dryRun && sessionSetsConfig "DryRun",
    skipDefaultTx := fl .skipDefaultTransaction && sessionSetsConfig "SkipDefaultTransaction" }

/-- a `Session{…}` literal of constants as a flag valuation; `none` if a field is unknown or not the constant `true` -/
def literalFlags (fields : List (String × String)) : Option (List SessFlag) :=
  fields.mapM (fun p => if p.2 = "true" then flagOfLiteral p.1 else none)
where
  flagOfLiteral : String → Option SessFlag
    | "DryRun" => some .dryRun
    | "PrepareStmt" => some .prepareStmt
    | "NewDB" => some .newDB
    | "Initialized" => some .initialized
    | "SkipHooks" => some .skipHooks
    | "SkipDefaultTransaction" => some .skipDefaultTransaction
    | "DisableNestedTransaction" => some .disableNestedTransaction
    | "AllowGlobalUpdate" => some .allowGlobalUpdate
    | "FullSaveAssociations" => some .fullSaveAssociations
    | "PropagateUnscoped" => some .propagateUnscoped
    | "QueryFields" => some .queryFields
    | _ => none

/-- gorm.go `DB.ToSQL`: the flags of its (single) Session literal, from the regenerated `Gen.toSQLSession` -/
def toSQLFlags : Option (List SessFlag) :=
  match toSQLSession with
  | [lit] => literalFlags lit
  | _ => none

/-- the shape of `DB.ToSQL`'s body with the literal abstracted: the callback gets `db.Session(&Session{…})` of the RECEIVER
    — nothing chained in between — and the result is `Explain` of the SQL / Vars of the handle the callback returned -/
def toSQLShapeOK : Bool :=
  toSQLStmts == ["tx := queryFn(db.Session(&Session{…}))", "stmt := tx.Statement",
                 "return db.Dialector.Explain(stmt.SQL.String(), stmt.Vars...)"]

/-- the handle `DB.ToSQL` passes to its callback (`lost` if the body is not of the known shape) -/
def toSQLHandle : DryHandle :=
  match toSQLFlags with
  | some l => if toSQLShapeOK then sessionHandle (SessFlags.ofList l)
              else { stmt := .lost, clone := 0, dryRun := false, skipDefaultTx := false, ok := false }
  | none => { stmt := .lost, clone := 0, dryRun := false, skipDefaultTx := false, ok := false }

/-- concrete reading of the symbols: the chain state the handle's next operation starts from, given the receiver's -/
structure ChainState where
  items : List Nat       -- what Model / Table / Where / Select / Order / Joins / Preload / Scopes / Clauses … left, in order
  unscoped : Bool
deriving Repr, DecidableEq

def StSym.resolve (recv : ChainState) : StSym → Option ChainState
  | .recv => some recv
  | .empty => some { items := [], unscoped := false }
  | .lost => none

/-! ## (B) the wire: what the driver is handed for `(sql, vars)` -/

inductive PoolKind where
  | plain     -- *sql.DB / *sql.Tx / *sql.Conn
  | prepDB    -- *PreparedStmtDB  (Config.PrepareStmt / Session{PrepareStmt} on the pool)
  | prepTX    -- *PreparedStmtTX  (… inside a transaction)
deriving Repr, DecidableEq

def prepFn (name : String) : Option PrepFn := prepFns.find? (fun f => f.name = name)

/-- prepare_stmt.go `prepare`: the text handed to `PrepareContext` and the cache key are the `query` parameter, untouched -/
def prepareKeepsText : Bool :=
  match prepFn "PreparedStmtDB.prepare" with
  | some f => f.paramWrites.isEmpty && f.params.contains "query" &&
      f.calls == [{ callee := "PrepareContext", recv := "conn", args := ["ctx", "query"] }] &&
      !f.keys.isEmpty && f.keys.all (· == "query")
  | none => false

/-- a wrapper hands `query` to `prepare` untouched and the bound values to the prepared statement as `args...` -/
def wrapperKeeps (name method stmtRecv poolArg txFlag : String) : Bool :=
  match prepFn name with
  | some f => f.paramWrites.isEmpty && f.params == ["ctx", "query", "args"] &&
      f.keys.all (· == "query") &&
      (match f.calls with
       | [c1, c2] => c1.callee == "prepare" && c1.args == ["ctx", poolArg, txFlag, "query"] &&
                     c2.callee == method && c2.recv == stmtRecv && c2.args == ["ctx", "args..."]
       | _ => false)
  | none => false

def prepDBKeeps : Bool :=
  prepareKeepsText &&
  wrapperKeeps "PreparedStmtDB.ExecContext" "ExecContext" "stmt" "db.ConnPool" "false" &&
  wrapperKeeps "PreparedStmtDB.QueryContext" "QueryContext" "stmt" "db.ConnPool" "false" &&
  wrapperKeeps "PreparedStmtDB.QueryRowContext" "QueryRowContext" "stmt" "db.ConnPool" "false"
def prepTXKeeps : Bool :=
  prepareKeepsText &&
  wrapperKeeps "PreparedStmtTX.ExecContext" "ExecContext" "tx.Tx.StmtContext(ctx, stmt.Stmt)" "tx.Tx" "true" &&
  wrapperKeeps "PreparedStmtTX.QueryContext" "QueryContext" "tx.Tx.StmtContext(ctx, stmt.Stmt)" "tx.Tx" "true" &&
  wrapperKeeps "PreparedStmtTX.QueryRowContext" "QueryRowContext" "tx.Tx.StmtContext(ctx, stmt.Stmt)" "tx.Tx" "true"

/-- every executor of package callbacks hands `Statement.SQL.String()` / `Statement.Vars...` to the pool -/
def executorsSendStatement : Bool :=
  !sendSites.isEmpty &&
  sendSites.all (fun s => s.args == ["db.Statement.Context", "db.Statement.SQL.String()", "db.Statement.Vars..."])

structure Wire (V : Type) where
  prepared : Option String   -- text the driver was asked to PREPARE (prepared-statement pools)
  text : String              -- text the values are executed against
  args : List V
deriving Repr, DecidableEq

/-- what reaches the driver when an executor sends the built statement `(sql, vars)` through a pool of kind `k`;
    `none` = the model cannot say (some wrapper rewrites text or values) -/
def wire {V : Type} (k : PoolKind) (sql : String) (vars : List V) : Option (Wire V) :=
  if !executorsSendStatement then none else
  match k with
  | .plain => some { prepared := none, text := sql, args := vars }
  | .prepDB => if prepDBKeeps then some { prepared := some sql, text := sql, args := vars } else none
  | .prepTX => if prepTXKeeps then some { prepared := some sql, text := sql, args := vars } else none

end Gorm
