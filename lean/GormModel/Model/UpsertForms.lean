/-
  C16 (round 5) — two pieces of code the earlier models abstracted away.

  A. HOW a NAME given by the caller (a map key, the first element of a ("name", value) pair, the column of a clause.Eq,
     a struct field) is resolved to a field when FirstOrInit / FirstOrCreate build the record of the not-found case
     (finisher_api.go `assignInterfacesToValue`).  The earlier models address columns by index, i.e. they assume every
     spelling of a name reaches its field.  Here a schema is the list of its fields (Go name, column name), names are
     opaque codes, and each of the three resolution sites of `assignInterfacesToValue` consults the tables the
     REGENERATED facts say it consults (`Gen.assignResolves`: `LookUpField` / `FieldsByDBName[…]` / `FieldsByName[…]`;
     `Gen.lookUpFieldOrder`: the tables `Schema.LookUpField` tries, in order).

  B. The guard in front of the key back-fill of the branch WITHOUT `RETURNING` (callbacks/create.go `Create`):
     `db.RowsAffected, _ = result.RowsAffected(); if db.RowsAffected == 0 { return }` — a statement that stored nothing
     (ON CONFLICT DO NOTHING hit, DO UPDATE guard false) must not hand `LastInsertId()` to the record: on SQLite that
     number is the connection's last insert id, whatever table it belongs to.  `backfillG guarded …` is C03's
     `Scan.createBackfill` with the guard made a parameter (`Gen.backfillRaGuardFirst`/`Gen.backfillRaGuardCond`).
-/
import GormModel.Model.Scan
import GormModel.Gen.UpsertFormFacts
namespace Gorm.UpsertForms

/-! ### A. name resolution -/

abbrev Name := Nat

/-- one field of the parsed schema: its Go name (`field.Name`) and its column (`field.DBName`) -/
structure FField where
  go : Name
  db : Name
deriving DecidableEq, Repr

/-- index of the first field satisfying `p` (the maps `FieldsByDBName` / `FieldsByName` seen as functions: the schema
    parser keeps the first claimant of a column / name for plain, non-embedded fields) -/
def find (p : FField → Bool) : List FField → Nat → Option Nat
  | [], _ => none
  | f :: fs, i => if p f then some i else find p fs (i + 1)

/-- `schema.FieldsByDBName[n]` -/
def byDB (fs : List FField) (n : Name) : Option Nat := find (fun f => f.db == n) fs 0
/-- `schema.FieldsByName[n]` -/
def byGo (fs : List FField) (n : Name) : Option Nat := find (fun f => f.go == n) fs 0

/-- the tables a resolution consults, in order: `true` = `FieldsByDBName`, `false` = `FieldsByName`.
    schema.go `LookUpField` = `[true, false]`; a bare map index = a one-element list. -/
abbrev Order := List Bool

def lookUp : Order → List FField → Name → Option Nat
  | [], _, _ => none
  | b :: r, fs, n =>
    match (if b then byDB fs n else byGo fs n) with
    | some i => some i
    | none => lookUp r fs n

/-- the three resolution sites of `assignInterfacesToValue` -/
structure Sites where
  eqString : Order    -- `case string:` of `eq.Column`
  eqColumn : Order    -- `case clause.Column:` of `eq.Column` (`column.Name`)
  structField : Order -- the struct branch (`f.Name` of the ARGUMENT's schema, a Go name)
deriving DecidableEq, Repr

/-- a record = the value of every field, `0` = zero value -/
abbrev Rec := List Nat

/-- `if field := … ; field != nil { field.Set(…, eq.Value) }`: an unresolved name is skipped silently -/
def assignEq (o : Order) (fs : List FField) (r : Rec) (kv : Name × Nat) : Rec :=
  match lookUp o fs kv.1 with
  | some i => r.set i kv.2
  | none => r

/-- one argument of Where / Attrs / Assign as `assignInterfacesToValue` sees it -/
inductive Arg where
  /-- clause.Eq expressions whose Column is a string: maps, ("name", value) pairs, `clause.Eq{Column: "name"}` -/
  | eqs (kvs : List (Name × Nat))
  /-- clause.Eq expressions whose Column is a clause.Column: struct CONDITIONS (BuildCondition names the column), `clause.Eq{Column: clause.Column{…}}` -/
  | cols (kvs : List (Name × Nat))
  /-- a struct given to Attrs / Assign: its non-zero fields, by Go name -/
  | strct (kvs : List (Name × Nat))
deriving Repr

def applyArg (s : Sites) (fs : List FField) (r : Rec) : Arg → Rec
  | .eqs kvs => kvs.foldl (assignEq s.eqString fs) r
  | .cols kvs => kvs.foldl (assignEq s.eqColumn fs) r
  | .strct kvs => (kvs.filter (fun kv => kv.2 != 0)).foldl (assignEq s.structField fs) r

/-- the record of the not-found case: conditions, then Attrs, then Assign (finisher_api.go FirstOrInit:320-335,
    FirstOrCreate:366-380), starting from the zero record -/
def build (s : Sites) (fs : List FField) (conds attrs assigns : List Arg) : Rec :=
  (conds ++ attrs ++ assigns).foldl (applyArg s fs) (List.replicate fs.length 0)

/-- what `Schema.LookUpField` consults (regenerated) -/
def genLookUpField : Order :=
  if Gen.lookUpFieldReturnsHit then
    Gen.lookUpFieldOrder.filterMap (fun m =>
      if m == "FieldsByDBName[name]" then some true else if m == "FieldsByName[name]" then some false else none)
  else []

def orderOf (how : String) : Order :=
  if how == "LookUpField" then genLookUpField
  else if how == "FieldsByDBName" then [true]
  else if how == "FieldsByName" then [false]
  else []

/-- the sites, from the regenerated resolutions of `assignInterfacesToValue` (by their argument text) -/
def genSites : Sites :=
  let ord (a : String) : Order :=
    match Gen.assignResolves.find? (fun r => r.2 == a) with
    | some r => orderOf r.1
    | none => []
  { eqString := ord "column", eqColumn := ord "column.Name", structField := ord "f.Name" }

/-! ### B. the guard in front of the no-RETURNING back-fill -/

open Gorm.Scan in
/-- callbacks/create.go Create, after `ExecContext`: `guarded` = the `if db.RowsAffected == 0 { return }` is there, in
    front of the `LastInsertId()` read.  With it this IS C03's `createBackfill`; without it the remaining guards
    (`insertOk`, the key kind) decide alone. -/
def backfillG (guarded guardKind reversed hasDefault autoInc intType : Bool) (inc : Int) (ks : List Key) (r : ExecResult) : List Key :=
  if guarded then createBackfill guardKind reversed hasDefault autoInc intType inc ks r
  else createBackfill guardKind reversed hasDefault autoInc intType inc ks { r with rowsAffected := if r.rowsAffected = 0 then 1 else r.rowsAffected }

/-- the guard, regenerated: found, first statement after the assignment, condition `db.RowsAffected == 0` -/
def genGuarded : Bool :=
  Gen.backfillRaAssignFound && Gen.backfillRaGuardFirst && Gen.backfillRaGuardCond == "db.RowsAffected == 0"

end Gorm.UpsertForms
