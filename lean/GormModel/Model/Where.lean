/-
  Model of clause/where.go (`Where.Build`, `buildExprs`, `And/Or/Not`, `AndConditions/OrConditions/
  NotConditions.Build`, `Where.MergeClause`), the comparison expressions of clause/expression.go
  (`Eq/Neq/Gt/Gte/Lt/Lte/Like/IN` with their `NegationBuild`), the condition forms of
  statement.go `BuildCondition` at the level "unit → expression", chainable_api.go `Where/Not/Or`,
  soft_delete.go `SoftDeleteQueryClause.ModifyStatement` and callbacks/helper.go
  `checkMissingWhereConditions`.  Output is a `Flat` (Model/SqlBool.lean): `textFlat` of it is compared
  byte for byte with the SQL the real code writes; `sqlEval` of it is what the theorems speak about.
-/
import GormModel.Model.SqlBool
namespace Gorm

/-! ### comparison expressions (clause/expression.go) -/

inductive ValShape | scalar | nil | list (n : Nat)
deriving DecidableEq, Repr

/-- `notLike`, `notIn` are not Go types: they are what `Like.NegationBuild` / `IN.NegationBuild` write -/
inductive AtomKind | eq | neq | gt | gte | lt | lte | like | notLike | inK | notIn
deriving DecidableEq, Repr

structure Atom where
  col : String          -- already quoted as the dialect quotes it
  kind : AtomKind
  val : ValShape
  id : Nat              -- base predicate (`col = v`, `col > v`, `col >= v`, `col LIKE v`, `col IN vs`)
deriving Repr

/-- `X.NegationBuild` = `Y.Build`: Eq↔Neq, Gt→Lte, Gte→Lt, Lt→Gte, Lte→Gt, Like→NOT LIKE, IN→NOT IN -/
def AtomKind.negate : AtomKind → AtomKind
  | .eq => .neq | .neq => .eq | .gt => .lte | .gte => .lt | .lt => .gte | .lte => .gt
  | .like => .notLike | .notLike => .like | .inK => .notIn | .notIn => .inK

/-- polarity relative to the base predicates eq, gt, gte, like, in -/
def AtomKind.pol : AtomKind → Bool
  | .eq | .gt | .gte | .like | .inK => true
  | _ => false

def qmarks : Nat → String
  | 0 => ""
  | 1 => "?"
  | n + 1 => "?," ++ qmarks n

def Atom.text (a : Atom) : String :=
  a.col ++
  match a.kind, a.val with
  | .eq, .scalar => " = ?"
  | .eq, .nil => " IS NULL"
  | .eq, .list 0 => " IN (NULL)"
  | .eq, .list n => " IN (" ++ qmarks n ++ ")"
  | .neq, .scalar => " <> ?"
  | .neq, .nil => " IS NOT NULL"
  | .neq, .list n => " NOT IN (" ++ qmarks n ++ ")"
  | .gt, _ => " > ?"
  | .gte, _ => " >= ?"
  | .lt, _ => " < ?"
  | .lte, _ => " <= ?"
  | .like, _ => " LIKE ?"
  | .notLike, _ => " NOT LIKE ?"
  | .inK, .list 0 => " IN (NULL)"
  | .inK, .list 1 => " = ?"
  | .inK, .list n => " IN (" ++ qmarks n ++ ")"
  | .inK, _ => " = ?"
  | .notIn, .list 0 => " IS NOT NULL"
  | .notIn, .list 1 => " <> ?"
  | .notIn, .list n => " NOT IN (" ++ qmarks n ++ ")"
  | .notIn, _ => " <> ?"

def Atom.negate (a : Atom) : Atom := { a with kind := a.kind.negate }
def Atom.core (a : Atom) : Core := .atom a.id a.kind.pol a.text

/-! ### expression trees -/

inductive Ex where
  | raw (text : List Char) (named : Bool) (out : String) (flat : Flat)
      -- clause.Expr (named = false) / clause.NamedExpr: `text` = the SQL template (what the detector
      -- inspects), `out` = what `Expr.Build` writes for it (placeholders expanded; see Model/Expr.lean)
  | atom (a : Atom)                                     -- Eq/Neq/Gt/Gte/Lt/Lte/Like/IN
  | and (es : List Ex)                                  -- clause.AndConditions
  | or (es : List Ex)                                   -- clause.OrConditions
  | not (es : List Ex)                                  -- clause.NotConditions
deriving Repr

def containsL : List Char → List Char → Bool
  | [], pat => pat.isEmpty
  | c :: r, pat => pat.isPrefixOf (c :: r) || containsL r pat

/-- `strings.Contains(strings.ToUpper(sql), " AND ") || strings.Contains(…, " OR ")` (ASCII) -/
def detector (cs : List Char) : Bool :=
  let u := cs.map Char.toUpper
  containsL u [' ', 'A', 'N', 'D', ' '] || containsL u [' ', 'O', 'R', ' ']

def Ex.isSingleOr : Ex → Bool
  | .or [_] => true
  | _ => false

def Ex.isOr : Ex → Bool
  | .or _ => true
  | _ => false

def Ex.negatable : Ex → Bool
  | .atom _ => true
  | _ => false

/-- the type switch in `buildExprs` that decides `wrapInParentheses` -/
def wrapTest : Ex → Bool
  | .or [.raw t false _ _] => detector t
  | .and [.raw t false _ _] => detector t
  | .raw t _ _ _ => detector t
  | _ => false

/-- `e, wrapInParentheses := c.(Expr)` + detector in `NotConditions.Build` (clause.Expr only) -/
def notWrap : Ex → Bool
  | .raw t false _ _ => detector t
  | _ => false

/-- joiner `buildExprs` writes before a non-first member -/
def memberJoin (jc : Joiner) (e : Ex) : Joiner := if e.isSingleOr then .or else jc
/-- joiner inside `NOT ( … )` (`case OrConditions:` — any Or, not only single-member ones) -/
def notJoin (e : Ex) : Joiner := if e.isOr then .or else .and

mutual
/-- `expr.Build(builder)` -/
def Ex.build : Ex → Flat
  | .raw _ _ o f => [(.and, 0, .splice o f)]
  | .atom a => [(.and, 0, a.core)]
  | .and es =>
    if es.length > 1 then [(.and, 0, .paren (buildList (es.length > 1) true .and es))]
    else buildList (es.length > 1) true .and es
  | .or es =>
    if es.length > 1 then [(.and, 0, .paren (buildList (es.length > 1) true .or es))]
    else buildList (es.length > 1) true .or es
  | .not es =>
    if es.any Ex.negatable then
      if es.length > 1 then [(.and, 0, .paren (notListA es))] else notListA es
    else
      if es.length > 1 then [(.and, 1, .paren (notListB true es))] else addNeg (notListB true es)
/-- `buildExprs(exprs, builder, joinCond)`; `multi` = `len(exprs) > 1`, `first` = `idx == 0` -/
def buildList (multi : Bool) (first : Bool) (jc : Joiner) : List Ex → Flat
  | [] => []
  | e :: r =>
    let j := if first then Joiner.and else memberJoin jc e
    (if multi && wrapTest e then [(j, 0, .paren e.build)] else setJoin j e.build) ++ buildList multi false jc r
/-- `NotConditions.Build`, branch "some member has NegationBuild": members joined by AND, each negated -/
def notListA : List Ex → Flat
  | [] => []
  | (.atom a) :: r => (.and, 0, a.negate.core) :: notListA r
  | e :: r =>
    (if notWrap e then [(.and, 1, .paren e.build)] else setJoin .and (addNeg e.build)) ++ notListA r
/-- `NotConditions.Build`, branch "no member has NegationBuild": the body of `NOT ( … )` -/
def notListB (first : Bool) : List Ex → Flat
  | [] => []
  | e :: r =>
    let j := if first then Joiner.and else notJoin e
    (if notWrap e then [(j, 0, .paren e.build)] else setJoin j e.build) ++ notListB false r
end

/-! ### `WrapSound`: the decidable condition under which every unit is rendered as an indivisible operand.
  It fails exactly when a raw string with a top-level OR (under `NOT`: with more than one top-level item)
  is written without parentheses next to other operands — because the detector needs the literal
  `" AND "`/`" OR "` (tab/newline-delimited keywords escape it) or because the raw string sits under
  nested single-member And/Or wrappers that `buildExprs` does not look through (findings F1/F2). -/

def singleItem (f : Flat) : Bool := f.length ≤ 1

mutual
def Ex.sound : Ex → Bool
  | .raw _ _ _ _ => true
  | .atom _ => true
  | .and es => soundList (es.length > 1) es
  | .or es => soundList (es.length > 1) es
  | .not es =>
    !es.isEmpty && (if es.any Ex.negatable then soundNotA es else soundNotB (es.length > 1) es)
/-- members of a `buildExprs` list: inner lists sound, and a member that is spliced (not wrapped) into a
    list with other operands has no top-level OR -/
def soundList (multi : Bool) : List Ex → Bool
  | [] => true
  | e :: r => e.sound && (!multi || (!e.build.isEmpty && (wrapTest e || noTopOr (expandFlat e.build)))) && soundList multi r
def soundNotA : List Ex → Bool
  | [] => true
  | (.atom _) :: r => soundNotA r
  | e :: r => e.sound && !e.build.isEmpty && (notWrap e || singleItem (expandFlat e.build)) && soundNotA r
def soundNotB (multi : Bool) : List Ex → Bool
  | [] => true
  | e :: r => e.sound && !e.build.isEmpty && (notWrap e || (if multi then noTopOr (expandFlat e.build) else singleItem (expandFlat e.build)))
      && soundNotB multi r
end

/-- a `Not` list that mixes members having `NegationBuild` with `OrConditions` members (finding F8):
    gorm negates member-wise although the list is an OR unit -/
def notMixedList (es : List Ex) : Bool := es.length > 1 && es.any Ex.negatable && es.any Ex.isOr

mutual
def Ex.hasMixedNot : Ex → Bool
  | .not es => notMixedList es || anyMixedNot es
  | .and es => anyMixedNot es
  | .or es => anyMixedNot es
  | _ => false
def anyMixedNot : List Ex → Bool
  | [] => false
  | e :: r => e.hasMixedNot || anyMixedNot r
end

/-! ### constructors `clause.And / Or / Not` -/

def mkAnd : List Ex → Option Ex
  | [] => none
  | [e] => if e.isOr then some (.and [e]) else some e
  | es => some (.and es)

def mkOr : List Ex → Option Ex
  | [] => none
  | es => some (.or es)

def mkNot : List Ex → Option Ex
  | [] => none
  | [.and inner] => some (.not inner)
  | es => some (.not es)

/-! ### `Where.Build` -/

def firstNonSingleOr : List Ex → Nat → Option Nat
  | [], _ => none
  | e :: r, i => if e.isSingleOr then firstNonSingleOr r (i + 1) else some i

/-- `where.Exprs[0], where.Exprs[idx] = where.Exprs[idx], where.Exprs[0]` -/
def swap0 (es : List Ex) (idx : Nat) : List Ex :=
  match es[0]?, es[idx]? with
  | some a, some b => (es.set 0 b).set idx a
  | _, _ => es

/-- `if len(where.Exprs) == 1 { if andCondition, ok := where.Exprs[0].(AndConditions) … }` -/
def unwrapSingleAnd : List Ex → List Ex
  | [.and inner] => inner
  | es => es

def swapFirst (es1 : List Ex) : List Ex :=
  match firstNonSingleOr es1 0 with
  | some (i + 1) => swap0 es1 (i + 1)
  | _ => es1

def whereExprs (es : List Ex) : List Ex := swapFirst (unwrapSingleAnd es)

def whereBuild (es : List Ex) : Flat :=
  let es2 := whereExprs es
  buildList (es2.length > 1) true .and es2

def whereSound (es : List Ex) : Bool :=
  let es2 := whereExprs es
  soundList (es2.length > 1) es2

/-! ### condition forms (statement.go BuildCondition) and chain calls (chainable_api.go) -/

/-- what `BuildCondition` returns for one condition argument list: at most one expression -/
inductive Form where
  | raw (text : List Char) (named : Bool) (out : String) (flat : Flat)  -- string with/without `?`, `@name`
  | col (a : Atom)                                     -- `Where("name", v)`
  | fields (as : List Atom)                            -- map (sorted keys) / struct (non-zero fields)
  | expr (e : Ex)                                      -- a clause.Expression
  | group (es : List Ex)                               -- `*DB` argument: its WHERE expressions
  | empty                                              -- "", nil, empty map, zero struct, empty slice

def Form.cond : Form → Option Ex
  | .raw t n o f => some (.raw t n o f)
  | .col a => some (.atom a)
  | .fields as => mkAnd (as.map Ex.atom)
  | .expr e => mkAnd [e]
  | .group es =>
    match es with
    | [] => none
    | [.or xs] => mkAnd [.and xs]          -- `where.Exprs[0] = clause.AndConditions(orConds)`
    | _ => mkAnd es
  | .empty => none

inductive ChainOp | where_ | not_ | or_
deriving DecidableEq, Repr

/-- `db.Where / db.Not / db.Or` followed by `Where.MergeClause` (append) -/
def chainStep (exprs : List Ex) (op : ChainOp) (f : Form) : List Ex :=
  match f.cond with
  | none => exprs
  | some c =>
    match op with
    | .where_ => exprs ++ [c]
    | .not_ => exprs ++ (mkNot [c]).toList
    | .or_ => exprs ++ ((mkAnd [c]).bind (fun a => mkOr [a])).toList

def chainExprs (ops : List (ChainOp × Form)) : List Ex :=
  ops.foldl (fun acc p => chainStep acc p.1 p.2) []

/-! ### soft delete (soft_delete.go) and the missing-where guard (callbacks/helper.go) -/

structure WhereState where
  exprs : Option (List Ex)     -- `stmt.Clauses["WHERE"]` (none = no such clause)
  softEnabled : Bool           -- `stmt.Clauses["soft_delete_enabled"]`
deriving Repr

/-- `SoftDeleteQueryClause.ModifyStatement`; `filter` = `deleted_at IS NULL` (or the zero-value Eq) -/
def softDeleteModify (unscoped : Bool) (filter : Atom) (s : WhereState) : WhereState :=
  if s.softEnabled || unscoped then s
  else
    let es := s.exprs.getD []
    let es1 := if es.any Ex.isSingleOr then (mkAnd es).toList else es
    { exprs := some (es1 ++ [.atom filter]), softEnabled := true }

/-- `checkMissingWhereConditions`: true = `ErrMissingWhereClause` is added.
    `countsExprs` is the regenerated fact `Gen.guardRejectsEmptyWhere` (extract/gen_c09_fix.go): without the marker the
    guard written before the repair of F26 tests only the PRESENCE of the entry (`countsExprs = false`); the repaired
    guard has `else if isWhere { withCondition = len(whereClause.Exprs) > 0 }` (`countsExprs = true`) -/
def missingWhere (countsExprs : Bool) (allowGlobal : Bool) (s : WhereState) : Bool :=
  if allowGlobal then false
  else
    match s.exprs with
    | none => true
    | some es => if s.softEnabled then !(es.length > 1) else (countsExprs && es.isEmpty)

/-- the statement's WHERE state when the guard runs: the chain's conditions, a primary-key condition when the
    model value carries one (`ConvertToAssignments` / `Delete` / the soft-delete delete clause add it as one more
    Where expression), then the soft-delete modifier for a soft-delete model that is not Unscoped -/
def guardState (ops : List (ChainOp × Form)) (pk : Option Atom) (soft : Option Atom) (unscoped : Bool) : WhereState :=
  let es := chainExprs ops ++ (pk.map Ex.atom).toList
  let st0 : WhereState := { exprs := if es.isEmpty then none else some es, softEnabled := false }
  match soft with
  | some f => softDeleteModify unscoped f st0
  | none => st0


/-- the same when an earlier condition-free query (Count / Find / First …) already ran on this very statement
    (a handle with clone = 0 keeps its statement): its soft-delete filter and marker are still in the clauses -/
def guardStateAfterQuery (ops : List (ChainOp × Form)) (pk : Option Atom) (soft : Option Atom) (unscoped : Bool) : WhereState :=
  let pre : WhereState := match soft with
    | some f => softDeleteModify false f { exprs := none, softEnabled := false }
    | none => { exprs := none, softEnabled := false }
  let es := pre.exprs.getD [] ++ chainExprs ops ++ (pk.map Ex.atom).toList
  let st0 : WhereState := { exprs := if es.isEmpty then none else some es, softEnabled := pre.softEnabled }
  match soft with
  | some f => softDeleteModify unscoped f st0
  | none => st0

/-! ### the statement shared by the finishers of ONE handle (statement reuse)

  A handle with `clone = 0` (a chain kept in a variable, or the `*DB` a finisher returned) hands its very `Statement`
  to every finisher (gorm.go `getInstance`).  What one finisher leaves in `Statement.Clauses` is what the next one
  starts from.  `stmtStep` transcribes, per finisher, the entries touched:
  finisher_api.go `Count` (SELECT added and removed again, FROM stays), `Find/Scan/Rows/Pluck` (SELECT, FROM),
  `First/Last` (+ ORDER BY, LIMIT), `Take` (+ LIMIT) — all through callbacks/query.go `BuildQuerySQL`, which first
  runs the schema's QueryClauses (`softDeleteModify`); `Update` (callbacks/update.go: UpdateClauses = the modifier,
  then the model value's key as one Where expression per key column, entry UPDATE; SET is removed again),
  `Delete` (callbacks/delete.go: hard = key conditions, entries DELETE and FROM; soft_delete.go
  `SoftDeleteDeleteClause.ModifyStatement`: SET, key conditions, the modifier, entry UPDATE). -/

inductive FinKind | count | find | first | take | last | pluck | scan | rows | update | delete
deriving DecidableEq, Repr

def FinKind.isWrite : FinKind → Bool
  | .update | .delete => true
  | _ => false

/-- one call on the handle -/
inductive StmtOp where
  | cond (op : ChainOp) (f : Form)            -- Where / Not / Or
  | clauseWhere (es : List Ex)                -- Clauses(clause.Where{Exprs: es}) — `es` may be empty
  | unscoped                                  -- Unscoped()
  | fin (k : FinKind) (valueKey : List Atom) (same : Bool)
      -- `valueKey`: key conditions of the value handed to the finisher (`Delete(&keyed)`, `Updates(&keyed)`);
      -- `same`: that value IS the statement's Model (`Dest == Model`)

structure StmtCfg where
  soft : Option Atom          -- the soft-delete filter of the model (none = plain model)
  modelKey : List Atom        -- key conditions of the value given to `Model(..)`
  allowGlobal : Bool

structure StmtState where
  w : WhereState
  unscoped : Bool
  keys : List String          -- the other entries of `Statement.Clauses`
deriving Repr

def StmtState.fresh : StmtState := { w := { exprs := none, softEnabled := false }, unscoped := false, keys := [] }

/-- `Statement.AddClause(clause.Where{Exprs: new})` → `Where.MergeClause`: the entry exists afterwards, even when empty -/
def addWhere (s : WhereState) (new : List Ex) : WhereState :=
  { s with exprs := some (s.exprs.getD [] ++ new) }

def addKey (k : String) (ks : List String) : List String := if ks.contains k then ks else ks ++ [k]

def addKeys (new : List String) (ks : List String) : List String := new.foldl (fun acc k => addKey k acc) ks

/-- entries a finisher leaves behind besides WHERE and the marker -/
def FinKind.leaves (soft unscoped : Bool) : FinKind → List String
  | .count => ["FROM"]
  | .find | .scan | .rows | .pluck => ["SELECT", "FROM"]
  | .first | .last => ["LIMIT", "ORDER BY", "SELECT", "FROM"]
  | .take => ["LIMIT", "SELECT", "FROM"]
  | .update => ["UPDATE"]
  | .delete => if soft && !unscoped then ["SET", "UPDATE"] else ["DELETE", "FROM"]

/-- key conditions a write finisher adds: callbacks/update.go `ConvertToAssignments` (the Model value's key unless the
    updating value is the Model itself, then that value's key), callbacks/delete.go `Delete` / soft_delete.go (the
    deleted value's key, and the Model value's key when `Dest != Model`) -/
def writeKeys (cfg : StmtCfg) (k : FinKind) (valueKey : List Atom) (same : Bool) : List Atom :=
  match k with
  | .update => if same then valueKey else cfg.modelKey
  | .delete => valueKey ++ (if same then [] else cfg.modelKey)
  | _ => []

def modifyBy (cfg : StmtCfg) (unscoped : Bool) (w : WhereState) : WhereState :=
  match cfg.soft with
  | some f => softDeleteModify unscoped f w
  | none => w

/-- the WHERE state a finisher executes with (and leaves behind) -/
def finWhere (cfg : StmtCfg) (s : StmtState) (k : FinKind) (valueKey : List Atom) (same : Bool) : WhereState :=
  let ks := (writeKeys cfg k valueKey same).map Ex.atom
  match k with
  | .update =>
    let w1 := modifyBy cfg s.unscoped s.w
    -- `if _, ok := db.Statement.Clauses["SET"]; !ok { ConvertToAssignments … }`: a SET entry left by an earlier soft
    -- delete on this statement is reused, the key conditions are then not added
    if ks.isEmpty || s.keys.contains "SET" then w1 else addWhere w1 ks
  | .delete =>
    let w1 := if ks.isEmpty then s.w else addWhere s.w ks
    modifyBy cfg s.unscoped w1
  | _ => modifyBy cfg s.unscoped s.w

def stmtStep (cfg : StmtCfg) (s : StmtState) : StmtOp → StmtState
  | .cond op f =>
    let new := chainStep [] op f
    if new.isEmpty then s else { s with w := addWhere s.w new }
  | .clauseWhere es => { s with w := addWhere s.w es }
  | .unscoped => { s with unscoped := true }
  | .fin k vk same =>
    { s with w := finWhere cfg s k vk same, keys := addKeys (k.leaves cfg.soft.isSome s.unscoped) s.keys }

def stmtRun (cfg : StmtCfg) (s : StmtState) (ops : List StmtOp) : StmtState := ops.foldl (stmtStep cfg) s

/-- does the guard reject write finisher `k` issued in state `s`?  (`countsExprs`: see `missingWhere`) -/
def finRejected (countsExprs : Bool) (cfg : StmtCfg) (s : StmtState) (k : FinKind) (valueKey : List Atom) (same : Bool) : Bool :=
  k.isWrite && missingWhere countsExprs cfg.allowGlobal (finWhere cfg s k valueKey same)

end Gorm
