/-
  Where the prepared-statement cache comes from (C14, "session-level enabling shares the cache").

  gorm.go has two cooperating sites that put a handle into prepared-statement mode:
    * `Open` with `Config.PrepareStmt` (gorm.go:199-203):
          preparedStmt := NewPreparedStmtDB(db.ConnPool); db.cacheStore.Store(preparedStmtDBKey, preparedStmt); db.ConnPool = preparedStmt
    * `DB.Session(&Session{PrepareStmt: true})` (gorm.go:265-290):
          if v, ok := db.cacheStore.Load(preparedStmtDBKey); ok { preparedStmt = v.(*PreparedStmtDB) }
          else { preparedStmt = NewPreparedStmtDB(db.ConnPool); db.cacheStore.Store(preparedStmtDBKey, preparedStmt) }
          switch t := tx.Statement.ConnPool.(type) {
          case Tx: tx.Statement.ConnPool = &PreparedStmtTX{Tx: t, PreparedStmtDB: preparedStmt}
          default: tx.Statement.ConnPool = &PreparedStmtDB{ConnPool: db.Config.ConnPool, Mux: preparedStmt.Mux, Stmts: preparedStmt.Stmts} }
  plus `PreparedStmtDB.BeginTx` (prepare_stmt.go:143-162), which binds the transaction to the struct it was begun on
  (`&PreparedStmtTX{PreparedStmtDB: db, Tx: tx}`), and every other derivation (`Session` without PrepareStmt, `WithContext`,
  `Debug`, `getInstance`, nested `Transaction`), which keeps the ConnPool of the handle it starts from.

  A *cache object* is what `NewPreparedStmtDB` allocates: one `Mux` and one initial map.  A *struct* is a
  `PreparedStmtDB` value: it names the cache object whose `Mux` it holds and the map object it points to now (`none` =
  `Stmts == nil` after `Close`).  These structs are exactly the `views` of `Model/StmtCache.lean`; this file models
  how many cache objects one `gorm.Open` can end up with and which map a derived struct starts on.

  `SCfg` is computed from REGENERATED facts (`Gen.cacheSites`, `Gen.cacheLits`; extract/gen_c14b.go), so the model
  follows the source tree that is being checked.
-/
import GormModel.Gen.StmtCacheStoreFacts
import GormModel.Gen.StmtCacheSessFacts
namespace Gorm.SCS

/-- what the two creation sites and the derived-struct literals do -/
structure SCfg where
  openStores : Bool := true   -- Open: the cache that becomes `db.ConnPool` is the one stored under `preparedStmtDBKey`
  sessLoads : Bool := true    -- Session: looks the cache up first and reuses it (`preparedStmt = v.(*PreparedStmtDB)`)
  sessStores : Bool := true   -- Session: a cache created after a failed lookup is stored under the same key
  sessShares : Bool := true   -- Session: the derived struct / PreparedStmtTX is built from `preparedStmt` (its Mux, its Stmts)
  txBinds : Bool := true      -- BeginTx: `&PreparedStmtTX{PreparedStmtDB: db}` — the transaction uses the struct it was begun on
  sessReuse : Bool := false   -- Session (outside a transaction): the new handle gets `preparedStmt` ITSELF (repair of F14a);
                              --   false: a second struct `&PreparedStmtDB{Mux: preparedStmt.Mux, Stmts: preparedStmt.Stmts}`
deriving DecidableEq, Repr

def good : SCfg := {}

/-- the healthy configuration with either form of the session-level handle -/
def goodWith (reuse : Bool) : SCfg := { sessReuse := reuse }

/-- a `PreparedStmtDB` value -/
structure PStruct where
  cache : Nat                 -- identity of `Mux` (= the cache object it belongs to)
  map : Option Nat            -- identity of `Stmts` (`none` = nil)
deriving DecidableEq, Repr

/-- the `Statement.ConnPool` of a `*gorm.DB` handle -/
inductive Pool
  | plain                     -- the dialector's pool (`*sql.DB`)
  | plainTx                   -- a `*sql.Tx`
  | pdb (s : Nat)             -- `*PreparedStmtDB` (struct `s`)
  | ptx (s : Nat)             -- `*PreparedStmtTX` whose `PreparedStmtDB` is struct `s`
deriving DecidableEq, Repr

structure World where
  cfg : SCfg := {}
  store : Option Nat := none          -- `cacheStore[preparedStmtDBKey]` (a struct)
  nC : Nat := 0                       -- cache objects allocated so far (= calls of `NewPreparedStmtDB`)
  nM : Nat := 0                       -- map objects allocated so far
  structs : List PStruct := []
  handles : List Pool := []           -- handles in creation order; handle 0 is what `Open` returned
deriving DecidableEq, Repr

/-- operations on the handles of one `gorm.Open` -/
inductive DOp
  | session (h : Nat) (prep : Bool)   -- `h.Session(&Session{PrepareStmt: prep, …})`, `WithContext`, `Debug`, `getInstance` (prep = false)
  | begin (h : Nat)                   -- `h.Begin()` / the handle `Transaction` passes to its callback
  | reset (h : Nat)                   -- `Reset()` on the PreparedStmtDB behind handle `h`
  | close (h : Nat)                   -- `Close()` on the PreparedStmtDB behind handle `h`
deriving DecidableEq, Repr

/-- `NewPreparedStmtDB`: a fresh cache object (Mux) with a fresh map; returns the world and the new struct's index -/
def newCache (w : World) : World × Nat :=
  ({ w with nC := w.nC + 1, nM := w.nM + 1, structs := w.structs ++ [{ cache := w.nC, map := some w.nM }] }, w.structs.length)

/-- gorm.go `Open` -/
def openW (cfg : SCfg) (prepare : Bool) : World :=
  let w0 : World := { cfg := cfg }
  if prepare then
    let (w1, s) := newCache w0
    { w1 with store := if cfg.openStores then some s else none, handles := [.pdb s] }
  else { w0 with handles := [.plain] }

def structOf : Pool → Option Nat
  | .pdb s | .ptx s => some s
  | _ => none

def isTx : Pool → Bool
  | .plainTx | .ptx _ => true
  | _ => false

/-- the cache `Session(PrepareStmt)` works with: the stored one if the lookup is done and succeeds, else a new one
    (stored or not) -/
def lookupOrCreate (w : World) : World × Nat :=
  match (if w.cfg.sessLoads then w.store else none) with
  | some s => (w, s)
  | none =>
    let (w1, s) := newCache w
    ({ w1 with store := if w.cfg.sessStores then some s else w1.store }, s)

/-- the struct a `Session(PrepareStmt)` handle is built from: `preparedStmt` (the looked-up / created cache), or — fault
    `sessShares = false` — something that does not share its Mux / Stmts -/
def cacheFor (w : World) : World × Nat :=
  let r := lookupOrCreate w
  if w.cfg.sessShares then r else newCache r.1

def stepD (w : World) : DOp → World
  | .session h prep =>
    match w.handles[h]? with
    | none => w
    | some p =>
      if !prep then { w with handles := w.handles ++ [p] }
      else
        let r := cacheFor w
        if isTx p then { r.1 with handles := r.1.handles ++ [.ptx r.2] }
        else if w.cfg.sessReuse then
          -- `tx.Statement.ConnPool = preparedStmt`: the registered struct itself
          { r.1 with handles := r.1.handles ++ [.pdb r.2] }
        else
          -- `&PreparedStmtDB{Mux: preparedStmt.Mux, Stmts: preparedStmt.Stmts}`: a COPY pointing to the current map
          { r.1 with structs := r.1.structs ++ [r.1.structs[r.2]?.getD { cache := 0, map := none }],
                     handles := r.1.handles ++ [.pdb r.1.structs.length] }
  | .begin h =>
    match w.handles[h]? with
    | none => w
    | some .plain => { w with handles := w.handles ++ [.plainTx] }
    | some .plainTx => { w with handles := w.handles ++ [.plainTx] }        -- nested: SavePoint on the same Tx
    | some (.ptx s) => { w with handles := w.handles ++ [.ptx s] }
    | some (.pdb s) =>
      if w.cfg.txBinds then { w with handles := w.handles ++ [.ptx s] }
      else let (w1, s') := newCache w; { w1 with handles := w1.handles ++ [.ptx s'] }
  | .reset h =>
    match (w.handles[h]?).bind structOf with
    | none => w
    | some s =>
      match w.structs[s]? with
      | none => w
      | some st => { w with nM := w.nM + 1, structs := w.structs.set s { st with map := some w.nM } }
  | .close h =>
    match (w.handles[h]?).bind structOf with
    | none => w
    | some s =>
      match w.structs[s]? with
      | none => w
      | some st => { w with structs := w.structs.set s { st with map := none } }

def runD (cfg : SCfg) (prepare : Bool) (seq : List DOp) : World := seq.foldl stepD (openW cfg prepare)

/-- the cache object a handle works with -/
def cacheOfPool (w : World) (p : Pool) : Option Nat := (structOf p).bind fun s => (w.structs[s]?).map (·.cache)

/-- the map object a handle's struct points to now (`none`: not prepared, or closed) -/
def mapOfPool (w : World) (p : Pool) : Option Nat := (structOf p).bind fun s => (w.structs[s]?).bind (·.map)

/-- ONE cache per `gorm.Open`: at most one cache object was ever allocated, every struct belongs to cache object 0, and
    once it exists it is the stored one -/
def OneCache (w : World) : Prop :=
  w.nC ≤ 1 ∧ (∀ st ∈ w.structs, st.cache = 0) ∧ (w.nC = 1 → ∃ s, w.store = some s ∧ s < w.structs.length)

def oneCacheB (w : World) : Bool :=
  decide (w.nC ≤ 1) && w.structs.all (fun st => st.cache == 0)

/-- no Reset / Close in the sequence -/
def noRC : List DOp → Bool
  | [] => true
  | .reset _ :: _ => false
  | .close _ :: _ => false
  | _ :: r => noRC r


/-! ### concurrent FIRST prepared sessions: the lookup and the registration are two steps of `Session`

  UNREPAIRED gorm.go:268-273 is a check-then-act on `cacheStore` (`Load`, then `NewPreparedStmtDB` + `Store`; not
  `LoadOrStore`); the REPAIRED code (F14d) keeps the `Load` fast path and registers a cache it had to create with
  `v, _ = cacheStore.LoadOrStore(key, NewPreparedStmtDB(…)); preparedStmt = v.(*PreparedStmtDB)`.
  Goroutines calling `Session(&Session{PrepareStmt: true})` on handles of one database are modelled with the two
  steps every call consists of; a schedule is an arbitrary list of such steps (a step that is not enabled is skipped).
  `atomic` selects the transcription of the second step (regenerated: `genSessAtomic`).  `NewPreparedStmtDB` only
  allocates (it touches nothing shared), so it is merged with the `Store` / `LoadOrStore` that follows it. -/

structure CState where
  store : Option Nat := none                        -- `cacheStore[preparedStmtDBKey]` (a cache object)
  nC : Nat := 0                                     -- cache objects allocated so far
  regs : List Nat := []                             -- ghost: every cache object these calls wrote into `cacheStore`, latest first
  loaded : Nat → Option (Option Nat) := fun _ => none   -- what goroutine g's `Load` returned (`none` = not executed yet)
  got : Nat → Option Nat := fun _ => none           -- the cache goroutine g's new handle works with

inductive CAct
  | load (g : Nat)     -- `v, ok := db.cacheStore.Load(preparedStmtDBKey)`
  | build (g : Nat)    -- found: reuse `v`; not found: `NewPreparedStmtDB`, then `Store` (overwriting whatever is stored now)
                       --   resp. `LoadOrStore` (keeping and returning whatever is stored now)
deriving DecidableEq, Repr

def cstep (atomic : Bool) (s : CState) : CAct → CState
  | .load g =>
    match s.loaded g with
    | some _ => s
    | none => { s with loaded := fun j => if j = g then some s.store else s.loaded j }
  | .build g =>
    match s.loaded g, s.got g with
    | some (some c), none => { s with got := fun j => if j = g then some c else s.got j }
    | some none, none =>
      if atomic then
        -- `LoadOrStore(key, NewPreparedStmtDB(…))`: the new object is registered only if nothing is; the caller takes
        -- what is registered afterwards (the loser's object stays unused)
        match s.store with
        | some c => { s with nC := s.nC + 1, got := fun j => if j = g then some c else s.got j }
        | none => { s with nC := s.nC + 1, store := some s.nC, regs := s.nC :: s.regs,
                           got := fun j => if j = g then some s.nC else s.got j }
      else
        { s with nC := s.nC + 1, store := some s.nC, regs := s.nC :: s.regs,
                 got := fun j => if j = g then some s.nC else s.got j }
    | _, _ => s

def crun (atomic : Bool) (s : CState) (sched : List CAct) : CState := sched.foldl (cstep atomic) s

/-! ### the configuration of the CURRENT source tree, from the regenerated creation-site facts -/

open Gen in
/-- `DB.Session` registers the cache it creates with ONE `cacheStore.LoadOrStore(preparedStmtDBKey, NewPreparedStmtDB(…))`
    whose result is what `target` becomes, after a failed `Load` of the same key whose found-branch assigns the loaded
    value to the same `target`; and it contains no plain `Store` of a new cache -/
def genSessAtomic : Bool :=
  let key := "preparedStmtDBKey"
  let regs := cacheRegisters.filter (·.fn == "DB.Session")
  let inSess := cacheSites.filter (·.fn == "DB.Session")
  regs.length == 1 && inSess.length == 1 && inSess.all (fun s => !s.stored && s.bound == "") &&
  regs.all (fun r => r.key == key && r.valueIsNewCache && r.resultVar != "" && r.target != "" &&
                     r.afterFailedLoad && r.loadKey == key && r.foundTarget == r.target &&
                     r.foundReuse == r.loadVar ++ ".(*PreparedStmtDB)")

open Gen in
/-- the variable `DB.Session` holds the looked-up / created cache in -/
def genSessVar : String :=
  if genSessAtomic then (((cacheRegisters.filter (·.fn == "DB.Session")).head?).map (·.target)).getD "?"
  else ((((cacheSites.filter (·.fn == "DB.Session")).head?).map (·.bound)).getD "?")

open Gen in
def genSCfg : SCfg :=
  let key := "preparedStmtDBKey"
  let inOpen := cacheSites.filter (·.fn == "Open")
  let inSess := cacheSites.filter (·.fn == "DB.Session")
  let field (l : CacheLit) (k : String) : String := ((l.fields.find? (·.1 == k)).map (·.2)).getD ""
  let sessLits := cacheLits.filter (·.fn == "DB.Session")
  let bound := genSessVar
  -- what the new handle gets outside a transaction (every case of the type switch that is not the `Tx` case)
  let plainPools := sessionPools.filter (·.inCase != "Tx")
  { openStores := !inOpen.isEmpty && inOpen.all (fun s => s.bound != "" && s.stored && s.storeKey == key && s.poolAssigned != ""),
    sessLoads := genSessAtomic ||
                 (!inSess.isEmpty && inSess.all (fun s => s.afterFailedLoad && s.loadKey == key && s.loadVar != "" &&
                   s.reuse == s.loadVar ++ ".(*PreparedStmtDB)")),
    sessStores := genSessAtomic || (!inSess.isEmpty && inSess.all (fun s => s.bound != "" && s.stored && s.storeKey == key)),
    sessShares := !sessLits.isEmpty && sessLits.all (fun l =>
                   if l.typ == "PreparedStmtTX" then field l "PreparedStmtDB" == bound
                   else field l "Mux" == bound ++ ".Mux" && field l "Stmts" == bound ++ ".Stmts") &&
                  !plainPools.isEmpty && plainPools.all (fun p => p.literal == "PreparedStmtDB" || (p.literal == "" && p.rhs == bound)),
    txBinds := (cacheLits.filter (·.fn == "PreparedStmtDB.BeginTx")).all (fun l => l.typ == "PreparedStmtTX" && l.recv != "" && field l "PreparedStmtDB" == l.recv) &&
               (cacheLits.any (·.fn == "PreparedStmtDB.BeginTx")),
    sessReuse := !plainPools.isEmpty && plainPools.all (fun p => p.literal == "" && p.rhs == bound) &&
                 (sessLits.all fun l => l.typ != "PreparedStmtDB") }

end Gorm.SCS
