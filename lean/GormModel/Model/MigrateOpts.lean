/-
  C20 — the configuration switches AutoMigrate reads about relations, and what `ReorderModels`' `parseDependence`
  (migrator/migrator.go lines 915-962) reads off a model's relationships under them.

  `gorm.Config.DisableForeignKeyConstraintWhenMigrating` switches off foreign-key CONSTRAINTS (AutoMigrate lines 167-179,
  CreateTable lines 276-289) — not tables: `ReorderModels` does not read it, so the tables a model needs (parents of its
  belongs-to fields, many2many join tables and the far side through them) are auto-added whatever its value.
  `gorm.Config.IgnoreRelationshipsWhenMigrating` switches the whole relationship scan off: no constraints AND no
  auto-added tables.
-/
import GormModel.Model.Migrate
namespace Gorm.Mig

/-- the two relation switches of `gorm.Config` -/
structure MigOpts where
  disableFK : Bool      -- Config.DisableForeignKeyConstraintWhenMigrating
  ignoreRel : Bool      -- Config.IgnoreRelationshipsWhenMigrating
deriving Repr, DecidableEq

inductive RelKind where
  | belongsTo | hasOne | hasMany | many2many
deriving Repr, DecidableEq

/-- what the migrator reads off one `*schema.Relationship` of a model -/
structure RelDecl where
  kind : RelKind
  target : Str                  -- rel.FieldSchema.Table
  ignoreMigration : Bool        -- rel.Field.IgnoreMigration
  /-- `rel.ParseConstraint()`: `none` = nil (switched off by `constraint:-`, or a belongs-to folded into the mirror
      has-one/has-many of the parent), else (constraint name, c.Schema.Table, c.ReferenceSchema.Table) -/
  con : Option (Str × Str × Str)
  join : Option Str             -- rel.JoinTable.Table (many2many)
deriving Repr, DecidableEq

/-- a model as `parseDependence` sees it: its table and `Schema.Relationships.Relations` in the order the loop visits
    them (a Go map: any order) -/
structure ModelRels where
  table : Str
  rels : List RelDecl
deriving Repr, DecidableEq

/-- the relations the loop body runs for (line 929 `if !m.DB.IgnoreRelationshipsWhenMigrating`, line 931
    `if rel.Field.IgnoreMigration { continue }`).  `DisableForeignKeyConstraintWhenMigrating` is NOT read here. -/
def relVisited (o : MigOpts) (m : ModelRels) : List RelDecl :=
  if o.ignoreRel then [] else m.rels.filter (fun r => !r.ignoreMigration)

/-- line 934-936: `c != nil && c.Schema == dep.Statement.Schema && c.Schema != c.ReferenceSchema` → `Depends` -/
def relDepends (t : Str) : List RelDecl → List Str
  | [] => []
  | r :: rs =>
    match r.con with
    | some (_, s, ref) => if s = t ∧ s ≠ ref then ref :: relDepends t rs else relDepends t rs
    | none => relDepends t rs

/-- line 938-940: `beDependedOn[rel.FieldSchema] = true` for has-one / has-many (complete when the deferred calls run) -/
def beDependedOn (rs : List RelDecl) : List Str :=
  (rs.filter (fun r => r.kind = .hasOne ∨ r.kind = .hasMany)).map (·.target)

/-- line 942-953, in registration order: per relation with a join table the deferred parse of (the field schema when
    it is also a has-one/has-many target, else nothing — the deferred `dep.Depends = append(…)` runs after `valuesMap`
    copied `dep`, so it is lost) and of the join table -/
def relJoinsFwd (be : List Str) : List RelDecl → List (Option Str × Str)
  | [] => []
  | r :: rs =>
    match r.join with
    | some j => ((if r.target ∈ be then some r.target else none), j) :: relJoinsFwd be rs
    | none => relJoinsFwd be rs

/-- deferred calls run last-in first-out -/
def relJoins (rs : List RelDecl) : List (Option Str × Str) := (relJoinsFwd (beDependedOn rs) rs).reverse

/-- what `parseDependence` extracts from one model under the configuration `o` -/
def relDeps (o : MigOpts) (m : ModelRels) : ModelDeps :=
  { table := m.table, depends := relDepends m.table (relVisited o m), joins := relJoins (relVisited o m) }

/-- `ReorderModels(values, autoAdd)` of a `Migrator` whose `DB.Config` carries `o` -/
def reorderModelsOpt (o : MigOpts) (ms : List ModelRels) (values : List Str) (autoAdd : Bool) : List Str :=
  reorderModels (ms.map (relDeps o)) values autoAdd

/-- names of the relation constraints AutoMigrate / CreateTable reconcile for the model's own table (lines 167-179 and
    276-289: the loop sits under `!DisableForeignKeyConstraintWhenMigrating && !IgnoreRelationshipsWhenMigrating`,
    skips `IgnoreMigration` fields and keeps constraints with `constraint.Schema == stmt.Schema`) -/
def ownedRelFks (t : Str) : List RelDecl → List Str
  | [] => []
  | r :: rs =>
    if r.ignoreMigration then ownedRelFks t rs else
    match r.con with
    | some (n, s, _) => if s = t then n :: ownedRelFks t rs else ownedRelFks t rs
    | none => ownedRelFks t rs

def fksOpt (o : MigOpts) (m : ModelRels) : List Str :=
  if o.disableFK || o.ignoreRel then [] else ownedRelFks m.table m.rels

/-- the model declaration AutoMigrate works with under `o`: the options touch the relation constraints only — fields,
    check constraints, unique constraints and indexes are reconciled whatever they say -/
def modelDeclOpt (o : MigOpts) (m : ModelRels) (fields : List FieldDecl) (checks indexes : List Str) : ModelDecl :=
  { table := m.table, fields := fields, fks := fksOpt o m, checks := checks, indexes := indexes }

end Gorm.Mig
