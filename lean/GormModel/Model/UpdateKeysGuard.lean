/-
  C09 (round 4) — which primary keys an UPDATE turns into WHERE conditions (callbacks/update.go ConvertToAssignments),
  as a function of the code that exists (regenerated facts, extract/gen_c09_upd.go → Gen/UpdateKeyFacts.lean).

      if !updatingValue.CanAddr() || stmt.Dest != stmt.Model {        -- the updating value is NOT the Model itself
        switch stmt.ReflectValue.Kind() { case Slice: … WHERE key IN (Model slice's keys)
                                          case Struct: … WHERE key = (Model value's key) } }            -- "model block"
      …  default: switch updatingValue.Kind() { case reflect.Struct: for each column:
           if !field.PrimaryKey || !updatingValue.CanAddr() || stmt.Dest != stmt.Model { … SET … }
           else { … WHERE key = (updating value's key) } }                                              -- "value block"

  `same` below = the updating value is addressable AND is the statement's Model (`db.Updates(&rec)`, `db.Save`): only then
  is its key a condition; the key inside a SEPARATE value (`db.Model(&T{}).Updates(T{ID: 7, …})`) goes to SET.
-/
import GormModel.Model.Where
import GormModel.Gen.UpdateKeyFacts
namespace Gorm

/-- which key blocks ConvertToAssignments contains, and what guards the value block -/
structure UpdateKeyCode where
  modelBlockStruct : Bool     -- WHERE from stmt.ReflectValue's key, struct case, under `!CanAddr || Dest != Model`
  modelBlockSlice : Bool      -- the same for a slice Model
  valueBlock : Bool           -- WHERE from updatingValue's key exists
  valueBlockNeedsSame : Bool  -- … and is reached only when `updatingValue.CanAddr() && stmt.Dest == stmt.Model`
deriving DecidableEq, Repr

def notSameGuard : String := "!updatingValue.CanAddr() || stmt.Dest != stmt.Model"

/-- the code of the tree under verification, read off the regenerated facts -/
def updateKeyCodeOfFacts : UpdateKeyCode :=
  { modelBlockStruct := Gen.updateWhereSites.any (fun s =>
      s.source == "reflect" && s.expr == "Eq" && s.guards.head? == some notSameGuard &&
      s.guards.contains "switch stmt.ReflectValue.Kind() case reflect.Struct"),
    modelBlockSlice := Gen.updateWhereSites.any (fun s =>
      s.source == "reflect" && s.expr == "IN" && s.guards.head? == some notSameGuard &&
      s.guards.contains "switch stmt.ReflectValue.Kind() case reflect.Slice, reflect.Array"),
    valueBlock := Gen.updateWhereSites.any (fun s => s.source == "updating"),
    valueBlockNeedsSame := Gen.updateValueKeyInElse &&
      Gen.updateValueKeyGuard.contains "!updatingValue.CanAddr()" && Gen.updateValueKeyGuard.contains "stmt.Dest != stmt.Model" &&
      -- every site reading the updating value's key is that ELSE
      (Gen.updateWhereSites.filter (fun s => s.source == "updating")).length == 1 }

/-- the key conditions an update adds for a struct Model / struct value -/
def updateKeysOf (code : UpdateKeyCode) (modelKey valueKey : List Atom) (same : Bool) : List Atom :=
  (if code.modelBlockStruct && !same then modelKey else []) ++
  (if code.valueBlock && (same || !code.valueBlockNeedsSame) then valueKey else [])

/-- the guard's decision for an update whose key conditions come from `updateKeysOf code` (mirrors `finWhere … .update`,
    Model/Where.lean, incl. the rule that a SET entry left on the statement skips ConvertToAssignments) -/
def finRejectedUpd (ce : Bool) (code : UpdateKeyCode) (cfg : StmtCfg) (s : StmtState) (valueKey : List Atom) (same : Bool) : Bool :=
  let ks := (updateKeysOf code cfg.modelKey valueKey same).map Ex.atom
  let w1 := modifyBy cfg s.unscoped s.w
  missingWhere ce cfg.allowGlobal (if ks.isEmpty || s.keys.contains "SET" then w1 else addWhere w1 ks)

end Gorm
