/-
  Model of clause/limit.go: `Limit.MergeClause` and the chain methods
  `DB.Limit` / `DB.Offset` (chainable_api.go), which call
  `Statement.AddClause(clause.Limit{Limit: &n})` resp. `clause.Limit{Offset: n}`.

  Core-only, total, computable.  Tied to the code by the correspondence suite
  `limit.merge` (real `clause.Limit.MergeClause` on the same call sequences).
-/
namespace Gorm

/-- `clause.Limit`: `Limit *int`, `Offset int`. -/
structure Limit where
  limit  : Option Int
  offset : Int
deriving Repr, DecidableEq, Inhabited

/-- `Limit.MergeClause`: `new` is the receiver, `old` the expression already stored
    in the statement's LIMIT clause (if it is a `clause.Limit`). -/
def Limit.merge (new : Limit) (old : Option Limit) : Limit :=
  match old with
  | none => new
  | some v =>
    let lim := if (new.limit = none ∨ new.limit = some 0) ∧ v.limit ≠ none then v.limit else new.limit
    let off :=
      if new.offset = 0 ∧ v.offset > 0 then v.offset
      else if new.offset < 0 then 0 else new.offset
    { limit := lim, offset := off }

/-- A chain call that touches the LIMIT clause. -/
inductive LimCall where
  | limit  (n : Int)
  | offset (n : Int)
deriving Repr, DecidableEq

def LimCall.toLimit : LimCall → Limit
  | .limit n  => { limit := some n, offset := 0 }
  | .offset n => { limit := none, offset := n }

/-- State of `Statement.Clauses["LIMIT"]` after a sequence of chain calls. -/
def applyCalls (st : Option Limit) (cs : List LimCall) : Option Limit :=
  cs.foldl (fun s c => some (c.toLimit.merge s)) st

/-- What `Limit.Build` prints: the effective LIMIT value (if a LIMIT is printed)
    and the effective OFFSET value (if an OFFSET is printed). -/
def Limit.effLimit (l : Limit) : Option Int :=
  match l.limit with
  | some n => if n ≥ 0 then some n else none
  | none => none

def Limit.effOffset (l : Limit) : Option Int :=
  if l.offset > 0 then some l.offset else none

def effLimitOf (st : Option Limit) : Option Int := st.bind Limit.effLimit
def effOffsetOf (st : Option Limit) : Option Int := st.bind Limit.effOffset

/-! Specification of "later positive values override earlier ones, negative values cancel":
    the last *non-zero* value of the given kind decides. -/
/-- last non-zero `Limit n` argument, scanning from the right (none if there is none) -/
def lastNZLimit (cs : List LimCall) : Option Int :=
  cs.foldl (fun acc c => match c with
    | .limit n => if n ≠ 0 then some n else acc
    | .offset _ => acc) none

def lastNZOffset (cs : List LimCall) : Option Int :=
  cs.foldl (fun acc c => match c with
    | .offset n => if n ≠ 0 then some n else acc
    | .limit _ => acc) none

def hasLimitCall (cs : List LimCall) : Bool :=
  cs.any (fun c => match c with | .limit _ => true | .offset _ => false)

end Gorm
