/-
  "The primary key of the model value" on Update (C02 round 4).

  Transcription of the ORDER of effects in callbacks/update.go `ConvertToAssignments` for `db.Model(&value).Update…(…)`
  (`stmt.Dest != stmt.Model`, `stmt.ReflectValue` an addressable struct):

    1. key block  — `for _, field := range stmt.Schema.PrimaryFields { if value, isZero := field.ValueOf(ctx, stmt.ReflectValue);
                    !isZero { stmt.AddClause(clause.Where{Exprs: {clause.Eq{Column: field.DBName, Value: value}}}) } }`
    2. assignments — per assigned column `set = append(set, clause.Assignment{…})` and `assignValue(field, value)`, which
                    WRITES the new value into the model value (`field.Set(ctx, stmt.ReflectValue, value)`)

  `keyFirst` is the regenerated fact `Gen.updateKeyBlockBeforeAssignments` (extract/gen_c02.go): the key block precedes every
  `assignValue(…)` call.  With the opposite order the key block would read the key the assignments have just written.
  Tied to the real code by suite rekey.tie (harness/c02_rekey.go).
-/
import GormModel.Gen.CondKeyFacts
namespace Gorm

/-- the model value in memory: db column ↦ value (0 = the Go zero value) -/
abbrev UpdRec := List (String × Int)

def UpdRec.get (m : UpdRec) (c : String) : Int :=
  match m with
  | [] => 0
  | p :: r => if p.1 = c then p.2 else UpdRec.get r c

/-- `field.Set(ctx, stmt.ReflectValue, value)` — only columns that are fields of the model -/
def UpdRec.set (m : UpdRec) (c : String) (v : Int) : UpdRec :=
  match m with
  | [] => []
  | p :: r => if p.1 = c then (c, v) :: r else p :: UpdRec.set r c v

/-- the key block, struct case: one `Eq` per NON-ZERO primary field of the value -/
def updKeyConds (pks : List String) (m : UpdRec) : List (String × Int) :=
  (pks.map (fun k => (k, m.get k))).filter (fun p => p.2 != 0)

def updAssignAll (m : UpdRec) (sets : List (String × Int)) : UpdRec :=
  sets.foldl (fun acc p => acc.set p.1 p.2) m

structure UpdOut where
  conds : List (String × Int)    -- WHERE conditions added for the model value's key
  set : List (String × Int)      -- the SET list
  after : UpdRec                   -- the model value after the call
deriving DecidableEq, Repr

def updConvertToAssignments (keyFirst : Bool) (pks : List String) (m : UpdRec) (sets : List (String × Int)) : UpdOut :=
  if keyFirst then { conds := updKeyConds pks m, set := sets, after := updAssignAll m sets }
  else
    let m' := updAssignAll m sets
    { conds := updKeyConds pks m', set := sets, after := m' }

/-! ### what the UPDATE does to a table (reference semantics: `UPDATE t SET sets WHERE conds`, all conds AND-ed) -/

def updRowMatches (conds : List (String × Int)) (r : UpdRec) : Bool := conds.all (fun p => r.get p.1 == p.2)

def updApplyUpdate (conds sets : List (String × Int)) (tbl : List UpdRec) : List UpdRec :=
  tbl.map (fun r => if updRowMatches conds r then updAssignAll r sets else r)

/-- the whole call on a table -/
def updateThroughModel (keyFirst : Bool) (pks : List String) (m : UpdRec) (sets : List (String × Int)) (tbl : List UpdRec) : List UpdRec :=
  let o := updConvertToAssignments keyFirst pks m sets
  updApplyUpdate o.conds o.set tbl

end Gorm
