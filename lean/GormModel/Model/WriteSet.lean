/-
  Model of gorm's write-set computation (property C10).

  Transcribed from (pinned /repo):
    * schema/field.go   `ParseField` — "setup permission" block (tags `-`, `->`, `<-`)            → `permOfTags`
    * schema/schema.go  `LookUpField`, `DBNames`, `FieldsWithDefaultDBValue`                       → `Schema.*`
    * statement.go      `matchName`, `Statement.SelectAndOmitColumns`                              → `matchName`, `selectAndOmit`
    * callbacks/update.go `ConvertToAssignments` (map branch, struct branch, primary-key conditions,
                          auto-update-time injection)                                               → `assignmentsOfMap`, `assignmentsOfStruct`
    * callbacks/create.go `ConvertToCreateValues` (column choice for struct / slice,
                          `OnConflict.UpdateAll` expansion)                                         → `createColumns`, `upsertAssignments`
    * callbacks/helper.go `ConvertMapToValuesForCreate`, `ConvertSliceOfMapToValuesForCreate`       → `createColumnsMap`, `createColumnsMaps`
    * finisher_api.go   `Save` (struct branch: routing + forced `*`), `Update(s)`, `UpdateColumn(s)` → `saveSelects`, `saveRoute`, `WritePath`

  Strings are `List Char`.  A struct value is abstracted to the list of Go field names whose value is
  non-zero (`field.ValueOf` → `isZero`), a map value to its (sorted) key list with an "is nil" flag per key.
  Go maps written by the code (`results`) are association lists where the most recent write is in front
  (`lookup` finds the latest write).  Core-only, total, computable.
-/
namespace Gorm.WriteSet

abbrev Col := List Char

/-- `"*"` -/
def star : Col := ['*']
/-- `clause.Associations = "~~~as~~~"` -/
def associations : Col := ['~', '~', '~', 'a', 's', '~', '~', '~']

/-! ## schema/field.go — permission tags -/

/-- `strings.ToLower` on ASCII -/
def toLower (s : Col) : Col := s.map Char.toLower

/-- `strings.TrimSpace` (ASCII white space) -/
def trimSpace (s : Col) : Col :=
  ((s.dropWhile Char.isWhitespace).reverse.dropWhile Char.isWhitespace).reverse

/-- `strings.Contains(s, sub)` -/
def containsSub (sub : Col) : Col → Bool
  | [] => sub.isEmpty
  | c :: t => sub.isPrefixOf (c :: t) || containsSub sub t

structure Perm where
  creatable : Bool
  updatable : Bool
  readable : Bool
  ignoreMigration : Bool
deriving Repr, DecidableEq

/-- `field.TagSettings[k]` -/
def tagGet (tags : List (Col × Col)) (k : Col) : Option Col := tags.lookup k

/-- schema/field.go ParseField, block `// setup permission` (three consecutive `if`s), starting from
    `Creatable = Updatable = Readable = true`. `tags` is the result of `ParseTagSetting` (keys upper-cased;
    a bare key maps to itself). -/
def permOfTags (tags : List (Col × Col)) : Perm :=
  let p0 : Perm := ⟨true, true, true, false⟩
  -- if val, ok := field.TagSettings["-"]; ok { switch strings.ToLower(strings.TrimSpace(val)) …
  let p1 : Perm :=
    match tagGet tags ['-'] with
    | none => p0
    | some v =>
      let v := toLower (trimSpace v)
      if v = ['-'] then ⟨false, false, false, false⟩
      else if v = "all".toList then ⟨false, false, false, true⟩
      else if v = "migration".toList then { p0 with ignoreMigration := true }
      else p0
  -- if v, ok := field.TagSettings["->"]; ok { Creatable = false; Updatable = false; Readable = (lower(v) != "false") }
  let p2 : Perm :=
    match tagGet tags ['-', '>'] with
    | none => p1
    | some v => { p1 with creatable := false, updatable := false, readable := !(toLower v == "false".toList) }
  -- if v, ok := field.TagSettings["<-"]; ok { Creatable = true; Updatable = true; if v != "<-" { … Contains … } }
  let p3 : Perm :=
    match tagGet tags ['<', '-'] with
    | none => p2
    | some v =>
      if v = ['<', '-'] then { p2 with creatable := true, updatable := true }
      else { p2 with creatable := containsSub "create".toList v, updatable := containsSub "update".toList v }
  p3

/-! ## schema -/

/-- what the write paths read from a parsed `schema.Field` -/
structure FieldSpec where
  name : Col               -- Field.Name
  dbName : Col             -- Field.DBName ("" for a field without column)
  primaryKey : Bool
  creatable : Bool
  updatable : Bool
  readable : Bool
  autoCreateTime : Bool     -- Field.AutoCreateTime > 0
  autoUpdateTime : Bool     -- Field.AutoUpdateTime > 0
  hasDefault : Bool         -- Field.HasDefaultValue
  defaultIface : Bool       -- Field.DefaultValueInterface != nil
  defaultNull : Bool        -- strings.EqualFold(Field.DefaultValue, "NULL")
deriving Repr, DecidableEq

structure Schema where
  table : Col                  -- Statement.Table
  fields : List FieldSpec       -- Schema.Fields (distinct names; distinct non-empty column names)
  rels : List Col              -- names of Schema.Relationships.Relations
  defaultDB : List Col         -- column names of Schema.FieldsWithDefaultDBValue, in order
deriving Repr

/-- `Schema.DBNames` -/
def Schema.dbNames (s : Schema) : List Col := (s.fields.filter (fun f => f.dbName != [])).map (·.dbName)

/-- `Schema.FieldsByDBName[n]` -/
def Schema.byDBName (s : Schema) (n : Col) : Option FieldSpec :=
  if n = [] then none else s.fields.find? (fun f => f.dbName == n)

/-- `Schema.FieldsByName[n]` -/
def Schema.byName (s : Schema) (n : Col) : Option FieldSpec := s.fields.find? (fun f => f.name == n)

/-- schema/schema.go `LookUpField`: by column name first, then by Go field name -/
def Schema.lookUpField (s : Schema) (n : Col) : Option FieldSpec :=
  match s.byDBName n with
  | some f => some f
  | none => s.byName n

/-! ## statement.go — matchName -/

/-- Go regexp `\w` -/
def isWord (c : Char) : Bool := c.isAlphanum || c == '_'

/-- anchored `\W?(\w+?)\W?` : the captured word run -/
def stripW (s : Col) : Option Col :=
  let s1 := match s with
    | c :: t => if isWord c then s else t
    | [] => []
  let s2 := match s1.reverse with
    | c :: t => if isWord c then s1 else t.reverse
    | [] => []
  if s2 != [] && s2.all isWord then some s2 else none

/-- every way to write `s = a ++ '.' :: b` -/
def dotSplits : Col → List (Col × Col)
  | [] => []
  | c :: t => (if c = '.' then [([], t)] else []) ++ (dotSplits t).map (fun ab => (c :: ab.1, ab.2))

/-- `(\*)|\W?(\w+?)\W?` -/
def colPart (b : Col) : Option Col := if b = star then some star else stripW b

/-- statement.go `matchName`: regexp `^(?:\W?(\w+?)\W?\.)?(?:(\*)|\W?(\w+?)\W?)$` → (table, column);
    `("", "")` when it does not match -/
def matchName (s : Col) : Col × Col :=
  match (dotSplits s).filterMap (fun ab =>
      match stripW ab.1, colPart ab.2 with
      | some t, some c => some (t, c)
      | _, _ => none) with
  | r :: _ => r
  | [] =>
    match colPart s with
    | some c => ([], c)
    | none => ([], [])

/-! ## statement.go — SelectAndOmitColumns -/

abbrev Results := List (Col × Bool)

/-- the keys one `processColumn(column, result)` call assigns `result` to (Schema != nil) -/
def resolve (s : Schema) (column : Col) : List Col :=
  if column = star then s.dbNames                                   -- column == "*"
  else if column = associations then s.rels                         -- column == clause.Associations
  else
    match s.lookUpField column with
    | some f =>
      if f.dbName != [] then [f.dbName]                             -- field != nil && field.DBName != ""
      else resolveByName s column
    | none => resolveByName s column
where
  /-- the `matchName` arm and the final `else` -/
  resolveByName (s : Schema) (column : Col) : List Col :=
    let (table, col) := matchName column
    if col != [] && (table == s.table || table == []) then
      if col = star then s.dbNames else [col]
    else [column]

/-- `processColumn`: state = (results, notRestricted) -/
def processColumn (s : Schema) (st : Results × Bool) (column : Col) (result : Bool) : Results × Bool :=
  ((resolve s column).map (fun k => (k, result)) ++ st.1, if column = star then result else st.2)

/-- key written by the permission loop: `name := field.DBName; if name == "" { name = field.Name }` -/
def FieldSpec.key (f : FieldSpec) : Col := if f.dbName = [] then f.name else f.dbName

/-- one iteration of `for _, field := range stmt.Schema.FieldsByName` -/
def permStep (requireCreate requireUpdate : Bool) (r : Results) (f : FieldSpec) : Results :=
  if requireCreate && !f.creatable then (f.key, false) :: r
  else if requireUpdate && !f.updatable then (f.key, false) :: r
  else r

/-- `Statement.SelectAndOmitColumns(requireCreate, requireUpdate)` → (results, restricted) -/
def selectAndOmit (s : Schema) (selects omits : List Col) (requireCreate requireUpdate : Bool) : Results × Bool :=
  let st1 := selects.foldl (fun st c => processColumn s st c true) ([], false)
  let st2 := omits.foldl (fun st c => processColumn s st c false) st1
  let r3 := s.fields.foldl (permStep requireCreate requireUpdate) st2.1
  (r3, !st2.2 && !selects.isEmpty)

/-- the recurring test `if v, ok := selectColumns[k]; (ok && v) || (!ok && !restricted)` -/
def allowed (sel : Results × Bool) (k : Col) : Bool :=
  match sel.1.lookup k with
  | some v => v
  | none => !sel.2

/-! ## callbacks/update.go — ConvertToAssignments -/

/-- `value[k] == nil` for a map given as (key, isNil) list: absent or nil -/
def valueNil (keys : List (Col × Bool)) (k : Col) : Bool :=
  match keys.lookup k with
  | some b => b
  | none => true

/-- first block of `ConvertToAssignments` (`!updatingValue.CanAddr() || stmt.Dest != stmt.Model`, struct model):
    every non-zero primary field of the MODEL value becomes `WHERE pk = v` -/
def modelConds (s : Schema) (modelNz : List Col) : List Col :=
  (s.fields.filter fun f => f.primaryKey && f.dbName != [] && modelNz.contains f.name).map (·.dbName)

/-- map branch.  `keys` = the map's keys in `sort.Strings` order with "value is nil" flags.
    Returns the SET column list in order. -/
def assignmentsOfMap (s : Schema) (selects omits : List Col) (skipHooks : Bool)
    (keys : List (Col × Bool)) : List Col :=
  let sel := selectAndOmit s selects omits false true
  let part1 := keys.filterMap fun kv =>
    match s.lookUpField kv.1 with
    | some f =>
      if f.dbName != [] then (if allowed sel f.dbName then some f.dbName else none)
      else none                                   -- only assignValue, nothing in SET
    | none => if allowed sel kv.1 then some kv.1 else none
  -- if !stmt.SkipHooks && stmt.Schema != nil { for _, dbName := range stmt.Schema.DBNames { …
  let part2 := if skipHooks then [] else s.dbNames.filterMap fun db =>
    match s.lookUpField db with
    | some f =>
      if f.autoUpdateTime && valueNil keys f.name && valueNil keys f.dbName
          && (sel.1.lookup f.dbName != some false) then some f.dbName else none
    | none => none
  part1 ++ part2

/-- struct branch, the test deciding whether field `f` (of the updating schema) is appended to SET:
    `if !field.PrimaryKey || !updatingValue.CanAddr() || stmt.Dest != stmt.Model {`
    `  if v, ok := selectColumns[field.DBName]; (ok && v) || (!ok && (!restricted || (!stmt.SkipHooks && field.AutoUpdateTime > 0))) {`
    `    value, isZero := field.ValueOf(…); if !stmt.SkipHooks && field.AutoUpdateTime > 0 { value = NOW; isZero = false }`
    `    if (ok || !isZero) && field.Updatable {` -/
def structWrites (sel : Results × Bool) (destIsModel skipHooks : Bool) (nz : List Col) (f : FieldSpec) : Bool :=
  let tracked := !skipHooks && f.autoUpdateTime
  let look := sel.1.lookup f.dbName
  let guard := match look with
    | some v => v
    | none => !sel.2 || tracked
  let isZero := if tracked then false else !nz.contains f.name
  (!f.primaryKey || !destIsModel) && (guard && (look.isSome || !isZero) && f.updatable)

/-- struct branch.  `s` = statement schema, `upd` = schema of the updating value (`= s` unless `Dest` is
    another struct type); `destIsModel` = `updatingValue.CanAddr() && stmt.Dest == stmt.Model`;
    `nz` = Go names of the non-zero fields of the updating value; `modelNz` = of the model value.
    Returns (SET columns, primary-key columns added to WHERE). -/
def assignmentsOfStruct (s upd : Schema) (selects omits : List Col) (destIsModel skipHooks : Bool)
    (nz modelNz : List Col) : List Col × List Col :=
  let sel := selectAndOmit s selects omits false true
  let set := s.dbNames.filterMap fun db =>
    match upd.lookUpField db with
    | none => none
    | some f => if structWrites sel destIsModel skipHooks nz f then some f.dbName else none
  let conds :=
    if destIsModel then
      s.dbNames.filterMap fun db =>
        match upd.lookUpField db with
        | some f => if f.primaryKey && nz.contains f.name then some f.dbName else none
        | none => none
    else modelConds s modelNz
  (set, conds)

/-! ## callbacks/create.go, callbacks/helper.go -/

/-- first loop of `ConvertToCreateValues`: `if field := …; !field.HasDefaultValue || field.DefaultValueInterface != nil {`
    `if v, ok := selectColumns[db]; (ok && v) || (!ok && (!restricted || field.AutoCreateTime > 0 || field.AutoUpdateTime > 0))` -/
def createWrites (sel : Results × Bool) (f : FieldSpec) : Bool :=
  (!f.hasDefault || f.defaultIface) &&
    (match sel.1.lookup f.dbName with
     | some v => v
     | none => !sel.2 || f.autoCreateTime || f.autoUpdateTime)

/-- loop over `FieldsWithDefaultDBValue`: struct: `(ok && v) || (!ok && !restricted) && field.DefaultValueInterface == nil`;
    slice: `(ok && v) || (!ok && !restricted)`; the column is added when some element has a non-zero value -/
def createWritesDefault (sel : Results × Bool) (isSlice : Bool) (rows : List (List Col)) (f : FieldSpec) : Bool :=
  (if isSlice then allowed sel f.dbName
   else (match sel.1.lookup f.dbName with
         | some v => v
         | none => !sel.2 && !f.defaultIface)) &&
  rows.any (fun nz => nz.contains f.name)

/-- `ConvertToCreateValues`, default branch: INSERT column list.  `rows` = per element the Go names of
    its non-zero fields (`isSlice = false` ⇒ exactly one row = the struct). -/
def createColumns (s : Schema) (selects omits : List Col) (isSlice : Bool) (rows : List (List Col)) : List Col :=
  let sel := selectAndOmit s selects omits true false
  let cols1 := s.dbNames.filterMap fun db =>
    match s.byDBName db with
    | none => none
    | some f => if createWrites sel f then some db else none
  let cols2 := s.defaultDB.filterMap fun db =>
    match s.byDBName db with
    | none => none
    | some f => if createWritesDefault sel isSlice rows f then some f.dbName else none
  cols1 ++ cols2

/-- `ConvertMapToValuesForCreate`: `keys` in `sort.Strings` order -/
def createColumnsMap (s : Schema) (selects omits : List Col) (keys : List Col) : List Col :=
  let sel := selectAndOmit s selects omits true false
  keys.filterMap fun k =>
    let k' := match s.lookUpField k with
      | some f => f.dbName
      | none => k
    if allowed sel k' then some k' else none

/-- `ConvertSliceOfMapToValuesForCreate`: the accepted column of every key of every row; the code keeps each
    once (`result` map) and sorts (`sort.Strings(columns)`) — the caller de-duplicates and sorts -/
def createColumnsMaps (s : Schema) (selects omits : List Col) (rows : List (List Col)) : List Col :=
  rows.flatMap (createColumnsMap s selects omits)

/-- `OnConflict.UpdateAll` expansion over the INSERT columns `cols`: DO UPDATE SET column list
    (tracked update-time columns first, as the code appends them before `AssignmentColumns(columns)`) -/
def upsertKeeps (sel : Results × Bool) (f : FieldSpec) : Bool :=
  allowed sel f.dbName && !f.primaryKey && (!f.hasDefault || f.defaultIface || f.defaultNull) && !f.autoCreateTime

def upsertAssignments (s : Schema) (selects omits : List Col) (cols : List Col) : List Col :=
  let sel := selectAndOmit s selects omits true true
  let fs := cols.filterMap fun c =>
    match s.lookUpField c with
    | some f => if upsertKeeps sel f then some (c, f) else none
    | none => none
  (fs.filterMap fun cf => if cf.2.autoUpdateTime then some cf.2.dbName else none) ++
  (fs.filterMap fun cf => if cf.2.autoUpdateTime then none else some cf.1)

/-! ## statements WITHOUT a schema — `db.Table("t")` + map value(s), no model: `stmt.Schema == nil`

  Every helper of the write path branches on `stmt.Schema == nil`; the functions below are what is left of each of
  them on that branch, and `…O` dispatches on `Option Schema` (`some s` = the functions above, unchanged). -/

/-- `processColumn`, first arm: `if stmt.Schema == nil { results[column] = result }` — the name is taken LITERALLY
    (also `"*"`, `t.col`, quoted names) and `notRestricted` is not touched; `else` the arms modelled by `processColumn` -/
def processColumnO (o : Option Schema) (st : Results × Bool) (column : Col) (result : Bool) : Results × Bool :=
  match o with
  | none => ((column, result) :: st.1, st.2)
  | some s => processColumn s st column result

/-- `Statement.SelectAndOmitColumns(requireCreate, requireUpdate)` on a statement whose schema may be nil:
    same two loops, the permission loop only `if stmt.Schema != nil`, the SAME single return
    `results, !notRestricted && len(stmt.Selects) > 0` -/
def selectAndOmitO (o : Option Schema) (selects omits : List Col) (requireCreate requireUpdate : Bool) : Results × Bool :=
  let st1 := selects.foldl (fun st c => processColumnO o st c true) ([], false)
  let st2 := omits.foldl (fun st c => processColumnO o st c false) st1
  let r3 := match o with
    | none => st2.1
    | some s => s.fields.foldl (permStep requireCreate requireUpdate) st2.1
  (r3, !st2.2 && !selects.isEmpty)

/-- the keys one `processColumn` call writes, schema known or not -/
def resolveO (o : Option Schema) (column : Col) : List Col :=
  match o with
  | none => [column]
  | some s => resolve s column

/-- `ConvertToAssignments`, map branch, on a statement whose schema may be nil.  Without schema:
    `if stmt.Schema != nil { LookUpField … continue }` is skipped, so every key goes through
    `if v, ok := selectColumns[k]; (ok && v) || (!ok && !restricted) { set = append(set, k) }`,
    and `if !stmt.SkipHooks && stmt.Schema != nil { auto-update-time }` adds nothing. -/
def assignmentsOfMapO (o : Option Schema) (selects omits : List Col) (skipHooks : Bool)
    (keys : List (Col × Bool)) : List Col :=
  match o with
  | some s => assignmentsOfMap s selects omits skipHooks keys
  | none =>
    let sel := selectAndOmitO none selects omits false true
    keys.filterMap fun kv => if allowed sel kv.1 then some kv.1 else none

/-- the primary-key conditions `ConvertToAssignments` adds from the model value: the block only runs for
    `stmt.ReflectValue.Kind()` Struct / Slice, i.e. never for the map value of a schema-less statement -/
def modelCondsO (o : Option Schema) (modelNz : List Col) : List Col :=
  match o with
  | some s => modelConds s modelNz
  | none => []

/-- `ConvertMapToValuesForCreate`; without schema `if stmt.Schema != nil { k = field.DBName }` is skipped -/
def createColumnsMapO (o : Option Schema) (selects omits : List Col) (keys : List Col) : List Col :=
  match o with
  | some s => createColumnsMap s selects omits keys
  | none =>
    let sel := selectAndOmitO none selects omits true false
    keys.filter fun k => allowed sel k

/-- `ConvertSliceOfMapToValuesForCreate` (the caller de-duplicates and sorts) -/
def createColumnsMapsO (o : Option Schema) (selects omits : List Col) (rows : List (List Col)) : List Col :=
  rows.flatMap (createColumnsMapO o selects omits)

/-- `ConvertToCreateValues`, `OnConflict.UpdateAll` block: `if stmt.Schema != nil && len(values.Columns) >= 1 {` —
    without schema gorm computes no DO UPDATE list and no conflict target -/
def upsertAssignmentsO (o : Option Schema) (selects omits cols : List Col) : List Col :=
  match o with
  | some s => upsertAssignments s selects omits cols
  | none => []

/-! ## finisher_api.go -/

/-- `Save`, struct branch: `if !selectedUpdate { Selects = append(Selects, "*") }` -/
def saveSelects (selects : List Col) : List Col := if selects.isEmpty then [star] else selects

inductive SaveRoute where
  | create                 -- some primary field is zero
  | update                 -- UPDATE … (then, on 0 rows and no Select, upsert with UpdateAll + SkipHooks)
deriving Repr, DecidableEq

/-- `Save` routing on a struct value: `nz` = non-zero Go field names -/
def saveRoute (s : Schema) (nz : List Col) : SaveRoute :=
  if (s.fields.filter fun f => f.primaryKey && f.dbName != []).any (fun f => !nz.contains f.name) then .create else .update

/-- SET list of `Save(&v)` on the update route (`Dest == Model`, hooks run) -/
def saveAssignments (s : Schema) (selects omits : List Col) (nz : List Col) : List Col × List Col :=
  assignmentsOfStruct s s (saveSelects selects) omits true false nz nz

/-- `Save(&v)`, struct with non-zero key, seen from the existing row carrying that key:
    `updateTx := … Update …` changes it iff it exists and satisfies the chain's conditions;
    `if updateTx.Error == nil && updateTx.RowsAffected == 0 && !updateTx.DryRun && !selectedUpdate {`
    `  return tx.Session(&Session{SkipHooks: true}).Clauses(clause.OnConflict{UpdateAll: true}).Create(value) }`
    — the fallback INSERT … ON CONFLICT (key) DO UPDATE hits the row with that key whatever the conditions say.
    Returns whether the row is written. -/
def saveWritesRow (rowExists condHolds selectedUpdate : Bool) : Bool :=
  let updated := rowExists && condHolds
  if updated then true
  else if !selectedUpdate then rowExists      -- upsert fallback: conflict on the key ⇒ DO UPDATE
  else false

/-! ## the primary key as row condition — every key shape (single, composite, none) -/

/-- `Schema.PrimaryFields`: the fields with a column that are flagged primary key, in parse order
    (schema/schema.go Parse; never just the `PrioritizedPrimaryField`) -/
def Schema.primaryFields (s : Schema) : List FieldSpec := s.fields.filter fun f => f.primaryKey && f.dbName != []

/-- `Schema.PrimaryFieldDBNames` -/
def Schema.primaryDBNames (s : Schema) : List Col := s.primaryFields.map (·.dbName)

/-- callbacks/delete.go `Delete` (and soft_delete.go): `_, queryValues := schema.GetIdentityFieldValuesMap(ctx, ReflectValue,
    Schema.PrimaryFields)` yields nothing when EVERY component is zero and otherwise ONE tuple over ALL primary fields
    (zero components included); `column, values := schema.ToQueryValues(Table, Schema.PrimaryFieldDBNames, queryValues)`;
    `if len(values) > 0 { AddClause(Where{IN{column, values}}) }` → the columns the WHERE constrains -/
def identityConds (s : Schema) (nz : List Col) : List Col :=
  if s.primaryFields.any (fun f => nz.contains f.name) then s.primaryDBNames else []

/-- `Delete`: the block above for the deleted value, then — `if ReflectValue.CanAddr() && Dest != Model && Model != nil` —
    the same block for the model value -/
def deleteConds (s : Schema) (nz modelNz : List Col) (hasModel : Bool) : List Col :=
  identityConds s nz ++ (if hasModel then identityConds s modelNz else [])

/-- callbacks/delete.go `Delete`: `if db.Statement.Schema != nil { identity conditions }` -/
def deleteCondsO (o : Option Schema) (nz modelNz : List Col) (hasModel : Bool) : List Col :=
  match o with
  | some s => deleteConds s nz modelNz hasModel
  | none => []

/-- callbacks/create.go `ConvertToCreateValues`, `OnConflict.UpdateAll` block (entered when the INSERT has a column):
    `// use primary fields as default OnConflict columns` — the conflict target is the WHOLE key -/
def conflictColumns (s : Schema) (cols : List Col) : List Col := if cols.isEmpty then [] else s.primaryDBNames

/-- a row / a key value: column ↦ rendered value -/
abbrev RowV := Col → List Char

/-- `row` satisfies `c = key c` for every condition column (`clause.Eq` per column, or `IN` with one tuple) -/
def matchesKey (conds : List Col) (key row : RowV) : Bool := conds.all fun c => row c == key c

/-- positions (from `i`) of the rows hit by the key condition -/
def selectRows (conds : List Col) (key : RowV) : Nat → List RowV → List Nat
  | _, [] => []
  | i, r :: rs => (if matchesKey conds key r then [i] else []) ++ selectRows conds key (i + 1) rs

/-- association list → `RowV` (absent column = "") -/
def rowOf (l : List (Col × List Char)) : RowV := fun c => (l.lookup c).getD []

end Gorm.WriteSet
