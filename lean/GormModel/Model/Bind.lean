/-
  C01 — executable model of gorm's placeholder / bound-parameter machinery.

  Transcribed (statement by statement) from
    statement.go            Statement.WriteString/WriteByte/WriteQuoted/QuoteTo/AddVar/Build, BuildCondition (string dispatch)
    clause/expression.go    Expr.Build, NamedExpr.Build, IN.Build/NegationBuild, Eq/Neq/Gt/Gte/Lt/Lte/Like.Build, eqNil
    clause/values.go        Values.Build          clause/set.go   Set.Build
    clause/limit.go         Limit.Build           clause/on_conflict.go OnConflict.Build
    clause/where.go         Where.Build/buildExprs restricted to plain members (no Or/And/Not groups: that structure is C02's model)
    clause/clause.go        Clause.Build (name + expression)

  The value universe `Val β` is POLYMORPHIC in the payload type β of bindable data; the SQL text is a
  list of `Seg` which does not mention β.  `Statement.Vars` is modelled as `List (Val β)` (the Go values
  themselves are appended, e.g. a `[]byte` or a `driver.Valuer` is ONE var).

  The clause package is written against the `clause.Builder` interface; accordingly every clause builder
  here takes the `AddVar` callback `av` as a parameter and `addVar` ties the knot with a fuel argument
  (fuel decreases exactly when a Go call descends into a nested value; adequacy: `Val.depth`).
  Core Lean only.
-/
import GormModel.Core.Facts
namespace Gorm.Bind

/-- one piece of SQL text.  `ph n` = what `Dialector.BindVarTo` wrote when `len(stmt.Vars) = n`. -/
inductive Seg where
  | lit (s : List Char)      -- WriteString / WriteByte
  | quoted (s : List Char)   -- Dialector.QuoteTo(writer, s)
  | ph (n : Nat)             -- Dialector.BindVarTo  (`?`  or  `$n`)
deriving Repr, DecidableEq

inductive Dialect where
  | qmark | dollar
deriving Repr, DecidableEq

inductive Cmp where
  | eq | neq | gt | gte | lt | lte | like | notLike
deriving Repr, DecidableEq

/-- the dynamic values gorm's builders switch on -/
inductive Val (β : Type) where
  | nil                                            -- untyped nil / typed nil pointer
  | scalar (b : β)                                 -- int, string, bool, float, time, non-nil *T, map, func … (AddVar default arm, non-slice)
  | bytes (named : Bool) (bs : List β)             -- []byte (`named`: a named byte-slice type, reaches the reflect arm)
  | dvaluer (isNil : Bool) (b : β)                 -- driver.Valuer (isNil: its Value() is nil or it is a nil pointer)
  | gvaluer (nilPtr : Bool) (inner : Val β)        -- gorm.Valuer; inner = result of GormValue
  | list (std : Bool) (vs : List (Val β))          -- typed slice/array (std: one of the types enumerated in Eq.Build)
  | ilist (vs : List (Val β))                      -- []interface{}
  | named (name : List Char) (v : Val β)           -- sql.NamedArg
  | nmap (keys : List (List Char)) (vals : List (Val β))          -- map[string]interface{} (keys unique)
  | strct (fields : List (List Char × Bool)) (vals : List (Val β)) -- struct: (field name, anonymous) / field values
  | column (table name alias : List Char) (raw : Bool)             -- clause.Column (plain string column = table "" alias "")
  | table (name alias : List Char) (raw : Bool)                    -- clause.Table
  | expr (sql : List Char) (args : List (Val β)) (wop : Bool)      -- clause.Expr
  | nexpr (sql : List Char) (args : List (Val β))                  -- clause.NamedExpr
  | cmp (op : Cmp) (col : Val β) (v : Val β)                       -- clause.Eq/Neq/Gt/Gte/Lt/Lte/Like (+ Like.NegationBuild)
  | inn (neg : Bool) (col : Val β) (vs : List (Val β))             -- clause.IN (Build / NegationBuild)
  | values (cols : List (Val β)) (rows : List (Val β))             -- clause.Values; each row is an `ilist`
  | set (cols : List (Val β)) (vals : List (Val β))                -- clause.Set
  | assign (col : Val β) (v : Val β)                               -- one clause.Assignment (a plain struct: what a `?` sees when clause.Set, a slice type, is expanded)
  | limit (hasLimit limNonNeg : Bool) (lim : β) (offPos : Bool) (off : β)  -- clause.Limit
  | onConflict (cons : List Char) (cols : List (Val β)) (targetWhere : List (Val β)) (doNothing : Bool)
      (doUpdates : Val β) (whr : List (Val β))                     -- clause.OnConflict
  | whereC (exprs : List (Val β))                                  -- clause.Where with plain members
  | clauseI (name : List Char) (e : Val β)                         -- a clause.Interface handed to AddVar
  | clauses (names : List (List Char)) (es : List (Val β))         -- Statement.Build over the present clauses
  | subq (names : List (List Char)) (es : List (Val β))            -- *gorm.DB, not yet rendered (Statement.SQL empty)
  | rsub (text : List Char) (vars : List (Val β))                  -- *gorm.DB with rendered SQL (db.Raw(..)): text in the dialect + vars
deriving Repr

/-- builder state = the part of `gorm.Statement` the builders touch -/
structure St (β : Type) where
  segs : List Seg := []
  vars : List (Val β) := []
  /-- fuel exhausted (never for `render`, see `Lemmas/Bind`) -/
  oof : Bool := false
  /-- an input form outside the model (e.g. an arbitrary value in identifier position) -/
  unsupported : Bool := false
deriving Repr

namespace St
variable {β : Type}
/-- statement.go `WriteByte` -/
def writeByte (st : St β) (c : Char) : St β := { st with segs := st.segs ++ [Seg.lit [c]] }
/-- statement.go `WriteString` -/
def writeString (st : St β) (s : List Char) : St β := { st with segs := st.segs ++ [Seg.lit s] }
def writeStr (st : St β) (s : String) : St β := st.writeString s.toList
/-- `Dialector.QuoteTo(writer, s)` -/
def quote (st : St β) (s : List Char) : St β := { st with segs := st.segs ++ [Seg.quoted s] }
/-- `stmt.Vars = append(stmt.Vars, v)` -/
def appendVar (st : St β) (v : Val β) : St β := { st with vars := st.vars ++ [v] }
/-- `stmt.DB.Dialector.BindVarTo(writer, stmt, v)` : writes the placeholder for the CURRENT length of Vars -/
def bindVarTo (st : St β) : St β := { st with segs := st.segs ++ [Seg.ph st.vars.length] }
/-- the pair `stmt.Vars = append(stmt.Vars, v); BindVarTo(..)` -/
def bind (st : St β) (v : Val β) : St β := (st.appendVar v).bindVarTo
end St

section builders
variable {β : Type}

/-- `for idx, v := range vs { if idx > 0 { WriteByte(',') }; f v }` -/
def commaSepAux (f : Val β → St β → St β) : Bool → List (Val β) → St β → St β
  | _, [], st => st
  | first, v :: vs, st => commaSepAux f false vs (f v (if first then st else st.writeByte ','))

def commaSep (f : Val β → St β → St β) (vs : List (Val β)) (st : St β) : St β := commaSepAux f true vs st

/-- statement.go QuoteTo: `write(raw, str)` -/
def writeId (raw : Bool) (s : List Char) (st : St β) : St β := if raw then st.writeString s else st.quote s

def assignments : List (Val β) → List (Val β) → List (Val β)
  | c :: cs, v :: vs => .assign c v :: assignments cs vs
  | _, _ => []

/-- the values `reflect.ValueOf(v)` sees as Slice/Array in Expr.Build (a driver.Valuer is tested first and never expanded):
    the elements `rv.Index(i).Interface()` -/
def expandElems : Val β → Option (List (Val β))
  | .list _ vs => some vs
  | .ilist vs => some vs
  | .bytes _ bs => some (bs.map Val.scalar)
  -- clause.Set is `[]Assignment`: reflect sees a slice
  | .clauseI _ (.set cols vals) => some (assignments cols vals)
  | _ => none

/-- clause/expression.go Expr.Build / NamedExpr.Build: what one `?` does with `Vars[idx]`.
    `expand` = `afterParenthesis || WithoutParentheses`. -/
def slot (av : Val β → St β → St β) (expand : Bool) (v : Val β) (st : St β) : St β :=
  if expand then
    match expandElems v with
    | some es => if es.isEmpty then av .nil st else commaSep av es st
    | none => av v st
  else av v st

/-- clause/expression.go Expr.Build, main loop (`rest` = `expr.Vars[idx:]`, `ap` = afterParenthesis)
    and the tail loop appending the surplus vars as `sql.NamedArg{Value: v}`. -/
def exprLoop (av : Val β → St β → St β) (wop : Bool) : List Char → List (Val β) → Bool → St β → St β
  | [], rest, _, st => rest.foldl (fun s v => av (.named [] v) s) st
  | c :: cs, rest, ap, st =>
    match decide (c = '?'), rest with
    | true, v :: rest' => exprLoop av wop cs rest' ap (slot av (ap || wop) v st)
    | _, _ => exprLoop av wop cs rest (c == '(') (st.writeByte c)

def exprBuild (av : Val β → St β → St β) (sql : List Char) (args : List (Val β)) (wop : Bool) (st : St β) : St β :=
  exprLoop av wop sql args false st

/-- the terminator set of NamedExpr.Build -/
def isTerm (c : Char) : Bool :=
  c == ' ' || c == ',' || c == ')' || c == '"' || c == '\'' || c == '`' || c == '\r' || c == '\n' || c == ';'

/-- go/ast.IsExported for ASCII names -/
def isExported (nm : List Char) : Bool :=
  match nm with
  | c :: _ => c.isUpper
  | [] => false

/-- NamedExpr.Build `appendFieldsToMap`: the loop over the fields of one struct (`sub` = the recursive call for an anonymous field) -/
def fieldsLoop (sub : Val β → List (List Char × Val β)) : List (List Char × Bool) → List (Val β) → List (List Char × Val β)
  | (nm, anon) :: fs, v :: vs =>
    (if isExported nm then (nm, v) :: (if anon then sub v else []) else []) ++ fieldsLoop sub fs vs
  | _, _ => []

/-- NamedExpr.Build `appendFieldsToMap` (fuel bounds the embedding depth; 8 levels are plenty for the harness) -/
def structEntries : Nat → Val β → List (List Char × Val β)
  | 0, _ => []
  | n+1, .strct fs vs => fieldsLoop (structEntries n) fs vs
  | _+1, _ => []

/-- NamedExpr.Build: the assignments to `namedMap`, in order (a later one overrides) -/
def namedEntries : List (Val β) → List (List Char × Val β)
  | [] => []
  | a :: as =>
    (match a with
     | .named nm v => [(nm, v)]
     | .nmap ks vs => ks.zip vs
     | .strct _ _ => structEntries 8 a
     | _ => []) ++ namedEntries as

def lookupLast (m : List (List Char × Val β)) (nm : List Char) : Option (Val β) :=
  match m.reverse.find? (fun e => e.1 == nm) with
  | some e => some e.2
  | none => none

/-- `if nv, ok := namedMap[name]; ok { AddVar(nv) } else { WriteByte('@'); WriteString(name) }` -/
def flushName (av : Val β → St β → St β) (m : List (List Char × Val β)) (name : List Char) (st : St β) : St β :=
  match lookupLast m name with
  | some nv => av nv st
  | none => (st.writeByte '@').writeString name

/-- clause/expression.go NamedExpr.Build, scanner -/
def nexprLoop (av : Val β → St β → St β) (m : List (List Char × Val β)) :
    List Char → List (Val β) → Bool → List Char → Bool → St β → St β
  | [], _, inName, name, _, st => if inName then flushName av m name st else st
  | c :: cs, rest, inName, name, ap, st =>
    if c == '@' && !inName then nexprLoop av m cs rest true [] ap st
    else if isTerm c then
      let st1 := if inName then flushName av m name st else st
      nexprLoop av m cs rest false name false (st1.writeByte c)
    else
      match decide (c = '?'), rest with
      | true, v :: rest' => nexprLoop av m cs rest' inName name ap (slot av ap v st)
      | _, _ =>
        if inName then nexprLoop av m cs rest true (name ++ [c]) ap st
        else nexprLoop av m cs rest false name (c == '(') (st.writeByte c)

def nexprBuild (av : Val β → St β → St β) (sql : List Char) (args : List (Val β)) (st : St β) : St β :=
  nexprLoop av (namedEntries args) sql args false [] false st

/-- clause/expression.go eqNil -/
def eqNil : Val β → Bool
  | .nil => true
  | .dvaluer isNil _ => isNil
  | .gvaluer nilPtr _ => nilPtr
  | _ => false

def cmpText : Cmp → String
  | .eq => " = " | .neq => " <> " | .gt => " > " | .gte => " >= " | .lt => " < " | .lte => " <= "
  | .like => " LIKE " | .notLike => " NOT LIKE "

/-- the slice types enumerated in Eq.Build / Neq.Build -/
def eqListElems : Val β → Option (List (Val β))
  | .list true vs => some vs
  | .ilist vs => some vs
  | _ => none

/-- clause/expression.go IN.Build `case 1: if _, ok := in.Values[0].([]interface{}); !ok { … break }` -/
def innSingle : List (Val β) → Option (Val β)
  | [.ilist _] => none
  | [x] => some x
  | _ => none

/-- strings.Contains on byte lists -/
def containsSub (s sub : List Char) : Bool :=
  match s with
  | [] => sub.isEmpty
  | _ :: t => sub.isPrefixOf s || containsSub t sub

def upper (s : List Char) : List Char := s.map Char.toUpper

/-- clause/where.go buildExprs: `wrapInParentheses` for a plain member -/
def needsWrap : Val β → Bool
  | .expr sql _ _ => containsSub (upper sql) " AND ".toList || containsSub (upper sql) " OR ".toList
  | .nexpr sql _ => containsSub (upper sql) " AND ".toList || containsSub (upper sql) " OR ".toList
  | _ => false

/-- clause/where.go buildExprs (members are plain expressions; joinCond = " AND ") -/
def whereLoop (bx : Val β → St β → St β) (multi : Bool) : Bool → List (Val β) → St β → St β
  | _, [], st => st
  | first, e :: es, st =>
    let st1 := if first then st else st.writeStr " AND "
    let st2 := if multi && needsWrap e then ((bx e (st1.writeByte '(')).writeByte ')') else bx e st1
    whereLoop bx multi false es st2

/-- `builder.WriteString(" WHERE "); w.Build(builder); builder.WriteByte(' ')` when `len(w.Exprs) > 0` (on_conflict.go) -/
def optWhere (bx : Val β → St β → St β) (es : List (Val β)) (st : St β) : St β :=
  if es.isEmpty then st
  else ((whereLoop bx (decide (es.length > 1)) true es (st.writeStr " WHERE ")).writeByte ' ')

/-- clause/set.go Set.Build, non-empty branch -/
def setLoop (wq av : Val β → St β → St β) : Bool → List (Val β) → List (Val β) → St β → St β
  | first, c :: cs, v :: vs, st =>
    let st1 := if first then st else st.writeByte ','
    setLoop wq av false cs vs (av v ((wq c st1).writeByte '='))
  | _, _, _, st => st

/-- one element of `Values.Values` (a `[]interface{}` row) -/
def rowCells : Val β → List (Val β)
  | .ilist cs => cs
  | other => [other]

/-- clause/values.go Values.Build: the rows loop -/
def rowsLoop (av : Val β → St β → St β) : Bool → List (Val β) → St β → St β
  | _, [], st => st
  | first, r :: rs, st =>
    let st1 := (if first then st else st.writeByte ',').writeByte '('
    rowsLoop av false rs ((commaSep av (rowCells r) st1).writeByte ')')

/-- statement.go Statement.Build + clause.go Clause.Build over the clauses that are present -/
def clausesLoop (bx : Val β → St β → St β) : Bool → List (List Char) → List (Val β) → St β → St β
  | first, n :: ns, e :: es, st =>
    let st1 := if first then st else st.writeByte ' '
    let st2 := if n.isEmpty then st1 else (st1.writeString n).writeByte ' '
    clausesLoop bx false ns es (bx e st2)
  | _, _, _, st => st

/-- strings.Replace(s, old, new, 1) -/
def replaceFirst (s old new : List Char) : List Char :=
  match s with
  | [] => if old.isEmpty then new else []
  | c :: t => if old.isPrefixOf s then new ++ s.drop old.length else c :: replaceFirst t old new

/-- what `BindVarTo` prints for the n-th var -/
def phText : Dialect → Nat → List Char
  | .qmark, _ => ['?']
  | .dollar, n => '$' :: (Nat.toDigits 10 n)

/-- statement.go AddVar `case *DB`, rendered branch: the loop
    `for i, vv := range vars { …BindVarTo(&bindvar, subdb.Statement /* i+1 vars */, vv); sql = strings.Replace(sql, bindvar, "?", 1) }` -/
def retemplate (d : Dialect) : Nat → Nat → List Char → List Char
  | _, 0, s => s
  | i, k+1, s => retemplate d (i+1) k (replaceFirst s (phText d i) ['?'])

/-- statement.go `Statement.QuoteTo` (= WriteQuoted) for clause.Column / clause.Table / clause.Expr;
    a plain string column is `column "" name "" false`.  Other dynamic types (`fmt.Sprint(field)` quoted as an
    identifier) are outside the model. -/
def quoteTo (av : Val β → St β → St β) (c : Val β) (s : St β) : St β :=
  match c with
  | .column t nm al raw =>
    let s1 := if t.isEmpty then s else (writeId raw t s).writeByte '.'
    let s2 := writeId raw nm s1
    if al.isEmpty then s2 else writeId raw al (s2.writeStr " AS ")
  | .table nm al raw =>
    let s1 := writeId raw nm s
    if al.isEmpty then s1 else writeId raw al (s1.writeByte ' ')
  | .expr sql args wop => exprBuild av sql args wop s
  | _ => { s with unsupported := true }

end builders

/-- statement.go `Statement.AddVar` for ONE value (the variadic loop is `commaSep (addVar d n)`),
    together with everything it dispatches to (`Expression.Build`, `QuoteTo`). -/
def addVar {β : Type} (d : Dialect) : Nat → Val β → St β → St β
  | 0, _, st => { st with oof := true }
  | n+1, v, st =>
    let av := addVar d n
    let wq := quoteTo av
    match v with
    -- case sql.NamedArg: append, NO placeholder
    | .named _ x => st.appendVar x
    -- case clause.Column, clause.Table
    | .column .. => wq v st
    | .table .. => wq v st
    -- case Valuer
    | .gvaluer nilPtr inner => if nilPtr then av .nil st else av inner st
    -- case clause.Interface: Clause{Name}.Build
    | .clauseI nm e => av e (if nm.isEmpty then st else (st.writeString nm).writeByte ' ')
    -- case clause.Expression: v.Build(stmt)
    | .expr sql args wop => exprBuild av sql args wop st
    | .nexpr sql args => nexprBuild av sql args st
    | .cmp op col x =>
      let s1 := wq col st
      match op with
      | .eq =>
        (match eqListElems x with
         | some vs => if vs.isEmpty then s1.writeStr " IN (NULL)" else ((commaSep av vs (s1.writeStr " IN (")).writeByte ')')
         | none => if eqNil x then s1.writeStr " IS NULL" else av x (s1.writeStr " = "))
      | .neq =>
        (match eqListElems x with
         | some vs => ((commaSep av vs (s1.writeStr " NOT IN (")).writeByte ')')
         | none => if eqNil x then s1.writeStr " IS NOT NULL" else av x (s1.writeStr " <> "))
      | _ => av x (s1.writeStr (cmpText op))
    | .inn neg col vs =>
      let s1 := wq col st
      if vs.isEmpty then s1.writeStr (if neg then " IS NOT NULL" else " IN (NULL)")
      else match innSingle vs with
        | some x => av x (s1.writeStr (if neg then " <> " else " = "))
        | none => ((commaSep av vs (s1.writeStr (if neg then " NOT IN (" else " IN ("))).writeByte ')')
    | .values cols rows =>
      if cols.isEmpty then st.writeStr "DEFAULT VALUES"
      else rowsLoop av true rows (((commaSep wq cols (st.writeByte '(')).writeByte ')').writeStr " VALUES ")
    | .set cols vals =>
      if cols.isEmpty then
        -- `WriteQuoted(Column{Name: PrimaryKey})` twice: needs the schema; outside the model
        { st with unsupported := true }
      else setLoop wq av true cols vals st
    | .limit hasLimit limNonNeg lim offPos off =>
      let s1 := if hasLimit && limNonNeg then av (.scalar lim) (st.writeStr "LIMIT ") else st
      if offPos then
        av (.scalar off) ((if hasLimit && limNonNeg then s1.writeByte ' ' else s1).writeStr "OFFSET ")
      else s1
    | .onConflict cons cols tw doNothing doUpdates whr =>
      let s1 :=
        if !cons.isEmpty then ((st.writeStr "ON CONSTRAINT ").writeString cons).writeByte ' '
        else
          let a := if cols.isEmpty then st else (commaSep wq cols (st.writeByte '(')).writeStr ") "
          optWhere av tw a
      let s2 := if doNothing then s1.writeStr "DO NOTHING" else av doUpdates (s1.writeStr "DO UPDATE SET ")
      optWhere av whr s2
    | .whereC es => whereLoop av (decide (es.length > 1)) true es st
    | .clauses ns es => clausesLoop av true ns es st
    -- case driver.Valuer / case []byte
    | .dvaluer .. => st.bind v
    | .bytes named bs => if named && bs.isEmpty then st.writeStr "(NULL)" else st.bind v
    -- case []interface{}
    | .ilist vs => if vs.isEmpty then st.writeStr "(NULL)" else ((commaSep av vs (st.writeByte '(')).writeByte ')')
    -- case *DB
    | .subq ns es =>
      -- `subdb.Statement.Vars = append(stmt.Vars, …)`; Query callbacks build the clauses; `WriteString(sub SQL)`; `stmt.Vars = sub Vars`
      clausesLoop av true ns es st
    | .rsub text vars =>
      let sql := retemplate d 1 vars.length text
      if containsSub sql ['@'] then nexprBuild av sql vars st else exprBuild av sql vars false st
    -- default: reflect slice/array
    | .list _ vs => if vs.isEmpty then st.writeStr "(NULL)" else ((commaSep av vs (st.writeByte '(')).writeByte ')')
    -- default: everything else is ONE bound var
    | .nil => st.bind v
    | .scalar _ => st.bind v
    | .nmap .. => st.bind v
    | .strct .. => st.bind v
    | .assign .. => st.bind v

/-- the arms of the type switch in `Statement.AddVar` as THIS model transcribes them (same record as the
    regenerated `Gen.addVarArms`; `C01_arms_model` demands equality, so an edited arm breaks a proof obligation).
    appendsVar/bindVarTo count the syntactic occurrences in the arm: the default arm has two (byte slice via
    reflect, plain value); the *DB arm calls BindVarTo once, into a scratch builder, to learn the bindvar text. -/
def modelArms : List AddVarArm := [
  { types := ["sql.NamedArg"], appendsVar := 1, bindVarTo := 0, recursesAddVar := 0, writesQuoted := 0, buildsExpr := 0, writesString := 0 },
  { types := ["clause.Column", "clause.Table"], appendsVar := 0, bindVarTo := 0, recursesAddVar := 0, writesQuoted := 1, buildsExpr := 0, writesString := 0 },
  { types := ["Valuer"], appendsVar := 0, bindVarTo := 0, recursesAddVar := 2, writesQuoted := 0, buildsExpr := 0, writesString := 0 },
  { types := ["clause.Interface"], appendsVar := 0, bindVarTo := 0, recursesAddVar := 0, writesQuoted := 0, buildsExpr := 1, writesString := 0 },
  { types := ["clause.Expression"], appendsVar := 0, bindVarTo := 0, recursesAddVar := 0, writesQuoted := 0, buildsExpr := 1, writesString := 0 },
  { types := ["driver.Valuer"], appendsVar := 1, bindVarTo := 1, recursesAddVar := 0, writesQuoted := 0, buildsExpr := 0, writesString := 0 },
  { types := ["[]byte"], appendsVar := 1, bindVarTo := 1, recursesAddVar := 0, writesQuoted := 0, buildsExpr := 0, writesString := 0 },
  { types := ["[]interface{}"], appendsVar := 0, bindVarTo := 0, recursesAddVar := 1, writesQuoted := 0, buildsExpr := 0, writesString := 1 },
  { types := ["*DB"], appendsVar := 0, bindVarTo := 1, recursesAddVar := 0, writesQuoted := 0, buildsExpr := 0, writesString := 1 },
  { types := ["default"], appendsVar := 2, bindVarTo := 2, recursesAddVar := 1, writesQuoted := 0, buildsExpr := 0, writesString := 1 }
]

/-! ### depth (fuel adequacy), map (naturality), flatten (expansion spec) -/

mutual
def Val.depth {β : Type} : Val β → Nat
  | .nil => 0 | .scalar _ => 0 | .bytes _ _ => 1 | .dvaluer _ _ => 0
  | .gvaluer _ i => i.depth + 1
  | .list _ vs => Val.depthL vs + 1
  | .ilist vs => Val.depthL vs + 1
  | .named _ v => v.depth + 1
  | .nmap _ vs => Val.depthL vs + 1
  | .strct _ vs => Val.depthL vs + 1
  | .column .. => 0 | .table .. => 0
  | .expr _ as _ => Val.depthL as + 2
  | .nexpr _ as => Val.depthL as + 2
  | .cmp _ c v => max c.depth v.depth + 1
  | .inn _ c vs => max c.depth (Val.depthL vs) + 1
  | .values cs rs => max (Val.depthL cs) (Val.depthL rs) + 1
  | .set cs vs => max (Val.depthL cs) (Val.depthL vs) + 1
  | .limit .. => 1
  | .assign c v => max c.depth v.depth + 1
  | .onConflict _ cs tw _ du w => max (max (Val.depthL cs) (Val.depthL tw)) (max du.depth (Val.depthL w)) + 1
  | .whereC es => Val.depthL es + 1
  | .clauseI _ e => e.depth + 1
  | .clauses _ es => Val.depthL es + 1
  | .subq _ es => Val.depthL es + 1
  | .rsub _ vs => Val.depthL vs + 2
def Val.depthL {β : Type} : List (Val β) → Nat
  | [] => 0
  | v :: vs => max (v.depth + 1) (Val.depthL vs)
end

mutual
def Val.map {β γ : Type} (f : β → γ) : Val β → Val γ
  | .nil => .nil
  | .scalar b => .scalar (f b)
  | .bytes n bs => .bytes n (bs.map f)
  | .dvaluer isNil b => .dvaluer isNil (f b)
  | .gvaluer p i => .gvaluer p (i.map f)
  | .list s vs => .list s (Val.mapL f vs)
  | .ilist vs => .ilist (Val.mapL f vs)
  | .named nm v => .named nm (v.map f)
  | .nmap ks vs => .nmap ks (Val.mapL f vs)
  | .strct fs vs => .strct fs (Val.mapL f vs)
  | .column t n a r => .column t n a r
  | .table n a r => .table n a r
  | .expr s as w => .expr s (Val.mapL f as) w
  | .nexpr s as => .nexpr s (Val.mapL f as)
  | .cmp op c v => .cmp op (c.map f) (v.map f)
  | .inn neg c vs => .inn neg (c.map f) (Val.mapL f vs)
  | .values cs rs => .values (Val.mapL f cs) (Val.mapL f rs)
  | .set cs vs => .set (Val.mapL f cs) (Val.mapL f vs)
  | .limit h nn l op o => .limit h nn (f l) op (f o)
  | .assign c v => .assign (c.map f) (v.map f)
  | .onConflict c cs tw dn du w => .onConflict c (Val.mapL f cs) (Val.mapL f tw) dn (du.map f) (Val.mapL f w)
  | .whereC es => .whereC (Val.mapL f es)
  | .clauseI nm e => .clauseI nm (e.map f)
  | .clauses ns es => .clauses ns (Val.mapL f es)
  | .subq ns es => .subq ns (Val.mapL f es)
  | .rsub t vs => .rsub t (Val.mapL f vs)
def Val.mapL {β γ : Type} (f : β → γ) : List (Val β) → List (Val γ)
  | [] => []
  | v :: vs => v.map f :: Val.mapL f vs
end

def St.map {β γ : Type} (f : β → γ) (st : St β) : St γ :=
  { segs := st.segs, vars := st.vars.map (Val.map f), oof := st.oof, unsupported := st.unsupported }

/-- render one value the way `stmt.AddVar(stmt, v)` does on a fresh statement -/
def render {β : Type} (d : Dialect) (v : Val β) : St β := addVar d (v.depth + 1) v {}

/-- payload of a plain scalar var (for stating concrete facts about `Vars`) -/
def Val.payload? {β : Type} : Val β → Option β
  | .scalar b => some b
  | _ => none

/-! ### concrete SQL text -/

def segText (d : Dialect) : Seg → List Char
  | .lit s => s
  | .quoted s => '`' :: (s ++ ['`'])
  | .ph n => phText d n

def concretize (d : Dialect) (segs : List Seg) : List Char := (segs.map (segText d)).flatten

/-- placeholder numbers occurring in the text, left to right -/
def phs : List Seg → List Nat
  | [] => []
  | .ph n :: r => n :: phs r
  | _ :: r => phs r

def isSpace (c : Char) : Bool := c == ' ' || c == '\t' || c == '\n' || c == '\r'
def trimSpace (s : List Char) : List Char := ((s.dropWhile isSpace).reverse.dropWhile isSpace).reverse

/-- statement.go BuildCondition, dispatch on a string query (first `if`): which expression is built.
    `isNum` = strconv.Atoi succeeds.  `none` = falls through to the generic loop (not modelled here). -/
def buildCondStr {β : Type} (isNum : Bool) (s : List Char) (args : List (Val β)) : Option (List (Val β)) :=
  if isNum then none
  else if s.isEmpty && args.isEmpty then some []
  else if args.isEmpty || containsSub s ['?'] then some [.expr s args false]
  else if containsSub s ['@'] then some [.nexpr s args]
  else if containsSub (trimSpace s) [' '] then some [.expr s args false]
  else match args with
    | [a] => some [.cmp .eq (.column [] s [] false) a]
    | _ => none

end Gorm.Bind
