/-
  Model of utils/utils.go `ToStringKey` and of the key-string based attachment in
  callbacks/preload.go (`identityMap[utils.ToStringKey(fieldValues...)]`).

  Strings are `List Char`.  A key component is one of the dynamic kinds `ToStringKey` switches on.
-/
namespace Gorm

inductive KeyVal where
  | str (s : List Char)       -- case string (also a driver.Valuer's string value)
  | bytes (s : List Char)     -- case []byte
  | uint (n : Nat)            -- case uint  (exactly `uint`: printed even when zero)
  | int (n : Int)             -- default branch, integer kinds: "nil" when zero, else fmt.Sprint
  | nil                       -- invalid / nil pointer / any other zero value
deriving Repr, DecidableEq

def KeyVal.render : KeyVal → List Char
  | .str s => s
  | .bytes s => s
  | .uint n => (toString n).toList
  | .int n => if n = 0 then "nil".toList else (toString n).toList
  | .nil => "nil".toList

/-- `strings.Join(parts, "_")` -/
def joinKey : List (List Char) → List Char
  | [] => []
  | [p] => p
  | p :: q :: r => p ++ '_' :: joinKey (q :: r)

def toStringKey (vs : List KeyVal) : List Char := joinKey (vs.map KeyVal.render)

/-- a loaded child row: its foreign-key tuple (already rendered components) and identity -/
structure ChildRow where
  fk : List (List Char)
  id : Nat
deriving Repr, DecidableEq

/-- what preload.go attaches to a parent with key tuple `pk`: the children whose key STRING equals the
    parent's key string (identityMap lookup) -/
def attachByString (children : List ChildRow) (pk : List (List Char)) : List Nat :=
  (children.filter (fun c => joinKey c.fk = joinKey pk)).map (·.id)

/-- the reference: children whose foreign-key TUPLE equals the parent's key tuple -/
def attachByTuple (children : List ChildRow) (pk : List (List Char)) : List Nat :=
  (children.filter (fun c => c.fk = pk)).map (·.id)

/-- decidable side condition under which the key string is injective -/
def KeySafe (parts : List (List Char)) : Prop := ∀ p ∈ parts, '_' ∉ p


/-! ## schema/utils.go `GetIdentityFieldValuesMap`

  `fieldValues[idx], zero = field.ValueOf(ctx, elem)`: every key component comes with the zero flag that
  `field.ValueOf` reports (reflect `IsZero` of the field value: `0`, `""`, `false`, nil pointer, invalid
  `sql.Null*`).  The flag is an input of the model, exactly as in the Go code. -/

structure KeyComp where
  val : KeyVal
  zero : Bool
deriving Repr, DecidableEq

/-- one element of the parent slice: its address (`elem.Addr().Interface()` resp. the pointer) and key tuple -/
structure IdRow where
  addr : Nat
  key : List KeyComp
deriving Repr, DecidableEq

def IdRow.vals (r : IdRow) : List KeyVal := r.key.map (·.val)
def IdRow.keyStr (r : IdRow) : List Char := toStringKey r.vals

/-- `notZero = false; for … { notZero = notZero || !zero }`: a tuple is skipped only when EVERY component is
    zero (in particular the empty tuple); a tuple with some zero and some non-zero component is kept. -/
def allZero (k : List KeyComp) : Bool := k.all (·.zero)

/-- the two results of `GetIdentityFieldValuesMap`: `dataResults` (key string → elements, as an association list
    in first-insertion order) and `results` (one value tuple per distinct key string, first seen) -/
structure IdMap where
  groups : List (List Char × List Nat)
  values : List (List KeyVal)
deriving Repr, DecidableEq

def IdMap.empty : IdMap := ⟨[], []⟩

def IdMap.hasKey (m : IdMap) (s : List Char) : Bool := m.groups.any (fun g => g.1 == s)

/-- `dataResults[key]` (empty when absent) -/
def IdMap.lookup (m : IdMap) (s : List Char) : List Nat :=
  match m.groups.find? (fun g => g.1 == s) with
  | some g => g.2
  | none => []

/-- `if _, ok := dataResults[dataKey]; !ok { results = append(results, fieldValues); dataResults[dataKey] = {elem} }
     else { dataResults[dataKey] = append(dataResults[dataKey], elem) }` -/
def IdMap.insert (m : IdMap) (s : List Char) (a : Nat) (vals : List KeyVal) : IdMap :=
  if m.hasKey s then
    { m with groups := m.groups.map (fun g => if g.1 == s then (g.1, g.2 ++ [a]) else g) }
  else
    { groups := m.groups ++ [(s, [a])], values := m.values ++ [vals] }

structure IdState where
  loaded : List Nat
  map : IdMap
deriving Repr, DecidableEq

/-- one iteration of the `case reflect.Slice, reflect.Array` loop -/
def idStep (st : IdState) (r : IdRow) : IdState :=
  if st.loaded.contains r.addr then st            -- `if _, ok := loaded[elemKey]; ok { continue }`
  else
    let loaded := r.addr :: st.loaded             -- `loaded[elemKey] = true`
    if allZero r.key then { st with loaded := loaded }
    else { loaded := loaded, map := st.map.insert r.keyStr r.addr r.vals }

/-- `GetIdentityFieldValuesMap` on a slice / array of elements -/
def identitySlice (rows : List IdRow) : IdMap := (rows.foldl idStep ⟨[], IdMap.empty⟩).map

/-- `GetIdentityFieldValuesMap` on a single struct: `return nil, nil` when all components are zero -/
def identityStruct (r : IdRow) : IdMap :=
  if allZero r.key then IdMap.empty else ⟨[(r.keyStr, [r.addr])], [r.vals]⟩

/-! ## callbacks/preload.go `preload`, direct (no join table) branch, over abstract rows

  `identityMap, foreignValues = GetIdentityFieldValuesMap(parents, foreignFields)`; the child query is
  `WHERE (fk…) IN foreignValues` (served here by `fetch`, SQL tuple equality); every fetched child is appended to
  all parents found under `identityMap[ToStringKey(child fk…)]`. -/

structure KChild where
  id : Nat
  fk : List KeyVal
deriving Repr, DecidableEq

/-- SQL `IN (tuples)` with exact value comparison; a tuple with a NULL component equals nothing -/
def fetchIn (children : List KChild) (values : List (List KeyVal)) : List KChild :=
  children.filter (fun c => !c.fk.contains .nil && values.contains c.fk)

/-- children attached to the parent at address `a` (in fetch order) -/
def attachedTo (m : IdMap) (fetched : List KChild) (a : Nat) : List Nat :=
  (fetched.filter (fun c => (m.lookup (toStringKey c.fk)).contains a)).map (·.id)

def preloadDirect (parents : List IdRow) (children : List KChild) (a : Nat) : List Nat :=
  let m := identitySlice parents
  attachedTo m (fetchIn children m.values) a

/-! ## callbacks/query.go `BuildQuerySQL` / `genJoinClause`: the ON expression list of an association join

  `exprs` = one equality per reference, then (`onStmt`) the joined model's `QueryClauses` (soft-delete filter)
  AND the caller's `join.On` — the schema clauses are added whether or not the caller passed an ON condition. -/

inductive OnAtom where
  | ownEq (parentCol childCol : List Char)      -- `parent.pk = alias.fk`   (ref.OwnPrimaryKey)
  | relEq (parentCol childCol : List Char)      -- `parent.fk = alias.pk`
  | constEq (childCol value : List Char)        -- `alias.fk = 'polymorphic value'`
  | scope (n : Nat)                             -- n-th QueryClause of the joined schema (soft delete)
  | user (n : Nat)                              -- n-th expression of the caller's ON condition
deriving Repr, DecidableEq

structure JoinRef where
  ownPK : Bool
  pkCol : List Char
  fkCol : List Char
  primaryValue : List Char
deriving Repr, DecidableEq

def refAtom (r : JoinRef) : OnAtom :=
  if r.ownPK then .ownEq r.pkCol r.fkCol
  else if r.primaryValue = [] then .relEq r.fkCol r.pkCol
  else .constEq r.fkCol r.primaryValue

def joinOnAtoms (refs : List JoinRef) (queryClauses : Nat) (userOn : Nat) : List OnAtom :=
  refs.map refAtom ++ (List.range queryClauses).map .scope ++ (List.range userOn).map .user


/-! ## callbacks/preload.go `preloadEntryPoint`: walking through JOINED relations of a single-struct destination

  For a relation that is already joined the entry point does not query; it descends into the joined value:
  `case reflect.Struct, reflect.Pointer: reflectValue := rel.Field.ReflectValueOf(ctx, rv); … preloadEntryPoint(tx, nestedJoins, …)`.
  `ReflectValueOf` is `reflect.Indirect(rv).Field(i)`: on a nil pointer (the LEFT JOIN found no row) it panics.  When the
  remaining path is not joined the walk ends in `preload`, which tolerates a nil pointer
  (`GetIdentityFieldValuesMap` on an invalid value returns nothing).  (The slice branch skips nil elements.) -/

inductive JVal where
  | nilp
  | obj (fields : List (List Char × JVal))
deriving Repr

def jfield : List (List Char × JVal) → List Char → Option JVal
  | [], _ => none
  | (k, v) :: rest, f => if k = f then some v else jfield rest f

/-- `true` = the walk completes, `false` = nil-pointer dereference; `hops` = the consecutive joined relations on the
    preload path, starting at `v`; `nilSafe` = the single-record branch of preloadEntryPoint tests the joined
    relation's field for nil before descending (regenerated fact `Gen.preloadSingleNilCheck`) -/
def entryWalk (nilSafe : Bool) : JVal → List (List Char) → Bool
  | _, [] => true
  | .nilp, _ :: _ => nilSafe
  | .obj fs, f :: rest =>
    match jfield fs f with
    | some v => entryWalk nilSafe v rest
    | none => true

/-- value reached after following `hops` -/
def jreach : JVal → List (List Char) → Option JVal
  | v, [] => some v
  | .nilp, _ :: _ => none
  | .obj fs, f :: rest =>
    match jfield fs f with
    | some v => jreach v rest
    | none => none

def JVal.isNil : JVal → Bool
  | .nilp => true
  | .obj _ => false

/-! ## schema/relationship.go `Relationship.ToQueryConditions` (association.go `buildCondition`: Association().Find / Count;
     callbacks/delete.go) and the column choice of callbacks/preload.go `preload`

  A parsed relation is its list of `schema.Reference`s (`JoinRef` above: OwnPrimaryKey, PrimaryKey.DBName = the REFERENCED
  column, ForeignKey.DBName, PrimaryValue = polymorphic constant).  `ToQueryConditions` walks the references once:

    direct (no join table)                                    through a join table
    own      : IN-column fk (child table),  value field pk     own : IN-column fk (JOIN table), value field pk
    constant : `child.fk = 'value'`                            constant : `join.fk = 'value'`
    else     : IN-column pk (target table), value field fk     else : `join.fk = target.pk`

  then `_, foreignValues := GetIdentityFieldValuesMap(parents, foreignFields)` and
  `clause.IN{ToQueryValues(table, relForeignKeys, foreignValues)}`.  The IN-column of a belongs-to is `ref.PrimaryKey` —
  the column named by `references:` — NOT the primary key of the target table. -/

inductive QAtom where
  | constEq (table col value : List Char)          -- clause.Eq{Column{table, col}, Value: ref.PrimaryValue}
  | colEq (table col table2 col2 : List Char)      -- clause.Eq{Column{joinTable, fk}, Value: Column{FieldSchema.Table, pk}}
deriving Repr, DecidableEq

/-- (IN column `relForeignKeys`, value field `foreignFields`) contributed by one reference -/
def qcPair (joined : Bool) (r : JoinRef) : Option (List Char × List Char) :=
  if r.ownPK then some (r.fkCol, r.pkCol)
  else if r.primaryValue ≠ [] then none
  else if joined then none
  else some (r.pkCol, r.fkCol)

/-- the `conds = append(conds, clause.Eq{…})` contributed by one reference -/
def qcAtom (fieldTable : List Char) (joinTable : Option (List Char)) (r : JoinRef) : Option QAtom :=
  if r.ownPK then none
  else if r.primaryValue ≠ [] then some (.constEq (joinTable.getD fieldTable) r.fkCol r.primaryValue)
  else match joinTable with
    | some jt => some (.colEq jt r.fkCol fieldTable r.pkCol)
    | none => none

structure QConds where
  atoms : List QAtom
  inTable : List Char                          -- `table`: FieldSchema.Table, or JoinTable.Table
  pairs : List (List Char × List Char)         -- (relForeignKeys[i], foreignFields[i])
deriving Repr, DecidableEq

def QConds.inCols (q : QConds) : List (List Char) := q.pairs.map (·.1)
def QConds.valFields (q : QConds) : List (List Char) := q.pairs.map (·.2)

def toQueryConditions (fieldTable : List Char) (joinTable : Option (List Char)) (refs : List JoinRef) : QConds :=
  { atoms := refs.filterMap (qcAtom fieldTable joinTable)
    inTable := joinTable.getD fieldTable
    pairs := refs.filterMap (qcPair joinTable.isSome) }

/-- callbacks/preload.go `preload`, direct branch: `relForeignKeys` / `foreignFields` of the child query are chosen by the
    same three-way test (the constants become `tx.Where(clause.Eq{fk, PrimaryValue})`) -/
def preloadDirectPairs (refs : List JoinRef) : List (List Char × List Char) := refs.filterMap (qcPair false)

/-- callbacks/preload.go `preload`, join-table branch: first query = join rows `WHERE join.fk IN parents.pk` over the OWN
    references; second query = targets `WHERE target.pk IN joinRows.fk` over the other references -/
def preloadJoinPairs (refs : List JoinRef) : List (List Char × List Char) := refs.filterMap (qcPair true)
def preloadHopPairs (refs : List JoinRef) : List (List Char × List Char) :=
  refs.filterMap (fun r => if r.ownPK then none else if r.primaryValue ≠ [] then none else some (r.pkCol, r.fkCol))

/-! ### what the conditions select -/

/-- a table row: column ↦ value (`.nil` = NULL) -/
abbrev QRow := List Char → KeyVal
/-- the candidate row of each table mentioned by the conditions (the child / target table and, for many2many, the join table) -/
abbrev QEnv := List Char → QRow

/-- SQL `=`: NULL equals nothing -/
def sqlEq (a b : KeyVal) : Bool := a != .nil && b != .nil && a == b

def QAtom.holds (env : QEnv) : QAtom → Bool
  | .constEq t c v => sqlEq (env t c) (.str v)
  | .colEq t c t2 c2 => sqlEq (env t c) (env t2 c2)

/-- a record handed to `Association()`: its address and its columns with the zero flag `field.ValueOf` reports -/
structure PRow where
  addr : Nat
  cols : List Char → KeyComp

def PRow.idRow (p : PRow) (fields : List (List Char)) : IdRow := ⟨p.addr, fields.map p.cols⟩

/-- `clause.IN{Column: columns, Values: values}` evaluated on the candidate row (tuple equality, NULL equals nothing) -/
def inHolds (env : QEnv) (q : QConds) (values : List (List KeyVal)) : Bool :=
  let t := q.inCols.map (env q.inTable)
  !t.contains .nil && values.contains t

/-- does the WHERE / ON list built by `ToQueryConditions` for the given records accept the candidate row(s)? -/
def assocSelects (fieldTable : List Char) (joinTable : Option (List Char)) (refs : List JoinRef)
    (parents : List PRow) (env : QEnv) : Bool :=
  let q := toQueryConditions fieldTable joinTable refs
  q.atoms.all (·.holds env) && inHolds env q (identitySlice (parents.map (·.idRow q.valFields))).values

/-- the meaning of one `schema.Reference`: foreign key = REFERENCED key (or the polymorphic constant), for the record `p` -/
def refHolds (fieldTable : List Char) (joinTable : Option (List Char)) (p : PRow) (env : QEnv) (r : JoinRef) : Bool :=
  if r.ownPK then sqlEq (env (joinTable.getD fieldTable) r.fkCol) (p.cols r.pkCol).val
  else if r.primaryValue ≠ [] then sqlEq (env (joinTable.getD fieldTable) r.fkCol) (.str r.primaryValue)
  else match joinTable with
    | some j => sqlEq (env j r.fkCol) (env fieldTable r.pkCol)
    | none => sqlEq (env fieldTable r.pkCol) (p.cols r.fkCol).val

/-! ### the relation as the harness / a reader writes it down: which column of which side equals which -/

structure RelSpec where
  belongsTo : Bool                               -- the foreign key lives on the record that owns the field
  on : List (List Char × List Char)              -- (column of the record, column of the child / target)
  consts : List (List Char × List Char)          -- child column = polymorphic constant
  via : Option (List Char)                       -- join table
  viaP : List (List Char × List Char)            -- (column of the record, column of the join table)
  viaC : List (List Char × List Char)            -- (column of the join table, column of the target)
deriving Repr, DecidableEq

/-- the references gorm's parser must produce for the relation (as a set) -/
def RelSpec.refs (s : RelSpec) : List JoinRef :=
  match s.via with
  | none =>
    (if s.belongsTo then s.on.map (fun pc => (⟨false, pc.2, pc.1, []⟩ : JoinRef))
     else s.on.map (fun pc => (⟨true, pc.1, pc.2, []⟩ : JoinRef)))
      ++ s.consts.map (fun cv => (⟨false, [], cv.1, cv.2⟩ : JoinRef))
  | some _ =>
    s.viaP.map (fun pj => (⟨true, pj.1, pj.2, []⟩ : JoinRef)) ++ s.viaC.map (fun jc => (⟨false, jc.2, jc.1, []⟩ : JoinRef))

/-- the reference join of the property text: "child rows whose foreign key equals that parent's referenced key" -/
def RelSpec.holds (s : RelSpec) (childTable : List Char) (p : PRow) (env : QEnv) : Bool :=
  match s.via with
  | none =>
    s.on.all (fun pc => sqlEq (env childTable pc.2) (p.cols pc.1).val) &&
    s.consts.all (fun cv => sqlEq (env childTable cv.1) (.str cv.2))
  | some j =>
    s.viaP.all (fun pj => sqlEq (env j pj.2) (p.cols pj.1).val) &&
    s.viaC.all (fun jc => sqlEq (env j jc.1) (env childTable jc.2))

end Gorm
