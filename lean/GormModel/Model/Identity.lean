/-
  Model of utils/utils.go `ToStringKey` and of the key-string based attachment in
  callbacks/preload.go (`identityMap[utils.ToStringKey(fieldValues...)]`).

  Strings are `List Char`.  A key component is one of the dynamic kinds `ToStringKey` switches on.
-/
namespace Gorm

inductive KeyVal where
  | str (s : List Char)       -- case string (also a driver.Valuer's string value)
  | bytes (s : List Char)     -- case []byte
  | uint (n : Nat)            -- case uint  (exactly `uint`: printed even when zero)
  | int (n : Int)             -- default branch, integer kinds: "nil" when zero, else fmt.Sprint
  | nil                       -- invalid / nil pointer / any other zero value
deriving Repr, DecidableEq

def KeyVal.render : KeyVal → List Char
  | .str s => s
  | .bytes s => s
  | .uint n => (toString n).toList
  | .int n => if n = 0 then "nil".toList else (toString n).toList
  | .nil => "nil".toList

/-- `strings.Join(parts, "_")` -/
def joinKey : List (List Char) → List Char
  | [] => []
  | [p] => p
  | p :: q :: r => p ++ '_' :: joinKey (q :: r)

def toStringKey (vs : List KeyVal) : List Char := joinKey (vs.map KeyVal.render)

/-- a loaded child row: its foreign-key tuple (already rendered components) and identity -/
structure ChildRow where
  fk : List (List Char)
  id : Nat
deriving Repr, DecidableEq

/-- what preload.go attaches to a parent with key tuple `pk`: the children whose key STRING equals the
    parent's key string (identityMap lookup) -/
def attachByString (children : List ChildRow) (pk : List (List Char)) : List Nat :=
  (children.filter (fun c => joinKey c.fk = joinKey pk)).map (·.id)

/-- the reference: children whose foreign-key TUPLE equals the parent's key tuple -/
def attachByTuple (children : List ChildRow) (pk : List (List Char)) : List Nat :=
  (children.filter (fun c => c.fk = pk)).map (·.id)

/-- decidable side condition under which the key string is injective -/
def KeySafe (parts : List (List Char)) : Prop := ∀ p ∈ parts, '_' ∉ p

end Gorm
