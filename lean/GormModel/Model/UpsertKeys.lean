/-
  C16 (round 3) — Save / Create+OnConflict / FirstOrInit / FirstOrCreate over COMPOSITE keys, two tables (the model's
  table and a `Table("…")` twin) and the statement state the nested handles of the finishers inherit.

  What is modelled (file / function next to each definition):
  * finisher_api.go Save, struct case: the loop over `Schema.PrimaryFields` that sends a value to Create — which
    quantifier it implements is NOT written here: it is `KeyTest`, instantiated by `genKeyTest` from the regenerated
    shape of the loop (`Gen.saveKeyLoop…`);
  * callbacks/update.go ConvertToAssignments: the primary-key conditions of an UPDATE come from the NON-ZERO key
    parts of the value only (`pkCond`);
  * callbacks/create.go + clause/on_conflict.go: the conflict target defaults to ALL primary fields (`upsertK`);
  * finisher_api.go FirstOrInit / FirstOrCreate: lookup on the chain's statement (conditions, Unscoped, Table), record
    built from the buildable conditions + Attrs + Assign, and the FOUND-branch write `tx.Model(dest).Updates(assigns)`
    whose statement is the one the nested handle inherits — whether that handle keeps the chain's statement is
    `NestCfg`, instantiated by `genNestCfg` from the regenerated `Gen.finisherNestedCalls` / `finisherHandleOrigins`.

  Abstractions: every column holds a Nat, 0 = Go zero value; a row = key parts ++ payload columns + soft-delete mark;
  a table = list of rows with pairwise distinct keys (`Tbl.wf`); tracked timestamps are not represented.
-/
import GormModel.Gen.UpsertKeyFacts
namespace Gorm.UpsertK

structure KRow where
  key : List Nat
  pay : List Nat
  del : Bool
deriving DecidableEq, Repr

abbrev Tbl := List KRow

def Tbl.get (t : Tbl) (k : List Nat) : Option KRow := t.find? (fun r => r.key == k)

def Tbl.has (t : Tbl) (k : List Nat) : Bool := t.any (fun r => r.key == k)

/-- keys pairwise distinct -/
def Tbl.wf : Tbl → Prop
  | [] => True
  | r :: rest => Tbl.has rest r.key = false ∧ Tbl.wf rest

/-- which quantifier the key loop of Save implements -/
inductive KeyTest where
  | anyZero     -- Create as soon as ONE primary field is zero (the code of the pinned tree)
  | allZero     -- Create only when EVERY primary field is zero
  | unknown     -- a shape the extractor does not recognise
deriving DecidableEq, Repr

def hasZero (k : List Nat) : Bool := k.any (· == 0)

/-- finisher_api.go Save l.90-96 -/
def KeyTest.creates : KeyTest → List Nat → Bool
  | .anyZero, k => hasZero k
  | .allZero, k => k.all (· == 0)
  | .unknown, _ => false

/-- the facts of the CURRENT source tree: `for _, pf := range …PrimaryFields { if _, isZero := …; isZero { return
    …Create().Execute(tx) } }` and nothing after the loop -/
def genKeyTest : KeyTest :=
  if Gen.saveKeyLoops == 1 && Gen.saveKeyLoopStmts == 1 && Gen.saveKeyLoopReturnsCreate && Gen.saveKeyLoopFollowedBy == 0 then
    (if Gen.saveKeyLoopCond == "isZero" then .anyZero else .unknown)
  else .unknown

/-- callbacks/update.go ConvertToAssignments (Dest == Model): `WHERE pk_i = v_i` for the NON-ZERO parts only -/
def pkCond : List Nat → List Nat → Bool
  | [], [] => true
  | a :: as, b :: bs => (a == 0 || a == b) && pkCond as bs
  | _, _ => false

/-- soft_delete.go: `deleted_at IS NULL` unless Unscoped -/
def live (unscoped : Bool) (r : KRow) : Bool := unscoped || !r.del

/-- plain INSERT: unique error when the key exists -/
def insertK (t : Tbl) (v : KRow) : Tbl × Bool :=
  if t.has v.key then (t, true) else (t ++ [v], false)

/-- `INSERT … ON CONFLICT (<all key columns>) DO UPDATE SET <every non-key column> = excluded.…` -/
def upsertK (t : Tbl) (v : KRow) : Tbl :=
  if t.has v.key then t.map (fun r => if r.key == v.key then v else r) else t ++ [v]

def updWhere (unscoped : Bool) (vk : List Nat) (r : KRow) : Bool := pkCond vk r.key && live unscoped r

/-- the UPDATE of Save: every non-key column (deleted_at included) of every row the WHERE matches -/
def updateAllK (unscoped : Bool) (t : Tbl) (v : KRow) : Tbl :=
  t.map (fun r => if updWhere unscoped v.key r then { r with pay := v.pay, del := v.del } else r)

def updCount (unscoped : Bool) (t : Tbl) (vk : List Nat) : Nat := (t.filter (updWhere unscoped vk)).length

/-- finisher_api.go Save, struct case, on the addressed table: (table after, unique error) -/
def saveK (kt : KeyTest) (unscoped : Bool) (t : Tbl) (v : KRow) : Tbl × Bool :=
  if kt.creates v.key then insertK t v
  else if updCount unscoped t v.key = 0 then (upsertK t v, false)
  else (updateAllK unscoped t v, false)

/-! ### the statement a chain leaves, and the statement a nested handle inherits -/

/-- the part of the Statement the nested write reads -/
structure MStmt where
  conds : List (Nat × Nat)   -- chain conditions `column = value` (column index into key ++ pay)
  unscoped : Bool
  table : Nat                -- 0 = the model's table, 1 = Table("…_arch")
deriving DecidableEq, Repr

def MStmt.fresh : MStmt := { conds := [], unscoped := false, table := 0 }

/-- does the handle a nested finisher call runs on keep the statement of `tx = db.getInstance()` -/
structure NestCfg where
  foundKeeps : Bool      -- FirstOrCreate found branch: `tx.Model(dest).Updates(assigns)`
  createKeeps : Bool     -- FirstOrCreate not-found branch: `tx.Create(dest)`
  saveUpdKeeps : Bool    -- Save: `Update().Execute(tx.Session(&Session{Initialized: true}))`
  saveInsKeeps : Bool    -- Save: `tx.Session(&Session{SkipHooks: true}).Clauses(…).Create(value)`
deriving DecidableEq, Repr

/-- selectors that derive a handle WITHOUT dropping the statement (getInstance clones it or shares it) -/
def keepingSteps : List String := ["Model", "Session", "Clauses", "Set", "callbacks"]

/-- a nested call keeps the chain's statement: rooted at `tx`, only statement-keeping selectors, no Session literal
    with `NewDB` (gorm.go Session: `if config.NewDB { tx.clone = 1 }` ⇒ the next getInstance starts from an empty Statement) -/
def nestedKeeps (c : Gen.NestedCall) : Bool :=
  c.root == "tx" && c.steps.all (fun s => keepingSteps.contains s) && !c.sess.contains "NewDB"

def callsOf (fn method : String) : List Gen.NestedCall :=
  Gen.finisherNestedCalls.filter (fun c => c.fn == fn && c.method == method)

def txIsInstance (fn : String) : Bool := Gen.finisherHandleOrigins.contains (fn, "tx", "db|getInstance|")

/-- the facts of the CURRENT source tree -/
def genNestCfg : NestCfg :=
  { foundKeeps := txIsInstance "DB.FirstOrCreate" && !(callsOf "DB.FirstOrCreate" "Updates").isEmpty &&
      (callsOf "DB.FirstOrCreate" "Updates").all nestedKeeps,
    createKeeps := txIsInstance "DB.FirstOrCreate" && !(callsOf "DB.FirstOrCreate" "Create").isEmpty &&
      (callsOf "DB.FirstOrCreate" "Create").all nestedKeeps,
    saveUpdKeeps := txIsInstance "DB.Save" &&
      (Gen.finisherNestedCalls.filter (fun c => c.fn == "DB.Save" && c.method == "Execute")).all nestedKeeps,
    saveInsKeeps := txIsInstance "DB.Save" && !(callsOf "DB.Save" "Create").isEmpty &&
      (callsOf "DB.Save" "Create").all nestedKeeps }

def nest (keeps : Bool) (st : MStmt) : MStmt := if keeps then st else MStmt.fresh

structure World where
  main : Tbl
  arch : Tbl
deriving DecidableEq, Repr

def World.tbl (w : World) (i : Nat) : Tbl := if i = 0 then w.main else w.arch
def World.set (w : World) (i : Nat) (t : Tbl) : World := if i = 0 then { w with main := t } else { w with arch := t }

def KRow.col (r : KRow) (c : Nat) : Nat := (r.key ++ r.pay).getD c 0

def holds (cs : List (Nat × Nat)) (r : KRow) : Bool := cs.all (fun c => r.col c.1 == c.2)

def setAt : List Nat → Nat → Nat → List Nat
  | [], _, _ => []
  | _ :: xs, 0, v => v :: xs
  | x :: xs, i + 1, v => x :: setAt xs i v

/-- assign one column (key part or payload) of an in-memory record -/
def KRow.setCol (r : KRow) (c v : Nat) : KRow :=
  if c < r.key.length then { r with key := setAt r.key c v } else { r with pay := setAt r.pay (c - r.key.length) v }

def KRow.setAll (r : KRow) : List (Nat × Nat) → KRow
  | [] => r
  | f :: fs => (r.setCol f.1 f.2).setAll fs

/-- the key the database hands out for a zero auto-increment key (`none` = application-assigned keys) -/
def assignKey (newKey : Option Nat) (v : KRow) : KRow :=
  match newKey with
  | some k => if v.key.head? == some 0 then { v with key := k :: v.key.tail } else v
  | none => v

/-- Save through a chain carrying Unscoped / Table: the UPDATE runs on `nest saveUpdKeeps st`, the fallback INSERT on
    `nest saveInsKeeps st`, the zero-key Create on the chain's own statement -/
def saveW (kt : KeyTest) (cfg : NestCfg) (st : MStmt) (w : World) (v : KRow) (newKey : Option Nat := none) : World × Bool :=
  if kt.creates v.key then
    let r := insertK (w.tbl st.table) (assignKey newKey v)
    (w.set st.table r.1, r.2)
  else
    let u := nest cfg.saveUpdKeeps st
    if updCount u.unscoped (w.tbl u.table) v.key = 0 then
      let i := nest cfg.saveInsKeeps st
      (w.set i.table (upsertK (w.tbl i.table) v), false)
    else (w.set u.table (updateAllK u.unscoped (w.tbl u.table) v), false)

/-- `Limit(1).Order(pk).Find(dest, conds…)` on the chain's statement; the table is kept in ORDER BY order -/
def firstMatchK (st : MStmt) (qconds : List (Nat × Nat)) (w : World) : Option KRow :=
  (w.tbl st.table).find? (fun r => live st.unscoped r && holds qconds r)

/-- the WHERE of the nested UPDATE: inherited conditions, non-zero key parts of dest, soft-delete filter -/
def foundWhere (n : MStmt) (dest : KRow) (r : KRow) : Bool :=
  pkCond dest.key r.key && live n.unscoped r && holds n.conds r

/-- number of values the WHERE of the nested UPDATE binds (0 ⇒ ErrMissingWhereClause, nothing is sent) -/
def foundBinds (n : MStmt) (dest : KRow) : Nat := n.conds.length + (dest.key.filter (· != 0)).length

/-- finisher_api.go FirstOrCreate l.385-398: `tx.Model(dest).Updates(assigns)` -/
def foundWrite (cfg : NestCfg) (st : MStmt) (w : World) (dest : KRow) (assigns : List (Nat × Nat)) : World × Bool :=
  let n := nest cfg.foundKeeps st
  if foundBinds n dest = 0 then (w, true)
  else (w.set n.table ((w.tbl n.table).map (fun r => if foundWhere n dest r then r.setAll assigns else r)), false)

inductive KErr where
  | ok | unique | other
deriving DecidableEq, Repr

structure KOut where
  world : World
  val : KRow
  err : KErr
deriving Repr

def zeroRow (nk np : Nat) : KRow := { key := List.replicate nk 0, pay := List.replicate np 0, del := false }

/-- the record built on a miss: buildable (clause.Eq) conditions, then attrs, then assigns -/
def builtK (nk np : Nat) (bconds attrs assigns : List (Nat × Nat)) : KRow :=
  (((zeroRow nk np).setAll bconds).setAll attrs).setAll assigns

/-- finisher_api.go FirstOrInit -/
def firstOrInitK (nk np : Nat) (st : MStmt) (qconds bconds attrs assigns : List (Nat × Nat)) (w : World) : KOut :=
  match firstMatchK st qconds w with
  | some r => { world := w, val := r.setAll assigns, err := .ok }
  | none => { world := w, val := builtK nk np bconds attrs assigns, err := .ok }

/-- finisher_api.go FirstOrCreate: `st.conds` are the conditions on the chain (they reach `tx`), `qconds` = those plus
    the inline ones (they reach `queryTx` only); `newKey` = the key the database hands out (auto-increment models) -/
def firstOrCreateK (cfg : NestCfg) (nk np : Nat) (st : MStmt) (qconds bconds attrs assigns : List (Nat × Nat))
    (newKey : Option Nat) (w : World) : KOut :=
  match firstMatchK st qconds w with
  | some r =>
    if assigns.isEmpty then { world := w, val := r, err := .ok }
    else
      let o := foundWrite cfg st w r assigns
      { world := o.1, val := r.setAll assigns, err := if o.2 then .other else .ok }
  | none =>
    let b := assignKey newKey (builtK nk np bconds attrs assigns)
    let n := nest cfg.createKeeps st
    let r := insertK (w.tbl n.table) b
    { world := w.set n.table r.1, val := b, err := if r.2 then .unique else .ok }

/-- Create with an OnConflict rule whose target is the whole key (defaulted or spelled out) -/
inductive KRule where
  | none | doNothing | updateAll | doUpdates (cols : List Nat)
deriving DecidableEq, Repr

def createK (rule : KRule) (t : Tbl) (v : KRow) : Tbl × Bool :=
  if t.has v.key then
    match rule with
    | .none => (t, true)
    | .doNothing => (t, false)
    | .updateAll => (t.map (fun r => if r.key == v.key then v else r), false)
    | .doUpdates cols => (t.map (fun r => if r.key == v.key then r.setAll (cols.map (fun c => (c, v.col c))) else r), false)
  else (t ++ [v], false)

end Gorm.UpsertK
