/-
  Model.AssocPoly — association mode on has-one / has-many relations whose TARGET TABLE is shared by owners of
  different types (polymorphic relations: `polymorphic:Owner`, `polymorphicValue:…`).

  The link store of Model.Assoc is a set of (owner, target) pairs; here the link is the triple
      (owner type, owner id, target)
  stored in TWO columns of the target row (owner-id column + polymorphic type column), and every statement of
  association.go / callbacks/associations.go is modelled with the columns it really names:
    * the element Set of SaveAfterAssociations (every reference: owner key -> id column, PrimaryValue -> type column),
    * `INSERT … ON CONFLICT (id) DO UPDATE SET <assignmentColumns> = excluded.…`: only the LISTED columns of an
      existing row change (has-one block and has-many block build their column list separately),
    * Replace: `UPDATE … SET owner_id = NULL WHERE id NOT IN new AND type = value AND owner_id IN owners` (Unscoped: DELETE),
    * Delete:  `… WHERE type = value AND owner_id IN owners AND id IN named`,
    * Count / Find: buildCondition = ToQueryConditions: `type = value AND owner_id IN owners`.
  Keys are Nat, 0 = "no key" / NULL; type values are Nat codes of the strings (0 = "" = relation not polymorphic).
  The in-memory field of the operated record is an INPUT of every call (`Arg.held`, `[]` for a fresh handle):
  the model says what is stored for whatever the handle holds (the in-memory bookkeeping itself is Model.Assoc).
-/
import GormModel.Model.Assoc
namespace Gorm.AssocPoly
open Gorm.Assoc (OpKind fill zeros nz)

/-- one row of the target table -/
structure Row where
  id : Nat
  oid : Nat      -- owner-id column, 0 = NULL
  oty : Nat      -- polymorphic type column (code of the stored string, 0 = "")
  deriving DecidableEq, Repr

inductive Col | oid | oty
  deriving DecidableEq, Repr

/-- schema.Reference of a has-one / has-many relation -/
inductive Ref
  | value (v : Nat)   -- {PrimaryValue: v, ForeignKey: <type column>}
  | ownPk             -- {OwnPrimaryKey: true, PrimaryKey: owner key, ForeignKey: <owner-id column>}
  deriving DecidableEq, Repr

/-- ref.ForeignKey.DBName -/
def Ref.fk : Ref → Col
  | .value _ => .oty
  | .ownPk => .oid

structure PRel where
  one : Bool     -- has-one (true) / has-many (false)
  ty : Nat       -- polymorphic value, 0 = not polymorphic
  deriving DecidableEq, Repr

/-- schema/relationship.go: buildPolymorphicRelation appends the type reference, then the owner-key reference;
    guessRelation (not polymorphic): the owner-key reference only -/
def PRel.refs (r : PRel) : List Ref := if r.ty = 0 then [.ownPk] else [.value r.ty, .ownPk]

/-- callbacks/associations.go SaveAfterAssociations, "Save Has One associations": `assignmentColumns` (the struct
    case and the slice case build the same list: one entry per reference) -/
def assignColsHasOne (r : PRel) : List Col := r.refs.map Ref.fk

/-- callbacks/associations.go SaveAfterAssociations, "Save Has Many associations": `assignmentColumns` -/
def assignColsHasMany (r : PRel) : List Col := r.refs.map Ref.fk

def assignCols (r : PRel) : List Col := if r.one then assignColsHasOne r else assignColsHasMany r

/-- `ref.ForeignKey.Set(elem, owner key)` / `ref.ForeignKey.Set(elem, ref.PrimaryValue)` -/
def setRef (o : Nat) (e : Row) : Ref → Row
  | .ownPk => { e with oid := o }
  | .value v => { e with oty := v }

/-- the in-memory element with key `id` after the reference loop of SaveAfterAssociations for owner `o` -/
def elem (r : PRel) (o id : Nat) : Row := r.refs.foldl (setRef o) ⟨id, 0, 0⟩

/-- `DO UPDATE SET c = excluded.c` for the listed columns -/
def applyCols (cols : List Col) (e old : Row) : Row :=
  { old with oid := if Col.oid ∈ cols then e.oid else old.oid,
             oty := if Col.oty ∈ cols then e.oty else old.oty }

/-- one VALUES row of `INSERT … ON CONFLICT (id) DO UPDATE SET cols = excluded.cols` -/
def upsert1 (cols : List Col) (rows : List Row) (e : Row) : List Row :=
  if rows.any (fun x => x.id == e.id) then rows.map (fun x => if x.id = e.id then applyCols cols e x else x)
  else rows ++ [e]

def upsert (cols : List Col) (es : List Row) (rows : List Row) : List Row := es.foldl (upsert1 cols) rows

structure St where
  rows : List Row
  next : Nat
  log : List String := []

/-- one operated owner of a call: its key, the keys its in-memory field holds before the call, its values -/
structure Arg where
  o : Nat
  held : List Nat
  vals : List Nat
  deriving DecidableEq, Repr

structure POp where
  rel : PRel
  kind : OpKind
  unscoped : Bool
  args : List Arg          -- one per operated owner (db.Model(&owner): one; db.Model(&owners): one per element)
  named : List Nat := []   -- Delete: the keys of the named records
  deriving DecidableEq, Repr

def POp.os (op : POp) : List Nat := op.args.map (·.o)

/-- association.go saveAssociation/appendToRelations: the in-memory field after the values were added -/
def fieldAfter (r : PRel) (clear : Bool) (held vs : List Nat) : List Nat :=
  if r.one then (match vs.getLast? with | some v => [v] | none => held)
  else (if clear then [] else held) ++ vs

/-- keys of the upserted elements of one owner (RETURNING back-fills the keyless ones: callbacks/create.go) -/
def savedKeys (r : PRel) (clear : Bool) (a : Arg) (next : Nat) : List Nat := fill (fieldAfter r clear a.held a.vals) next

/-- `associationDB.Updates(owner)` -> SaveAfterAssociations(false) for the one selected relation -/
def saveOwner (r : PRel) (clear : Bool) (a : Arg) (s : St) : St :=
  let f := savedKeys r clear a s.next
  if f = [] then s else
  { s with rows := upsert (assignCols r) (f.map (elem r a.o)) s.rows,
           next := s.next + zeros (fieldAfter r clear a.held a.vals),
           log := s.log ++ ["INSERT T"] }

/-- the per-owner loop of saveAssociation -/
def saveAll (r : PRel) (clear : Bool) : List Arg → St → St
  | [], s => s
  | a :: as, s => saveAll r clear as (saveOwner r clear a s)

/-- keys held by the in-memory fields of all operated owners after the saves (Replace's `relValues`) -/
def keepKeys (r : PRel) (clear : Bool) : List Arg → Nat → List Nat
  | [], _ => []
  | a :: as, n => savedKeys r clear a n ++ keepKeys r clear as (n + zeros (fieldAfter r clear a.held a.vals))

/-- the polymorphic condition `type column = value` (absent when the relation is not polymorphic) -/
def tyOk (r : PRel) (x : Row) : Bool := decide (r.ty = 0) || decide (x.oty = r.ty)

/-- Replace's clean-up condition: `id NOT IN keep` (omitted when keep is empty) AND type AND owner_id IN owners -/
def staleRow (r : PRel) (os keep : List Nat) (x : Row) : Bool :=
  tyOk r x && decide (x.oid ∈ os) && (keep.isEmpty || decide (x.id ∉ keep))

/-- Delete's condition: type AND owner_id IN owners AND id IN named -/
def namedRow (r : PRel) (os ns : List Nat) (x : Row) : Bool :=
  tyOk r x && decide (x.oid ∈ os) && decide (x.id ∈ ns)

/-- `UPDATE … SET owner_id = NULL WHERE c` (the type column keeps its value) / Unscoped: `DELETE … WHERE c` -/
def unlink (uns : Bool) (c : Row → Bool) (s : St) : St :=
  if uns then { s with rows := s.rows.filter (fun x => !c x), log := s.log ++ ["DELETE T"] }
  else { s with rows := s.rows.map (fun x => if c x then { x with oid := 0 } else x), log := s.log ++ ["UPDATE T"] }

/-- association.go Replace (Clear = Replace()) on a has-one / has-many relation -/
def replace (op : POp) (clear : Bool) (s : St) : St :=
  let s1 := if clear then s else saveAll op.rel true op.args s
  let keep := if clear then [] else nz (keepKeys op.rel true op.args s.next)
  unlink op.unscoped (staleRow op.rel op.os keep) s1

/-- one Association call -/
def step (op : POp) (s : St) : St :=
  match op.kind with
  | .append => if op.rel.one then replace op false s else saveAll op.rel false op.args s
  | .replace => replace op false s
  | .clear => replace op true s
  | .delete => unlink op.unscoped (namedRow op.rel op.os op.named) s

def run : List POp → St → St
  | [], s => s
  | op :: ops, s => run ops (step op s)

/-! observations -/

/-- association.go buildCondition + Find: `type = value AND owner_id IN owners` -/
def findIds (r : PRel) (os : List Nat) (rows : List Row) : List Nat :=
  (rows.filter (fun x => tyOk r x && decide (x.oid ∈ os))).map (·.id)

def count (r : PRel) (os : List Nat) (rows : List Row) : Nat := (findIds r os rows).length

/-- the stored link (owner type, owner id, target): a row whose owner-id column is not NULL -/
def Linked (rows : List Row) (ty o t : Nat) : Prop := o ≠ 0 ∧ ∃ x ∈ rows, x.id = t ∧ x.oid = o ∧ x.oty = ty

end Gorm.AssocPoly
