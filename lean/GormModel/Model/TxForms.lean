/-
  Model.TxForms — WRITE FORMS inside a transaction, parametrised by the pool each CALL SITE hands its statement to
  (core Lean only; builds on Model.Tx: the same database, driver layer, handles, `gormBegin`, `gormSavePoint`,
  `finishRoot`, `finishNested`, `finishMan`).

  A gorm finisher is not one driver statement: Create with RETURNING is a QueryContext in callbacks/create.go, Save is an
  UPDATE followed by an INSERT … ON CONFLICT, FirstOrCreate is a SELECT followed by an INSERT, Delete with
  Select(associations) deletes the children first, association mode issues several statements, Exec/Raw go through
  callbacks/raw.go, Row()/Rows() through callbacks/row.go. Each of these statements is sent by ONE call site
  `<pool>.ExecContext( | QueryContext( | QueryRowContext(` of callbacks/*.go. Whether that site names
  `db.Statement.ConnPool` (the `*sql.Tx` the handle is bound to) or `db.ConnPool` (the pool configured at Open) is what
  decides whether the statement is part of the transaction. `PoolSel` is that choice; `sel : Nat → PoolSel` maps a call
  site (index into the regenerated table Gen.C04bSites.c04bCallSites) to it.
-/
import GormModel.Model.Tx
import GormModel.Gen.C04bSites
namespace Gorm.Tx

/-- the pool expression a call site sends its statement to -/
inductive PoolSel where
  | stmt   -- `db.Statement.ConnPool.ExecContext(…)`: the pool of the statement instance (inside a transaction: the Tx)
  | cfg    -- `db.ConnPool.ExecContext(…)` / `db.Config.ConnPool.…`: the pool the handle was configured with at Open
deriving DecidableEq, Repr

/-- one driver statement of a write form: `exec` = INSERT / UPDATE / DELETE (ExecContext, or QueryContext when the statement
    carries RETURNING) with the row effects `ws` (one statement may touch several rows — CreateInBatches, a cascade DELETE;
    SQLite aborts the whole statement when one row fails); `query` = a SELECT; `site` = the call site that sends it -/
inductive FStmt where
  | exec (ws : List Write) (site : Nat)
  | query (site : Nat)
deriving Repr

def FStmt.site : FStmt → Nat
  | .exec _ s | .query s => s

/-- all row effects of one statement, or the first failure (statement-level abort: nothing of the statement stays) -/
def applyAll : List Write → Store → Except ErrAtom Store
  | [], s => .ok s
  | w :: ws, s =>
    match w.apply s with
    | .ok s' => applyAll ws s'
    | .error a => .error a

/-- a multi-row statement on the `*sql.Tx` (Model.Tx `drvExecTx` for several row effects) -/
def drvExecsTx (o : Oracle) (ws : List Write) (db : DB) : DB × Err :=
  match db.tx with
  | none => (db, [.txDone])
  | some t =>
    let n := db.calls
    let (db, f) := tick o .W db
    if f then (db, [.inj n]) else
      match applyAll ws t.cur with
      | .ok s => ({ db with tx := some { t with cur := s } }, [])
      | .error a => (db, [a])

/-- a driver call made on a pool connection OUTSIDE the open transaction (tag 0) while that transaction stays open -/
def tickOut (o : Oracle) (k : K) (db : DB) : DB × Bool :=
  let f := o db.calls
  ({ db with calls := db.calls + 1, trace := (k, f) :: db.trace, txof := 0 :: db.txof }, f)

/-- the same statement handed to the CONFIGURED pool: database/sql takes another connection, the statement auto-commits —
    it sees and changes the committed store, and no COMMIT / ROLLBACK / ROLLBACK TO of the transaction reaches it -/
def drvExecsOut (o : Oracle) (ws : List Write) (db : DB) : DB × Err :=
  let n := db.calls
  let (db, f) := tickOut o .W db
  if f then (db, [.inj n]) else
    match applyAll ws db.committed with
    | .ok s => ({ db with committed := s }, [])
    | .error a => (db, [a])

def drvQueryOut (o : Oracle) (cond : List Nat) (db : DB) : DB × Err :=
  let n := db.calls
  let (db, f) := tickOut o .Q db
  if f then (db, [.inj n]) else ({ db with reads := visible cond db.committed :: db.reads }, [])

/-- one statement of a form issued through the transaction handle `h` (callbacks/{create,update,delete,raw,row,query}.go:
    `if db.Error == nil { … <pool>.ExecContext(…) }`) -/
def runFStmt (sel : Nat → PoolSel) (o : Oracle) (h : Handle) : FStmt → DB → DB × Err
  | .exec ws s, db =>
    match sel s with
    | .stmt => drvExecsTx o (ws.map (effWrite h.effCond)) db
    | .cfg => drvExecsOut o (ws.map (effWrite h.effCond)) db
  | .query s, db =>
    match sel s with
    | .stmt => drvQueryTx o h.effCond db
    | .cfg => drvQueryOut o h.effCond db

/-- the statements of one finisher call in order; the first failing statement ends the finisher with its error
    (every later step of gorm's pipelines is guarded by `db.Error == nil`) -/
def runForm (sel : Nat → PoolSel) (o : Oracle) (h : Handle) : List FStmt → DB → DB × Err
  | [], db => (db, [])
  | s :: ss, db =>
    match runFStmt sel o h s db with
    | (db1, e) => if e ≠ [] then (db1, e) else runForm sel o h ss db1

/-- one finisher call of the user function; `must` = the function returns its error at once -/
structure FormOp where
  stmts : List FStmt
  must : Bool
deriving Repr

/-- a finisher through a handle that carries an error runs nothing (getInstance copies Error) -/
def runFormOp (sel : Nat → PoolSel) (o : Oracle) (h : Handle) (f : FormOp) (db : DB) : DB × Err :=
  if h.err ≠ [] then (db, h.err) else runForm sel o h f.stmts db

/-- the finisher calls of a function body in order on the transaction handle `h` (finishers do not modify the handle) -/
def runForms (sel : Nat → PoolSel) (o : Oracle) (h : Handle) : List FormOp → DB → DB × Res
  | [], db => (db, .ok)
  | f :: fs, db =>
    match runFormOp sel o h f (markStale h db) with
    | (db1, e) => if e ≠ [] ∧ f.must = true then (db1, .err e) else runForms sel o h fs db1

def sitesOfForm : List FStmt → List Nat
  | [] => []
  | s :: ss => s.site :: sitesOfForm ss

def sitesOf : List FormOp → List Nat
  | [] => []
  | f :: fs => sitesOfForm f.stmts ++ sitesOf fs

/-- `db.Transaction(func(tx) error { forms…; out })` at top level: finisher_api.go Transaction, root branch — the SAME
    `gormBegin` and `finishRoot` (deferred rollback, `return tx.Commit().Error`) as Model.Tx `runChild (.blk …)` -/
def formBlock (sel : Nat → PoolSel) (c : Cfg) (o : Oracle) (fs : List FormOp) (out : Out) (tag : Nat) (db : DB) : DB × Res :=
  match gormBegin c.beginGuard o c.root db with
  | (db0, tx) =>
    if tx.err ≠ [] then (db0, .err tx.err) else
      match runForms sel o tx fs db0 with
      | (db1, r) =>
        match finishRoot o c.root out tag (db1, tx, r) with
        | (db2, _, r2) => (db2, r2)

/-- `h.Transaction(func(tx2) error { forms…; out })` on a transaction handle `h` (nested transactions enabled): SAVEPOINT,
    the forms through `nestH h1`, the deferred ROLLBACK TO — the SAME `gormSavePoint` / `finishNested` as Model.Tx -/
def formNested (sel : Nat → PoolSel) (o : Oracle) (h : Handle) (fs : List FormOp) (out : Out) (tag : Nat) (db : DB) :
    DB × Handle × Res :=
  match gormSavePoint o h (SpName.auto db.calls) db with
  | (db0, h1) =>
    if h1.err ≠ [] then (db0, h1, .err h1.err) else
      match runForms sel o (nestH h1) fs db0 with
      | (db1, r) => finishNested o h1 (SpName.auto db.calls) out tag (db1, nestH h1, r)

/-- what a function body of the write-form programs consists of -/
inductive FItem where
  | ops (fs : List FormOp)                               -- finisher calls on the handle
  | nested (fs : List FormOp) (out : Out) (tag : Nat)    -- `_ = h.Transaction(func(tx2) error { fs; out })` (result ignored)
  | sp (n : Nat)                                         -- h.SavePoint(n)     (error returned at once)
  | rb (n : Nat)                                         -- h.RollbackTo(n)    (error returned at once)
deriving Repr

def runFItem (sel : Nat → PoolSel) (o : Oracle) (h : Handle) : FItem → DB → DB × Handle × Res
  | .ops fs, db =>
    match runForms sel o h fs db with
    | (db1, r) => (db1, h, r)
  | .nested fs out tag, db =>
    match formNested sel o h fs out tag (markStale h db) with
    | (db1, h1, _) => (db1, h1, .ok)
  | .sp n, db =>
    match gormSavePoint o h (.manual n) (markStale h db) with
    | (db1, h1) => (db1, h1, resOf h1.err)
  | .rb n, db =>
    match gormRollbackTo o h (.manual n) (markStale h db) with
    | (db1, h1) => (db1, h1, resOf h1.err)

def runFItems (sel : Nat → PoolSel) (o : Oracle) (h : Handle) : List FItem → DB → DB × Handle × Res
  | [], db => (db, h, .ok)
  | i :: is, db =>
    match runFItem sel o h i db with
    | (db1, h1, r) =>
      match r with
      | .ok => runFItems sel o h1 is db1
      | r => (db1, h1, r)

/-- how the outermost transaction of a write-form program is driven -/
inductive FOuter where
  | blk (out : Out) (tag : Nat)      -- db.Transaction(func(tx) error { items; out })
  | man (fin : Fin)                  -- tx := db.Begin(); items; tx.Commit() / tx.Rollback()   (well-behaved caller, Model.Tx finishMan)
deriving Repr

/-- a whole write-form program on the root handle -/
def runFProg (sel : Nat → PoolSel) (c : Cfg) (o : Oracle) (outer : FOuter) (items : List FItem) (db : DB) : DB × Res :=
  match gormBegin c.beginGuard o c.root db with
  | (db0, tx) =>
    if tx.err ≠ [] then (db0, .err tx.err) else
      match runFItems sel o tx items db0 with
      | (db1, tx1, r) =>
        match outer with
        | .blk out tag =>
          match finishRoot o c.root out tag (db1, tx1, r) with
          | (db2, _, r2) => (db2, r2)
        | .man fin =>
          match finishMan o c.root fin (db1, tx1, r) with
          | (db2, _, r2) => (db2, r2)

/-- the expansion of single-row forms into the programs of Model.Tx: a form on the statement pool IS a sequence of model
    writes / reads (so every theorem about `runBody` speaks about it) -/
def FStmt.toProg : FStmt → Prog
  | .exec [w] _ => .write w true
  | .exec _ _ => .write .nop true
  | .query _ => .read true

def singleRow : List FStmt → Bool
  | [] => true
  | .exec [_] _ :: ss => singleRow ss
  | .exec _ _ :: _ => false
  | .query _ :: ss => singleRow ss

/-- the pool selector OF THE TREE BEING VERIFIED: call site `i` of the regenerated table Gen.c04bCallSites (extract/gen_c04b.go)
    names the statement pool iff its class is 0; an unknown site counts as the configured pool -/
def siteSel (i : Nat) : PoolSel :=
  match Gen.c04bCallSites[i]? with
  | some (_, _, _, 0) => .stmt
  | _ => .cfg

/-- index of the call site (file, function, method) in the regenerated table -/
def siteIndex (file fn method : String) : Option Nat :=
  let rec go : List (String × String × String × Nat) → Nat → Option Nat
    | [], _ => none
    | (f, g, m, _) :: rest, i => if f == file && g == fn && m == method then some i else go rest (i + 1)
  go Gen.c04bCallSites 0

end Gorm.Tx
