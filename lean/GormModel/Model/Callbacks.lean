/-
  Model of callbacks.go: `Register/Replace/Remove` (+ `Before/After/Match`), `compile`,
  `removeCallbacks`, `sortCallbacks` (incl. the persistent mutation of `before/after` on other
  callbacks and the in-place `sort.SliceStable` pre-pass), `getRIndex`.

  Line-by-line transcription; the recursion of `sortCallback` takes fuel (running out of fuel
  models unbounded recursion in the Go code, i.e. a stack overflow).
-/
import GormModel.Gen.CallbackFacts
namespace Gorm

structure Cb where
  name    : String
  before  : String := ""
  after   : String := ""
  remove  : Bool := false
  replace : Bool := false
  matchOk : Bool := true     -- value of `match(p.db)` (nil match = true)
  hid     : Nat := 0         -- identity of the handler
deriving Repr, DecidableEq, Inhabited

/-- `getRIndex`: index of the LAST occurrence -/
def getRIndex (l : List String) (s : String) : Option Nat :=
  let rec go (l : List String) (i : Nat) (acc : Option Nat) : Option Nat :=
    match l with
    | [] => acc
    | x :: xs => go xs (i+1) (if x = s then some i else acc)
  go l 0 none

/-- comparator of the `sort.SliceStable` pre-pass: less(i, j) -/
def cbLess (ci cj : Cb) : Bool :=
  (cj.before = "*" && ci.before ≠ "*") || (cj.after = "*" && ci.after ≠ "*")

/-- Go's insertionSort (what `sort.SliceStable` runs for n ≤ 20 elements):
    insert `x` into the already processed prefix (kept reversed: nearest neighbour first) -/
def insertBack (x : Cb) : List Cb → List Cb
  | [] => [x]
  | y :: ys => if cbLess x y then y :: insertBack x ys else x :: y :: ys

def insertionSortRev (l : List Cb) : List Cb :=
  l.foldl (fun acc x => insertBack x acc) []

def stableSortCbs (l : List Cb) : List Cb := (insertionSortRev l).reverse

structure SortSt where
  cs : Array Cb
  sorted : List String
deriving Repr

inductive SortErr where
  | conflict (name other : String)
  | fuel
  | cycle      -- only with the depth guard (repair of F12): `depth > 2*len(cs)+2`, returned as an error
deriving Repr, DecidableEq

def setAfter (cs : Array Cb) (i : Nat) (v : String) : Array Cb :=
  cs.modify i (fun c => { c with after := v })
def setBefore (cs : Array Cb) (i : Nat) (v : String) : Array Cb :=
  cs.modify i (fun c => { c with before := v })

/-- result of one `sortCallback` call: the state (mutations persist even when an error is
    returned, as with the Go pointers) and the error, if any -/
abbrev SortRes := SortSt × Option SortErr

/-- first block of `sortCallback`: `if c.before != "" { … }` -/
def beforeBlock (names : List String) (i : Nat) (st : SortSt) : SortRes :=
  let c := st.cs[i]!
  if c.before ≠ "" then
    if c.before = "*" ∧ st.sorted.length > 0 then
      if (getRIndex st.sorted c.name).isNone then
        ({ st with sorted := c.name :: st.sorted }, none)
      else (st, none)
    else match getRIndex st.sorted c.before with
      | some sortedIdx =>
        match getRIndex st.sorted c.name with
        | none => ({ st with sorted := st.sorted.take sortedIdx ++ [c.name] ++ st.sorted.drop sortedIdx }, none)
        | some curIdx =>
          if curIdx > sortedIdx then (st, some (SortErr.conflict c.name c.before)) else (st, none)
      | none =>
        match getRIndex names c.before with
        | some idx => ({ st with cs := setAfter st.cs idx c.name }, none)
        | none => (st, none)
  else (st, none)

/-- second block: `if c.after != "" { … }`; `recur j st` stands for the recursive call `sortCallback(cs[j])`.
    `c` is re-read from the state: it may have been mutated through `cs[idx]` in the first block. -/
def afterBlock (recur : Nat → SortSt → SortRes) (names : List String) (i : Nat) (st : SortSt) : SortRes :=
  let c := st.cs[i]!
  if c.after ≠ "" then
    if c.after = "*" ∧ st.sorted.length > 0 then
      if (getRIndex st.sorted c.name).isNone then
        ({ st with sorted := st.sorted ++ [c.name] }, none)
      else (st, none)
    else match getRIndex st.sorted c.after with
      | some sortedIdx =>
        match getRIndex st.sorted c.name with
        | none => ({ st with sorted := st.sorted ++ [c.name] }, none)
        | some curIdx =>
          if curIdx < sortedIdx then (st, some (SortErr.conflict c.name c.after)) else (st, none)
      | none =>
        match getRIndex names c.after with
        | some idx =>
          let a := st.cs[idx]!
          let st := if a.before = "" then { st with cs := setBefore st.cs idx c.name } else st
          match recur idx st with
          | (st, some e) => (st, some e)
          | (st, none) => recur i st
        | none => (st, none)
  else (st, none)

/-- last block: `if getRIndex(sorted, c.name) == -1 { sorted = append(sorted, c.name) }` -/
def finalBlock (cname : String) (st : SortSt) : SortRes :=
  if (getRIndex st.sorted cname).isNone then
    ({ st with sorted := st.sorted ++ [cname] }, none)
  else (st, none)

/-- `sortCallback(c)` where `c = cs[i]`; `names` is fixed during the sort. -/
def sortCallback (names : List String) : Nat → Nat → SortSt → SortRes
  | 0, _, st => (st, some .fuel)
  | fuel+1, i, st =>
    let cname := (st.cs[i]!).name
    match beforeBlock names i st with
    | (st, some e) => (st, some e)
    | (st, none) =>
      match afterBlock (sortCallback names fuel) names i st with
      | (st, some e) => (st, some e)
      | (st, none) => finalBlock cname st

/-- the main loop `for _, c := range cs { sortCallback(c) }` -/
def sortLoop (names : List String) (fuel : Nat) : Nat → Nat → SortSt → SortRes
  | 0, _, st => (st, none)
  | k+1, i, st =>
    match sortCallback names fuel i st with
    | (st, some e) => (st, some e)
    | (st, none) => sortLoop names fuel k (i+1) st

structure SortOut where
  cs  : List Cb                 -- the (reordered, mutated) callback slice = new p.callbacks
  fns : List Nat                -- handler ids in execution order ([] on error)
  sorted : List String          -- the final `sorted` name list
  err : Option SortErr
deriving Repr

def sortFuel (n : Nat) : Nat := 4 * n + 8

/-- handlers selected for the final name order: last entry with that name, unless removed -/
def selectFns (names : List String) (cs : List Cb) (sorted : List String) : List Nat :=
  sorted.filterMap fun name =>
    match getRIndex names name with
    | some idx => let c := cs[idx]!; if c.remove then none else some c.hid
    | none => none

/-- `sortCallbacks(cs)` -/
def sortCallbacks (cs0 : List Cb) : SortOut :=
  let cs := stableSortCbs cs0
  let names := cs.map (·.name)
  match sortLoop names (sortFuel cs.length) cs.length 0 { cs := cs.toArray, sorted := [] } with
  | (st, some e) => { cs := st.cs.toList, fns := [], sorted := st.sorted, err := some e }
  | (st, none) =>
    { cs := st.cs.toList, fns := selectFns names st.cs.toList st.sorted, sorted := st.sorted, err := none }

/-- `removeCallbacks` -/
def removeCallbacks (cs : List Cb) (removed : List String) : List Cb :=
  cs.filter (fun c => !removed.contains c.name)

/-- processor state: `p.callbacks` and `p.fns`; `order` is a ghost field (not in the Go struct): the
    `sorted` name list of the last compile, i.e. the names of `p.fns` in execution order -/
structure Proc where
  callbacks : List Cb := []
  fns : List Nat := []
  order : List String := []
deriving Repr

/-- `compile()` -/
def Proc.compile (p : Proc) : Proc × Option SortErr :=
  let cbs := p.callbacks.filter (·.matchOk)
  let removed := (p.callbacks.filter (·.remove)).map (·.name)
  let cbs := if removed.isEmpty then cbs else removeCallbacks cbs removed
  let out := sortCallbacks cbs
  ({ callbacks := out.cs, fns := out.fns, order := out.sorted }, out.err)

inductive RegOp where
  | register (name before after : String) (matchOk : Bool) (hid : Nat)
  | replace  (name before after : String) (hid : Nat)
  | remove   (name : String)
deriving Repr, DecidableEq

def RegOp.toCb : RegOp → Cb
  | .register n b a m h => { name := n, before := b, after := a, matchOk := m, hid := h }
  | .replace n b a h => { name := n, before := b, after := a, replace := true, hid := h }
  | .remove n => { name := n, remove := true }

def Proc.apply (p : Proc) (op : RegOp) : Proc × Option SortErr :=
  ({ p with callbacks := p.callbacks ++ [op.toCb] }).compile

/-- run a history; collects the error (if any) returned by each call -/
def Proc.run (p : Proc) (ops : List RegOp) : Proc × List (Option SortErr) :=
  ops.foldl (fun (acc : Proc × List (Option SortErr)) op =>
    let (p', e) := acc.1.apply op
    (p', acc.2 ++ [e])) (p, [])

/-! ## The repaired variants of `sortCallbacks` / `compile`

  Each repair of callbacks.go is a flag; which flags are set in the tree under check is REGENERATED
  (extract/gen_c17.go -> Gen/CallbackFacts.lean). With all flags off the functions below are the
  functions above (`sortCallbacksR_none`, `Proc.runR_none` in Lemmas/CallbacksRepair.lean). -/

structure CbRepairs where
  /-- F12: `sortCallback` counts its recursion depth and returns an error when `depth > 2*len(cs)+2` -/
  depthGuard : Bool := false
  /-- F20: after the `sort.SliceStable` pre-pass `sortCallbacks` replaces `cs` by copies of the records, so
      that the `before`/`after` rewrites of one sort do not reach `p.callbacks` -/
  sortCopies : Bool := false
  /-- F19: the comparator of the pre-pass is `!star(cs[i]) && star(cs[j])` (a strict weak order) -/
  starOrder : Bool := false
deriving Repr, DecidableEq

/-- `star := func(c *callback) bool { return c.before == "*" || c.after == "*" }` -/
def Cb.star (c : Cb) : Bool := c.before = "*" || c.after = "*"

/-- comparator of the repaired pre-pass: less(i, j) = `!star(cs[i]) && star(cs[j])` -/
def starLess (ci cj : Cb) : Bool := !ci.star && cj.star

/-- Go's insertion sort (see `insertBack`) for an arbitrary comparator -/
def insertBackBy (less : Cb → Cb → Bool) (x : Cb) : List Cb → List Cb
  | [] => [x]
  | y :: ys => if less x y then y :: insertBackBy less x ys else x :: y :: ys

def stableSortBy (less : Cb → Cb → Bool) (l : List Cb) : List Cb :=
  (l.foldl (fun acc x => insertBackBy less x acc) []).reverse

/-- the `sort.SliceStable` pre-pass of the tree under check -/
def prepass (r : CbRepairs) (l : List Cb) : List Cb :=
  if r.starOrder then stableSortBy starLess l else stableSortCbs l

/-- the depth guard `depth > 2*len(cs)+2`: the outermost call runs at depth 1, so exactly the calls nested
    deeper than `depthBound n` are refused -- which is what `sortCallback` does when started with this fuel -/
def depthBound (n : Nat) : Nat := 2 * n + 2

/-- with the guard, running out of fuel IS the guard's `return fmt.Errorf(...)` -/
def SortErr.guarded : SortErr → SortErr
  | .fuel => .cycle
  | e => e

/-- `sortCallbacks(cs)` of the tree under check -/
def sortCallbacksR (r : CbRepairs) (cs0 : List Cb) : SortOut :=
  let cs := prepass r cs0
  let names := cs.map (·.name)
  let fuel := if r.depthGuard then depthBound cs.length else sortFuel cs.length
  let res := sortLoop names fuel cs.length 0 { cs := cs.toArray, sorted := [] }
  -- what `p.callbacks` holds afterwards: the pre-sorted slice; its records carry the rewrites unless the
  -- sort worked on copies
  let outCs := if r.sortCopies then cs else res.1.cs.toList
  match res.2 with
  | some e => { cs := outCs, fns := [], sorted := res.1.sorted,
                err := some (if r.depthGuard then e.guarded else e) }
  | none => { cs := outCs, fns := selectFns names res.1.cs.toList res.1.sorted, sorted := res.1.sorted, err := none }

/-- `compile()` of the tree under check -/
def Proc.compileR (r : CbRepairs) (p : Proc) : Proc × Option SortErr :=
  let cbs := p.callbacks.filter (·.matchOk)
  let removed := (p.callbacks.filter (·.remove)).map (·.name)
  let cbs := if removed.isEmpty then cbs else removeCallbacks cbs removed
  let out := sortCallbacksR r cbs
  ({ callbacks := out.cs, fns := out.fns, order := out.sorted }, out.err)

def Proc.applyR (r : CbRepairs) (p : Proc) (op : RegOp) : Proc × Option SortErr :=
  ({ p with callbacks := p.callbacks ++ [op.toCb] }).compileR r

/-- the repairs present in the tree under check (regenerated facts) -/
def treeRepairs : CbRepairs :=
  { depthGuard := Gen.sortDepthGuard, sortCopies := Gen.sortWorksOnCopies, starOrder := Gen.sortStarOrder }

def Proc.runR (r : CbRepairs) (p : Proc) (ops : List RegOp) : Proc × List (Option SortErr) :=
  ops.foldl (fun (acc : Proc × List (Option SortErr)) op =>
    let (p', e) := acc.1.applyR r op
    (p', acc.2 ++ [e])) (p, [])

end Gorm
