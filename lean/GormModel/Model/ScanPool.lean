/-
  Model of the HOLDER DISCIPLINE of scan.go `(*DB).scanIntoStruct` (C15, round 3).

  Every struct-destination read path (Find / First / Take / Last / FindInBatches / Scan / ScanRows) funnels each
  result row through `scanIntoStruct`, which borrows one scan holder per column from `field.NewValuePool` — a
  process-wide `sync.Pool` shared by every field of the same Go type, i.e. by every goroutine, table and query:

      for idx, field := range fields { if field != nil { values[idx] = field.NewValuePool.Get() } … }   -- get
      db.AddError(rows.Scan(values...))                                                                  -- scan
      for idx, field := range fields { if field == nil { continue }
          … field.Set(ctx, value, values[idx]) …                                                         -- set
          field.NewValuePool.Put(values[idx]) }                                                          -- put

  "report the same rows and values" under concurrent readers rests on this order: a holder that sits in the pool
  may be handed to ANY other goroutine, which then scans a foreign value into it.

  Three layers:

  1. `Skeleton` — the statement order of the function as REGENERATED from the source (extract/gen_c15b.go →
     Gen/ScanPoolFacts.lean `scanIntoStructSkeleton`): the `range fields` loops with their pool statements (Get with
     its guard, Put with its guard and whether it is `defer`red, field.Set) and `rows.Scan` between them.
  2. `rowsRun` — an interpreter of ANY skeleton: the slot-level actions (`Act`) one goroutine performs for a result
     set of n rows over the field-bearing columns `fs` (`values` is allocated once per result set by gorm.Scan and
     handed to every scanIntoStruct call, so slot nil-ness persists across rows; a deferred Put runs when the
     function returns, i.e. at the end of the ROW).  Tied to the real code by the `pool.trace` correspondence
     suite (harness/c15_pool.go): the real Get / rows.Scan / Put sequence seen by recording pools.
     `localOK` judges one goroutine's actions on their own: it only scans into / reads / puts back a slot whose
     holder it got and has not put back yet.
  3. `GState` / `step` — ANY number of goroutines interleaved on ONE pool with `sync.Pool` semantics (Get hands out
     any pooled holder or a new one; Put pushes whatever the slot points at, owned or not).  `safeEv`: every holder
     a row reads is not in the pool and not held by any other slot of any goroutine.
-/
namespace Gorm.ScanPool

/-! ### 1. regenerated statement order -/

/-- guard of a pool statement BEYOND the `field != nil` test both loops share -/
inductive Guard where
  | always      -- no further condition
  | ifSlotNil   -- `if values[idx] == nil`
  | other       -- any other condition (the model lets a per-slot oracle decide)
deriving DecidableEq, Repr

/-- one pool-relevant statement of a `for idx, field := range fields` body, in source order -/
inductive PStmt where
  | get (g : Guard)                     -- `values[idx] = field.NewValuePool.Get()`
  | put (g : Guard) (deferred : Bool)   -- `field.NewValuePool.Put(values[idx])`, `defer`red or not
  | set                                 -- `field.Set(ctx, value, values[idx])` (either branch of the join test)
deriving DecidableEq, Repr

inductive PTop where
  | fieldLoop (body : List PStmt)       -- `for idx, field := range fields { … }`, body run for `field != nil`
  | scanAll                             -- `rows.Scan(values...)`
deriving DecidableEq, Repr

abbrev Skeleton := List PTop

/-- the order the property needs: ONE unguarded Get per field column before rows.Scan; after it, per field column,
    the Set(s) and then ONE unguarded, non-deferred Put -/
def disciplined : Skeleton → Bool
  | [.fieldLoop [.get .always], .scanAll, .fieldLoop post] =>
      post.dropWhile (· == .set) == [.put .always false]
  | _ => false

/-- decoding of the regenerated table `Gen.scanIntoStructOrder` (encoding: extract/gen_c15b.go) -/
def decodeGuard : Nat → Guard
  | 0 => .always
  | 1 => .ifSlotNil
  | _ => .other

def decodeStmt : Nat × Nat × Bool → PStmt
  | (0, g, _) => .get (decodeGuard g)
  | (1, g, d) => .put (decodeGuard g) d
  | _ => .set

def decodeSkeleton (l : List (Nat × List (Nat × Nat × Bool))) : Skeleton :=
  l.map fun t => if t.1 == 0 then .fieldLoop (t.2.map decodeStmt) else .scanAll

/-! ### 2. one goroutine: slot-level actions -/

/-- what one goroutine does with slot `i` of its `values` slice -/
inductive Act where
  | get (i : Nat)            -- values[i] = pool.Get()
  | put (i : Nat)            -- pool.Put(values[i])
  | scan (is : List Nat)     -- rows.Scan(values...): writes through every field slot
  | set (i : Nat)            -- field.Set(…, values[i]): reads through slot i
deriving DecidableEq, Repr

structure RunSt where
  nonNil : List Nat := []    -- slots with `values[idx] != nil` (persist across the rows of one result set)
  defers : List Nat := []    -- deferred Puts of the running call, most recent first
deriving Repr

def guardOn (ch : Nat → Bool) (nonNil : List Nat) (i : Nat) : Guard → Bool
  | .always => true
  | .ifSlotNil => !nonNil.contains i
  | .other => ch i

/-- one statement of an iteration; guards are evaluated against `nn`, the nil-ness of the slots when the iteration
    was ENTERED (`if values[idx] == nil { values[idx] = pool.Get(); defer pool.Put(values[idx]) }` is one block:
    the extractor flattens it into statements carrying the block's guard) -/
def stmtRun (ch : Nat → Bool) (nn : List Nat) (i : Nat) (st : RunSt) : PStmt → RunSt × List Act
  | .get g => if guardOn ch nn i g then ({ st with nonNil := i :: st.nonNil }, [.get i]) else (st, [])
  | .put g d =>
    if guardOn ch nn i g then
      (if d then ({ st with defers := i :: st.defers }, []) else (st, [.put i]))
    else (st, [])
  | .set => (st, [.set i])

def stmtsRun (ch : Nat → Bool) (nn : List Nat) (i : Nat) : RunSt → List PStmt → RunSt × List Act
  | st, [] => (st, [])
  | st, p :: ps =>
    let (st1, a1) := stmtRun ch nn i st p
    let (st2, a2) := stmtsRun ch nn i st1 ps
    (st2, a1 ++ a2)

def bodyRun (ch : Nat → Bool) (i : Nat) (st : RunSt) (body : List PStmt) : RunSt × List Act :=
  stmtsRun ch st.nonNil i st body

/-- `for idx, field := range fields` over the field-bearing columns `fs` -/
def loopRun (ch : Nat → Bool) (body : List PStmt) : RunSt → List Nat → RunSt × List Act
  | st, [] => (st, [])
  | st, i :: is =>
    let (st1, a1) := bodyRun ch i st body
    let (st2, a2) := loopRun ch body st1 is
    (st2, a1 ++ a2)

def topRun (ch : Nat → Bool) (fs : List Nat) (st : RunSt) : PTop → RunSt × List Act
  | .fieldLoop body => loopRun ch body st fs
  | .scanAll => (st, [.scan fs])

def topsRun (ch : Nat → Bool) (fs : List Nat) : RunSt → List PTop → RunSt × List Act
  | st, [] => (st, [])
  | st, t :: ts =>
    let (st1, a1) := topRun ch fs st t
    let (st2, a2) := topsRun ch fs st1 ts
    (st2, a1 ++ a2)

/-- one call of scanIntoStruct = one row; the deferred Puts run (LIFO) when it returns -/
def rowRun (ch : Nat → Bool) (fs : List Nat) (sk : Skeleton) (st : RunSt) : RunSt × List Act :=
  let (st1, a) := topsRun ch fs st sk
  ({ st1 with defers := [] }, a ++ st1.defers.map .put)

/-- the n rows of one result set (one `values` slice) -/
def rowsRun (ch : Nat → Bool) (fs : List Nat) (sk : Skeleton) : Nat → RunSt → List Act
  | 0, _ => []
  | n + 1, st =>
    let (st1, a) := rowRun ch fs sk st
    a ++ rowsRun ch fs sk n st1

/-- slot ↦ "this goroutine got the holder and has not put it back" -/
abbrev Own := Nat → Bool

def noneOwned : Own := fun _ => false

def readsOf : Act → List Nat
  | .scan is => is
  | .set i => [i]
  | _ => []

/-- the goroutine scans into / reads / puts back only holders it currently owns -/
def actOK (own : Own) : Act → Bool
  | .get _ => true
  | .put i => own i
  | .scan is => is.all own
  | .set i => own i

def actOwn (own : Own) : Act → Own
  | .get i => fun j => j == i || own j
  | .put i => fun j => j != i && own j
  | _ => own

def localOK : List Act → Own → Bool
  | [], _ => true
  | a :: as, own => actOK own a && localOK as (actOwn own a)

def ownAfter : List Act → Own → Own
  | [], own => own
  | a :: as, own => ownAfter as (actOwn own a)

/-! ### 3. any number of goroutines on one sync.Pool -/

structure GState where
  free : List Nat                            -- holders sitting in the pool
  next : Nat                                 -- `New` has created exactly the holders < next
  slot : Nat → Nat → Option (Nat × Bool)     -- goroutine, slot ↦ (holder the slot points at, owned?)

def GState.init : GState := { free := [], next := 0, slot := fun _ _ => none }

structure GEv where
  t : Nat                   -- goroutine
  act : Act
  pick : Option Nat := none -- Get: index into the pool's free list; none / out of range = the pool calls New
deriving Repr

def updSlot (f : Nat → Nat → Option (Nat × Bool)) (t i : Nat) (v : Option (Nat × Bool)) :
    Nat → Nat → Option (Nat × Bool) :=
  fun t' i' => if t' = t ∧ i' = i then v else f t' i'

def step (s : GState) (e : GEv) : GState :=
  match e.act with
  | .get i =>
    match e.pick.bind (fun k => s.free[k]?) with
    | some h => { s with free := s.free.erase h, slot := updSlot s.slot e.t i (some (h, true)) }
    | none => { s with next := s.next + 1, slot := updSlot s.slot e.t i (some (s.next, true)) }
  | .put i =>
    match s.slot e.t i with
    | some (h, _) => { s with free := h :: s.free, slot := updSlot s.slot e.t i (some (h, false)) }
    | none => s
  | _ => s

def run (s : GState) : List GEv → GState
  | [] => s
  | e :: es => run (step s e) es

def isOwned (s : GState) (t : Nat) : Own := fun i =>
  match s.slot t i with
  | some (_, true) => true
  | _ => false

/-- the event respects the goroutine's own bookkeeping (`actOK` on the global state) -/
def discEv (s : GState) (e : GEv) : Bool := actOK (isOwned s e.t) e.act

def discAll (s : GState) : List GEv → Prop
  | [] => True
  | e :: es => discEv s e = true ∧ discAll (step s e) es

/-- every holder the event reads is exclusively this slot's: bound, not in the pool, no other owned slot of any
    goroutine points at it -/
def safeEv (s : GState) (e : GEv) : Prop :=
  ∀ i ∈ readsOf e.act, ∃ h, s.slot e.t i = some (h, true) ∧ h ∉ s.free ∧
    ∀ t' i', (t' ≠ e.t ∨ i' ≠ i) → s.slot t' i' ≠ some (h, true)

def safeAll (s : GState) : List GEv → Prop
  | [] => True
  | e :: es => safeEv s e ∧ safeAll (step s e) es

/-- executable: some holder the event reads sits in the pool at that moment -/
def pooledWhileRead (s : GState) (e : GEv) : Bool :=
  (readsOf e.act).any fun i =>
    match s.slot e.t i with
    | some (h, _) => s.free.contains h
    | none => false

/-- executable: some holder the event reads is also the target of slot (t', i') -/
def sharedWith (s : GState) (e : GEv) (t' i' : Nat) : Bool :=
  (readsOf e.act).any fun i =>
    (t' != e.t || i' != i) &&
    match s.slot e.t i, s.slot t' i' with
    | some (h, _), some (h', _) => h == h'
    | _, _ => false

/-- does any event of the schedule read a pooled holder? -/
def anyPooledRead (s : GState) : List GEv → Bool
  | [] => false
  | e :: es => pooledWhileRead s e || anyPooledRead (step s e) es

/-- goroutine t's own actions within a schedule -/
def proj (t : Nat) (es : List GEv) : List Act := (es.filter (·.t == t)).map (·.act)

/-- invariant: every holder has ONE place — the pool, or one owned slot -/
structure Inv (s : GState) : Prop where
  freeNodup : s.free.Nodup
  freeLt : ∀ h ∈ s.free, h < s.next
  slotLt : ∀ t i h b, s.slot t i = some (h, b) → h < s.next
  ownedNotFree : ∀ t i h, s.slot t i = some (h, true) → h ∉ s.free
  ownedInj : ∀ t i t' i' h, s.slot t i = some (h, true) → s.slot t' i' = some (h, true) → t = t' ∧ i = i'

/-- the schedule `es` lets goroutine t run exactly the actions `as` (in order), for every t -/
def IsInterleaving (es : List GEv) (prog : Nat → List Act) : Prop := ∀ t, proj t es = prog t

end Gorm.ScanPool
