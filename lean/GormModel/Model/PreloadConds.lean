/-
  C06 round 5 — callbacks/preload.go: how the ARGUMENTS of `Preload(name, args…)` are consumed when a chain executes.

  `Statement.clone` copies the `Preloads` MAP, not the argument slices in it: the slice stored by `Preload` on a
  reusable handle is the very array every chain derived from the handle reads when its query runs
  (callbacks/query.go Preload → preloadEntryPoint(…, db.Statement.Preloads, …) → preload(tx, rel, conds, …)).

  * `entryConds`  = preloadEntryPoint: `conds = append(preloads[name], associationsConds...)`
  * `splitLoop`   = preload(): `for _, cond := range conds { if fc, ok := cond.(func(*gorm.DB) *gorm.DB); ok { tx = fc(tx) }
                                 else { inlineConds = append(inlineConds, cond) } }`
    (`range` fixes the length once and reads `conds[i]` from the array at iteration i)
  * `initInline`  = the declaration of `inlineConds`: `var inlineConds []interface{}` (nil) or a re-slice `conds[:0]`
                    of the shared array.  Which one the tree has is READ from the regenerated `Gen.aliasWrites`
                    (`prefixInitOf`: an `appendOntoPrefix` event inside `preload`).
  Cells: `atom 0` = a scope function, any other atom = an inline condition / bound value.
-/
import GormModel.Model.Heap
import GormModel.Gen.C06Round5
namespace Gorm.PreConds
open Gorm.Heap

/-- `cond.(func(*gorm.DB) *gorm.DB)` succeeds -/
def isFn : Cell → Bool
  | .atom 0 => true
  | _ => false

/-- the declaration of `inlineConds` in preload() -/
def initInline (prefixInit : Bool) (conds : Slice) : Slice :=
  if prefixInit then { conds with len := 0 } else Slice.nil

/-- the loop of preload() over `conds`, from index `i`, `fuel` iterations left -/
def splitLoop (H : Heap) (conds inl : Slice) (i : Nat) : Nat → Heap × Slice
  | 0 => (H, inl)
  | fuel + 1 =>
    if isFn ((H.cells conds.arr).getD (conds.off + i) (.atom 0)) then splitLoop H conds inl (i + 1) fuel
    else
      splitLoop (appendS H inl [(H.cells conds.arr).getD (conds.off + i) (.atom 0)]).1 conds
        (appendS H inl [(H.cells conds.arr).getD (conds.off + i) (.atom 0)]).2 (i + 1) fuel

/-- preload(): the inline conditions handed to `Find(dest, inlineConds...)` -/
def split (prefixInit : Bool) (H : Heap) (conds : Slice) : Heap × Slice :=
  splitLoop H conds (initInline prefixInit conds) 0 conds.len

/-- preloadEntryPoint + preload for one relation: `args` = Statement.Preloads[name], `assoc` = the conditions given with
    `Preload(clause.Associations, …)` -/
def consume (prefixInit : Bool) (H : Heap) (args : Slice) (assoc : List Cell) : Heap × Slice :=
  split prefixInit (appendS H args assoc).1 (appendS H args assoc).2

/-- the discipline of the tree: is there an `append` onto a re-sliced prefix of shared storage inside preload()? -/
def prefixInitOf (evs : List (String × String × String × String × String)) : Bool :=
  evs.any fun e => e.2.1 == "preload" && e.2.2.1 == "appendOntoPrefix"

/-- what the handle's `Preloads[name]` holds after one chain derived from it has run its preload -/
def argsAfter (prefixInit : Bool) (args : List Cell) (spare : Nat) (assoc : List Cell) : List Cell × Nat :=
  let a := alloc Heap.empty args (args.length + spare)
  let r := consume prefixInit a.1 a.2 assoc
  (readS r.1 a.2, r.1.writes)

end Gorm.PreConds
