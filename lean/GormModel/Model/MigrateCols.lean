/-
  C20, round 4 — two pieces of glue between `schema.Parse` / `gorm.Statement` and the migrator that the model took for
  granted so far:

  (1) WHICH struct field owns a column.  schema/schema.go `Parse` (the loop "nonexistence or shortest path or first appear
      prioritized if has permission", lines 213-251) turns `Schema.Fields` — every field of the struct and of its embedded
      structs, several of which may map to ONE column name (gorm.Model + an own `UpdatedAt`, the same `column:` tag twice,
      one struct embedded twice without a prefix) — into `Schema.DBNames` (column names, first-appearance order) and
      `Schema.FieldsByDBName` (the owner of each column).  migrator.go `AutoMigrate` / `CreateTable` range over
      `DBNames` and read `FieldsByDBName[dbName]`: one decision per COLUMN.  `ModelDecl.fields` is that list.

  (2) WHICH table name the constraint look-ups use.  statement.go `Parse` (lines 494-500) and chainable_api.go `Table`
      split a schema-qualified name `main.items` into `stmt.TableExpr` (quoted, qualified) and `stmt.Table` (the bare
      `items`); the dialect catalogues (`sqlite_master.tbl_name`, `information_schema.table_constraints.table_name`)
      know the BARE name.  migrator.go `GuessConstraintInterfaceAndTable` answers, per kind of constraint, with one of
      `stmt.Table`, `rel.FieldSchema.Table`, `rel.JoinTable.Table`, `stmt.Schema.Table`.
-/
import GormModel.Model.Migrate
namespace Gorm.Mig

/-! ### (1) column ownership -/

/-- a `*schema.Field` of `Schema.Fields` as the ownership loop reads it -/
structure RawField where
  decl : FieldDecl          -- `decl.dbName = []` for fields without a column (relations, `-`)
  depth : Nat               -- len(field.BindNames): 1 for the struct's own fields, 2.. for fields of embedded structs
  perm : Bool               -- field.Creatable || field.Updatable || field.Readable
deriving Repr, DecidableEq

/-- one iteration of the loop (lines 219-241): the association list is `DBNames` zipped with `FieldsByDBName` -/
def ownStep (s : List (Str × RawField)) (f : RawField) : List (Str × RawField) :=
  if f.decl.dbName = [] then s
  else match lookup f.decl.dbName s with
    | none => s ++ [(f.decl.dbName, f)]
    | some v => if f.perm && decide (f.depth < v.depth) then update f.decl.dbName (fun _ => f) s else s

def owners (raw : List RawField) : List (Str × RawField) := raw.foldl ownStep []

/-- `for _, dbName := range stmt.Schema.DBNames { field := stmt.Schema.FieldsByDBName[dbName] … }` -/
def resolveColumns (raw : List RawField) : List FieldDecl := (owners raw).map (fun p => p.2.decl)

/-- the struct fields that map to a column, in `Schema.Fields` order (what a per-FIELD loop would visit) -/
def columnFields (raw : List RawField) : List FieldDecl := (raw.filter (fun f => f.decl.dbName != [])).map (·.decl)

/-- column names for which a DDL list issues ADD COLUMN -/
def addedNames : List DDL → List Str
  | [] => []
  | .addColumn _ f :: ds => f.dbName :: addedNames ds
  | _ :: ds => addedNames ds

/-- a model whose column list comes from the ownership loop -/
def modelOfRaw (table : Str) (raw : List RawField) (fks checks indexes : List Str) : ModelDecl :=
  { table := table, fields := resolveColumns raw, fks := fks, checks := checks, indexes := indexes }

/-! ### (2) table names -/

/-- `stmt.Table` for a schema whose `Table` is `s` (statement.go lines 494-500: `strings.Split(s, ".")`, two parts ⇒ the second) -/
def stmtTable (s : Str) : Str :=
  match splitOn '.' s with
  | [_, b] => b
  | _ => s

/-- the branches of `GuessConstraintInterfaceAndTable` (in source order) -/
inductive GuessBranch where
  | nilSchema | check | unique | relName | fieldCheck | fieldUnique | fieldRel | fallthrough
deriving Repr, DecidableEq

/-- the table expressions the function can answer with -/
inductive TableExpr where
  | stmtTable            -- `stmt.Table`
  | schemaTable          -- `stmt.Schema.Table`
  | getTable             -- `getTable(rel)`
deriving Repr, DecidableEq

/-- the closure `getTable` (lines 701-709) -/
inductive GetTableArm where
  | fieldSchemaTable     -- `rel.FieldSchema.Table`   (has-one / has-many)
  | joinTable            -- `rel.JoinTable.Table`     (many2many)
  | stmtTable            -- `stmt.Table`              (default: belongs-to)
deriving Repr, DecidableEq

/-- what the constraint look-up needs of one relation -/
structure RelTables where
  typ : RelType
  fieldSchemaTable : Str
  joinTable : Str
deriving Repr, DecidableEq

def getTableArm : RelType → GetTableArm
  | .hasOne | .hasMany => .fieldSchemaTable
  | .many2many => .joinTable
  | .belongsTo => .stmtTable

/-- `getTable(rel)` for a statement whose schema table is `schemaT` -/
def getTable (schemaT : Str) (r : RelTables) : Str :=
  match getTableArm r.typ with
  | .fieldSchemaTable => r.fieldSchemaTable
  | .joinTable => r.joinTable
  | .stmtTable => stmtTable schemaT

/-- the kinds of constraint a name handed to `HasConstraint` / `CreateConstraint` can resolve to -/
inductive Found where
  | check | unique | rel (r : RelTables) | none
deriving Repr, DecidableEq

/-- the table `GuessConstraintInterfaceAndTable` answers with -/
def guessTable (schemaT : Str) : Found → Str
  | .check | .unique => stmtTable schemaT
  | .rel r => getTable schemaT r
  | .none => schemaT

/-- the name under which the dialect catalogue files the table a statement with schema table `s` works on -/
def catalogName (s : Str) : Str := stmtTable s

/-- no `.` in the text -/
def Undotted (s : Str) : Prop := '.' ∉ s

/-! ### constraint names over the two spellings of the table -/

/-- schema/naming.go `formatName` below `IdentifierMaxLength`: the parts joined with `_`, every `.` replaced by `_` -/
def replaceDots (s : Str) : Str := s.map (fun c => if c = '.' then '_' else c)

/-- `NamingStrategy.UniqueName(table, column)` (short names) -/
def uniqueName (table col : Str) : Str := replaceDots ("uni_".toList ++ table ++ '_' :: col)

/-- `MigrateColumnUnique` asks for the constraint `UniqueName(stmt.Table, col)`; `ParseUniqueConstraints` files the
    field's constraint under `UniqueName(schema.Table, col)`.  `GuessConstraintInterfaceAndTable` finds it by name only
    when the two agree (a constraint name is not a field name: the `LookUpField` branch does not apply). -/
def migrateUniqueFound (schemaT col : Str) : Found :=
  if uniqueName (stmtTable schemaT) col = uniqueName schemaT col then .unique else .none

/-! ### UNIQUE constraints of CREATE TABLE when several fields share a column -/

/-- `ParseUniqueConstraints` ranges over `Schema.Fields` (every field, also one that lost its column to another field):
    CREATE TABLE carries `CONSTRAINT uni_… UNIQUE (col)` as soon as ANY field mapping to `col` is tagged `unique` -/
def declaredUnique (raw : List RawField) (col : Str) : Bool :=
  raw.any (fun f => f.decl.dbName == col && f.decl.unique)

/-- the columns CREATE TABLE produces, uniqueness taken from `u` instead of the owner's own flag -/
def createdColsU (reflect : FieldDecl → ColumnInfo) (u : Str → Bool) : List FieldDecl → List (Str × ColumnInfo)
  | [] => []
  | f :: fs =>
    if f.ignoreMigration then createdColsU reflect u fs
    else (f.dbName, { reflect f with unique := (u f.dbName, (reflect f).unique.2) }) :: createdColsU reflect u fs

end Gorm.Mig
