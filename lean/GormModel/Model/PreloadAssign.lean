/-
  Model.PreloadAssign — (C08, round 5) what a relation field of a RE-LOADED destination holds after callbacks/preload.go preload().

  preload() runs the child query (its statement carries the related model's soft-delete filter unless Unscoped: the result holds
  exactly the VISIBLE related rows), then
     "clean up old values before preloading":  switch reflectValue.Kind() { case Struct: …; case Slice, Array: for every element … }
        switch rel.Type { case HasMany, Many2Many: rel.Field.Set(…, empty slice)   default: rel.Field.Set(…, reflect.New(FieldType)) }
     the assignment loop:  for every returned row, for every parent `data` whose key equals the row's foreign key:
        struct-kind field  → rel.Field.Set(ctx, data, elem.Interface())            (overwrite)
        slice-kind field   → rel.Field.Set(ctx, data, reflect.Append(field, elem)) (append)
  A destination that is re-loaded in place (First/Take/Find(&one) scan into the struct the caller hands in) still carries the
  relation of the earlier load; when the only related row has been soft-deleted the loop assigns nothing, so the field shows the
  invisible row unless the clean-up step emptied it first.

  A relation field is abstracted to the list of keys of the rows it shows (a has-one / belongs-to field: at most one).  The
  arms of the clean-up step are the regenerated `Gen.preloadResetArms` (extract/gen_c08_preload.go).  The Joins path
  (scan.go scanIntoStruct) has no clean-up step: `joinsAssign`.  Core Lean only.
-/
import GormModel.Gen.PreloadResetFacts
namespace Gorm.PreloadAssign

/-- schema.RelationshipType -/
inductive RelKind
  | hasOne | hasMany | belongsTo | many2Many
deriving Repr, DecidableEq, Inhabited

def RelKind.goName : RelKind → String
  | .hasOne => "schema.HasOne"
  | .hasMany => "schema.HasMany"
  | .belongsTo => "schema.BelongsTo"
  | .many2Many => "schema.Many2Many"

/-- the relation field is a slice (has-many / many2many) -/
def RelKind.collection : RelKind → Bool
  | .hasMany | .many2Many => true
  | _ => false

/-- the two `case`s of `switch reflectValue.Kind()` -/
inductive DestKind
  | struct | slice
deriving Repr, DecidableEq, Inhabited

def DestKind.goName : DestKind → String
  | .struct => "reflect.Struct"
  | .slice => "reflect.Slice, reflect.Array"

/-- Go `switch rel.Type`: the arm that lists the kind, else the default arm -/
def armFor (arms : List Gen.PreloadResetArm) (dk : DestKind) (k : RelKind) : Option Gen.PreloadResetArm :=
  let mine := arms.filter (fun a => a.destKind == dk.goName)
  match mine.find? (fun a => a.relTypes.contains k.goName) with
  | some a => some a
  | none => mine.find? (fun a => a.relTypes.contains "default")

/-- the clean-up step empties the field of every record of the destination (an empty slice / the zero value — `nil` for a
    pointer field) -/
def resets (arms : List Gen.PreloadResetArm) (dk : DestKind) (k : RelKind) : Bool :=
  match armFor arms dk k with
  | some a => a.everyRecord && (a.sets == "emptySlice" || a.sets == "zero")
  | none => false

/-- the field after the clean-up step -/
def resetField (doesReset : Bool) (old : List Nat) : List Nat := if doesReset then [] else old

/-- one iteration of the assignment loop for a parent the row belongs to -/
def assignOne (k : RelKind) (field : List Nat) (row : Nat) : List Nat :=
  if k.collection then field ++ [row] else [row]

/-- the rows of the child query's result (foreign key, row key) that belong to the parent with key `pk`, in result order -/
def rowsOf (pk : Nat) (results : List (Nat × Nat)) : List Nat := (results.filter (fun r => r.1 == pk)).map (·.2)

/-- the relation field of the parent with key `pk` after preload(): clean-up, then the assignment loop over the result
    (the loop visits the result rows in order and looks the parents up by key — per parent that is the fold below) -/
def preloadOne (doesReset : Bool) (k : RelKind) (pk : Nat) (old : List Nat) (results : List (Nat × Nat)) : List Nat :=
  (rowsOf pk results).foldl (assignOne k) (resetField doesReset old)

/-- … with the clean-up step of the regenerated arms; it counts only if it sits before the assignment loop -/
def preloadField (arms : List Gen.PreloadResetArm) (before : Bool) (dk : DestKind) (k : RelKind) (pk : Nat) (old : List Nat)
    (results : List (Nat × Nat)) : List Nat :=
  preloadOne (before && resets arms dk k) k pk old results

/-- what the property asks the field to show: exactly the visible related rows (a single-valued field: one of them — the
    last the query returned) -/
def shows (k : RelKind) (visible : List Nat) : List Nat :=
  if k.collection then visible else visible.getLast?.toList

/-- scan.go scanIntoStruct, a relation loaded through Joins: a joined row that is filtered by the ON clause arrives as NULL
    columns — a pointer field is skipped (`isNilPtrValue`), the NULL key of a value field is ignored by field.Set: the field keeps
    what it held; otherwise it is overwritten by the joined row -/
def joinsAssign (old : List Nat) (joined : Option Nat) : List Nat :=
  match joined with
  | none => old
  | some r => [r]

end Gorm.PreloadAssign
