/-
  Model.SchemaParse — (C08) the part of schema/schema.go ParseWithSpecialTableName that decides whether the soft-delete
  clauses of a model are in force when a statement is built:

  1. the *publication protocol* of one cache slot.  The goroutine that parses a model type (the PARSER)
       :179-192  schema := &Schema{…, initialized: make(chan struct{})}
       :193      defer close(schema.initialized)
       :325      cacheStore.LoadOrStore(schemaCacheKey, schema)            -- the pointer becomes visible to everybody …
       :339-365  for _, field := range schema.Fields { … field.Schema.QueryClauses = append(…) … }   -- … BEFORE this loop
       return ⇒ the deferred close runs
     and any number of goroutines that find the pointer in the cache (READERS, the three cache-return sites)
       :158 / :196  if v, ok := cacheStore.Load(schemaCacheKey); ok { s := v.(*Schema); <-s.initialized; return s, s.err }
       :325         if v, loaded := cacheStore.LoadOrStore(…); loaded { s := v.(*Schema); <-s.initialized; return s, s.err }
     after which the caller (Statement.Parse → callbacks) reads s.QueryClauses / UpdateClauses / DeleteClauses.
     A reader that does not perform `<-s.initialized` can read the clause lists while they are still empty: its query has no
     `deleted_at IS NULL`, its Delete is a physical DELETE.

  2. which fields are *probed* for the clause interfaces (:349-364): `reflect.New(field.IndirectFieldType).Interface()` is
     asserted against Create/Query/Update/DeleteClausesInterface for EVERY field that enters the loop body.

  The shared state is three booleans, a goroutine is a program counter; the model is deliberately tiny — the detailed LTS of
  the cache (several model types, relations, error/Delete path) is Model.SchemaCache (C07).  Core Lean only.
-/
namespace Gorm.SchemaParse

/-! ## 1. one cache slot, one parser, any number of readers -/

/-- program counter of the parsing goroutine: the fixed order LoadOrStore (:325) → clause loop (:339-365) → deferred
    `close(schema.initialized)` (:193, runs at return) -/
inductive ParserPC
  | store | fill | close | done
deriving Repr, DecidableEq, Inhabited

/-- program counter of a goroutine that takes a cache-return branch:
    `load` (the `cacheStore.Load`/`LoadOrStore` that hits) → [`wait` = `<-s.initialized`] → `observe` (the caller reads the
    clause lists of the returned schema) -/
inductive ReaderPC
  | load | wait | observe | done
deriving Repr, DecidableEq, Inhabited

structure Reader where
  /-- does the cache-return site execute `<-s.initialized` before `return s, s.err`?  (regenerated: `Gen.CacheReturn.waits`) -/
  waits : Bool
  pc : ReaderPC := .load
  /-- what the reader found in `s.QueryClauses/UpdateClauses/DeleteClauses`: `some true` = the collected clauses -/
  saw : Option Bool := none
deriving Repr, DecidableEq, Inhabited

structure State where
  /-- the schema pointer is in `cacheStore` (LoadOrStore of the parser happened) -/
  stored : Bool := false
  /-- the clause loop :339-365 has run: Create/Query/Update/DeleteClauses of the schema are complete -/
  clausesFilled : Bool := false
  /-- `close(schema.initialized)` has run -/
  closed : Bool := false
  parser : ParserPC := .store
  readers : List Reader := []
deriving Repr, DecidableEq, Inhabited

/-- a scheduler choice: let the parser or reader number `i` perform its next statement -/
inductive Action
  | parser
  | reader (i : Nat)
deriving Repr, DecidableEq, Inhabited

/-- next statement of the parser (never blocks) -/
def stepParser (s : State) : Option State :=
  match s.parser with
  | .store => some { s with stored := true, parser := .fill }
  | .fill  => some { s with clausesFilled := true, parser := .close }
  | .close => some { s with closed := true, parser := .done }
  | .done  => none

/-- next statement of a reader, `none` = blocked / finished.
    `load` needs the pointer in the cache (a goroutine that misses becomes a parser itself — not a reader);
    `wait` is the channel receive: enabled only once the channel is closed; it is skipped when `waits = false`. -/
def stepReader (s : State) (r : Reader) : Option Reader :=
  match r.pc with
  | .load    => if s.stored then some { r with pc := if r.waits then .wait else .observe } else none
  | .wait    => if s.closed then some { r with pc := .observe } else none
  | .observe => some { r with pc := .done, saw := some s.clausesFilled }
  | .done    => none

def step (s : State) : Action → Option State
  | .parser => stepParser s
  | .reader i =>
    match s.readers[i]? with
    | none => none
    | some r =>
      match stepReader s r with
      | none => none
      | some r' => some { s with readers := s.readers.set i r' }

/-- run a schedule; a choice that is not enabled (blocked receive, finished goroutine, no such reader) is a no-op -/
def run (s : State) : List Action → State
  | [] => s
  | a :: as => run ((step s a).getD s) as

/-- initial state: nothing published, one reader per flag -/
def init (waitFlags : List Bool) : State := { readers := waitFlags.map fun w => { waits := w } }

/-- the observations made so far: `(waits, saw)` for every reader that reached `observe` -/
def observations (s : State) : List (Bool × Bool) :=
  s.readers.filterMap fun r => r.saw.map fun b => (r.waits, b)

/-! ## 2. which fields reach the clause-interface probes -/

/-- what the declared Go type of a model field can look like (`gorm.DeletedAt` is a struct; `*gorm.DeletedAt` a pointer to it;
    `soft_delete.DeletedAt` of gorm.io/plugin/soft_delete is `type DeletedAt uint`; user flag types are named ints/bools/strings…) -/
inductive FieldKind
  | structK | ptrToStruct | namedInt | namedUint | namedString | namedBool | namedFloat | namedBytes
deriving Repr, DecidableEq, Inhabited

def FieldKind.all : List FieldKind :=
  [.structK, .ptrToStruct, .namedInt, .namedUint, .namedString, .namedBool, .namedFloat, .namedBytes]

/-- a field of kind `k` reaches the type assertions `fieldInterface.(XxxClausesInterface)` iff every condition standing in
    front of them lets it pass -/
def probeReached (guards : List (FieldKind → Bool)) (k : FieldKind) : Bool := guards.all (· k)

/-- the field's clauses end up in `field.Schema.XxxClauses` iff the probe is reached and the probed value
    (`reflect.New(field.IndirectFieldType).Interface()`) implements the interface -/
def collectsClauses (guards : List (FieldKind → Bool)) (implements : Bool) (k : FieldKind) : Bool :=
  probeReached guards k && implements

/-- a regenerated guard text of class "err:" (`Gen.ClauseProbe.guards`): the `return schema, schema.err` after a failed
    parseRelation — the whole Parse fails, no statement is built; it is not a condition on the field.
    (`String.startsWith` does not reduce in the kernel, hence the spelling through `toList`.) -/
def isErrGuard (g : String) : Bool := "err:".toList.isPrefixOf g.toList

/-- the guard a kind test such as `if field.FieldType.Kind() != reflect.Struct { continue }` puts in front of the probes -/
def structOnly : FieldKind → Bool := fun k => k == .structK

/-- reading of a regenerated guard list: an "err:" guard does not filter fields; ANY other guard is read pessimistically as a
    kind test that lets only plain struct fields through -/
def kindGuards (guards : List String) : List (FieldKind → Bool) :=
  guards.filterMap fun g => if isErrGuard g then none else some structOnly

end Gorm.SchemaParse
