/-
  C20 round 5 — WHO decides that a column is missing.

  migrator.go `AutoMigrate` (column loop): the decision "add this column" is a function of the EXACT column list that
  `ColumnTypes` reported (`columnType.Name() == dbName`, `foundColumn == nil`) and of nothing else; `AddColumn` then issues
  the ALTER unconditionally (its only guard is `IgnoreMigration`).  No other "has" predicate sits between the decision and
  the statement.  This matters because a dialect's `HasColumn` need not be exact: gorm.io/driver/sqlite answers it with a
  TEXT MATCH on the CREATE TABLE statement (`sql LIKE '%name %' OR sql LIKE '%`name`%' …`), which is true for a NEW column
  whose name merely occurs elsewhere in the DDL (a longer column name inside a check expression, the referenced column of a
  foreign key, a keyword, a type word).

  `columnDDLGuarded has` is the column loop with such a second opinion consulted before the ALTER — the shape of a
  "defensive" AddColumn — so that the theorems can say exactly when it is harmless (the predicate is sound for the exact
  list) and exhibit the counterexample for the text match.
-/
import GormModel.Model.Migrate
import GormModel.Model.MigrateCols
namespace Gorm.Mig

/-- the exact column list: `columnType.Name()` of every element `ColumnTypes` returned -/
def listed (cols : List (Str × ColumnInfo)) : List Str := cols.map (·.1)

/-- the decision of AutoMigrate's column loop (lines 143-158): the scan `columnType.Name() == dbName` finds nothing -/
def columnMissing (cols : List (Str × ColumnInfo)) (name : Str) : Bool := (lookup name cols).isNone

/-- the column loop with a second predicate `has` consulted between the decision and the ALTER (a guarded AddColumn:
    `if HasColumn(value, f.DBName) { return nil }`).  NOT the code that exists: the unchanged AddColumn has no such guard
    (regenerated fact `Gen.migCatalogReads`); used to state when such a guard would be harmless. -/
def columnDDLGuarded (has : Str → Bool) (t : Str) (cols : List (Str × ColumnInfo)) : List FieldDecl → List DDL
  | [] => []
  | f :: fs =>
    (match lookup f.dbName cols with
     | none => if f.ignoreMigration || has f.dbName then [] else [.addColumn t f]
     | some ci => (migrateColumn f ci).map (colDDL t f)) ++ columnDDLGuarded has t cols fs

/-! ### the SQLite dialector's HasColumn: a LIKE match on the table's CREATE statement (driver code, outside /repo;
    tied by the correspondence suite `mig.textmatch` against the real driver) -/

/-- `s` starts with a text the LIKE pattern `p` matches: `_` in the pattern stands for any one character (an underscore
    inside a column name IS that wildcard for the driver's query); the generated names contain no `%` -/
def likePrefix : Str → Str → Bool
  | _, [] => true
  | [], _ :: _ => false
  | c :: cs, p :: ps => (p = '_' || p = c) && likePrefix cs ps

/-- SQL `s LIKE '%p%'` for a pattern whose only wildcard is `_` -/
def isInfix (p : Str) : Str → Bool
  | [] => p.isEmpty
  | c :: cs => likePrefix (c :: cs) p || isInfix p cs

/-- gorm.io/driver/sqlite `Migrator.HasColumn` (migrator.go lines 58-76) over the text `sql` of the table's sqlite_master
    row: `sql LIKE '%"name" %' OR '%name %' OR '%`name`%' OR '%[name]%' OR '%\tname\t%'`; LIKE folds ASCII case -/
def textHasColumn (sql name : Str) : Bool :=
  let d := lower sql
  let n := lower name
  name != [] &&
  (isInfix ('"' :: n ++ ['"', ' ']) d || isInfix (n ++ [' ']) d || isInfix ('`' :: n ++ ['`']) d
    || isInfix ('[' :: n ++ [']']) d || isInfix ('\t' :: n ++ ['\t']) d)

/-- a predicate is SOUND for the exact list when it never claims a column the list does not have -/
def SoundFor (has : Str → Bool) (cols : List (Str × ColumnInfo)) : Prop := ∀ n, has n = true → n ∈ listed cols

/-- the columns of table `t` in a catalog ([] when the table is absent) -/
def tableCols (c : Catalog) (t : Str) : List Str :=
  match lookup t c with
  | some ts => listed ts.cols
  | none => []

end Gorm.Mig
