/-
C11 — WHERE a relation's key field is found when relation and key are declared inside (nested) embedded structs.

Transcribes
  schema/schema.go        Parse (the three lookup maps FieldsByBindName / FieldsByDBName / FieldsByName as filled by the field loop),
                          LookUpField, LookUpFieldByBindName
  schema/relationship.go  guessRelation (primaryFieldLoop: candidate names, first LookUpFieldByBindName over all candidates,
                          then LookUpField over all candidates)
  callbacks/preload.go    parsePreloadMap + preloadEntryPoint: the conditions that reach `preload` for a relation loaded through
                          `Preload(clause.Associations, args…)`

A schema is abstracted to the list of its column-backed fields in the order of Schema.Fields (declaration order, embedded
structs flattened in place, depth first), each with its bind path (Field.BindNames: the Go field names from the model down to
the field) and its column (Field.DBName).  Assumption (kept by every generator): distinct fields have distinct columns and all
carry a read/write permission — with that, the field loop of Parse makes
  FieldsByBindName[path] = the field declared at that path,
  FieldsByDBName[col]    = the field with that column,
  FieldsByName[name]     = the LAST declared field of that Go name (the loop overwrites the entry for every field that brings a
                           new column).
-/
import GormModel.Gen.BindLookupFacts
import GormModel.Gen.AssocCondsFacts
namespace Gorm

structure BField where
  bind : List String
  db : String
deriving DecidableEq, Repr

/-- Field.Name -/
def BField.name (f : BField) : String := f.bind.getLast?.getD ""

/-- Schema.FieldsByBindName[strings.Join(path, ".")] -/
def byBind (fs : List BField) (path : List String) : Option BField := fs.find? (fun f => f.bind == path)

/-- Schema.FieldsByDBName[col] -/
def byDB (fs : List BField) (col : String) : Option BField := fs.find? (fun f => f.db == col)

/-- Schema.FieldsByName[name]: the last declared field of that Go name -/
def byName (fs : List BField) (name : String) : Option BField := (fs.filter (fun f => f.name == name)).getLast?

/-- schema.go LookUpField: column name first, then Go name -/
def lookUpField (fs : List BField) (name : String) : Option BField :=
  match byDB fs name with
  | some f => some f
  | none => byName fs name

/-- the key LookUpFieldByBindName tries at step i: `strings.Join(bindNames[:i], ".") + "." + name`.  For i = 0 that is
    "." ++ name, which is the bind name of no field (Go identifiers contain no dot): the TOP level of the model is never found
    by this function, guessRelation's second lookup (LookUpField) serves it. -/
def bindStep (fs : List BField) (bn : List String) (name : String) (i : Nat) : Option BField :=
  if i = 0 then none else byBind fs (bn.take i ++ [name])

/-- the values of the loop variable in loop order: `i := len - 1; i >= 0; i--` (descending) or `i := range` (ascending) -/
def bindOrder (descending : Bool) (n : Nat) : List Nat :=
  if descending then (List.range n).reverse else List.range n

/-- schema.go LookUpFieldByBindName, for a loop direction -/
def lookUpFieldByBindNameWith (descending : Bool) (fs : List BField) (bn : List String) (name : String) : Option BField :=
  (bindOrder descending bn.length).findSome? (bindStep fs bn name)

/-- … for the loop of the current tree (regenerated fact) -/
def lookUpFieldByBindName (fs : List BField) (bn : List String) (name : String) : Option BField :=
  lookUpFieldByBindNameWith Gen.bindLookupDescending fs bn name

/-- guessRelation's candidate names for one referenced field: `<base><PK>`; with a single referenced field also `<base>ID`,
    `<base>Id` and the snake-case column of `<base>ID` (namer.ColumnName, handed in).  base = the relation field's name
    (belongs-to) or the owner schema's name (has-one / has-many). -/
def candidateNames (base pk snake : String) (single : Bool) : List String :=
  if single then [base ++ pk, base ++ "ID", base ++ "Id", snake] else [base ++ pk]

/-- guessRelation primaryFieldLoop for one referenced field: which field of the foreign schema becomes the foreign key -/
def guessForeignWith (descending bindFirst : Bool) (fs : List BField) (bn : List String) (names : List String) : Option BField :=
  let viaBind := names.findSome? (lookUpFieldByBindNameWith descending fs bn)
  let viaAll := names.findSome? (lookUpField fs)
  if bindFirst then (match viaBind with | some f => some f | none => viaAll)
  else (match viaAll with | some f => some f | none => viaBind)

def guessForeign (fs : List BField) (bn : List String) (names : List String) : Option BField :=
  guessForeignWith Gen.bindLookupDescending Gen.guessBindFirst fs bn names

/-- callbacks/preload.go, `Preload(clause.Associations, args…)`: the conditions `preload` receives for a relation declared
    `embDepth` `embedded`-tagged structs deep.  parsePreloadMap's loop over Relationships.Relations stores NO args (value = "");
    every leaf calls `preload(tx, rel, append(preloads[name], associationsConds...), …)` with associationsConds = args.
    `once = false` (the tree before the repair of F35): parsePreloadMap's loop over Relationships.EmbeddedRelations ALSO stores
    `args` under the embedded path, which preloadEntryPoint carries down to the leaf as `preloads[name]`.
    `once = true`: that loop stores nothing, as the loop over the top-level relations. -/
def assocCondsReaching (once : Bool) (embDepth : Nat) (args : List α) : List α :=
  (if embDepth = 0 ∨ once = true then [] else args) ++ args

/-- the tree under test: `once` is the regenerated fact `Gen.assocCondsOnce` (extract/gen_c11_assoc.go) -/
def assocCondsCurrent (embDepth : Nat) (args : List α) : List α := assocCondsReaching Gen.assocCondsOnce embDepth args

/-- `tx.Find(dest, inlineConds...)`: the first inline condition is the SQL text, ALL the others are its bind arguments;
    the statement is well-formed iff the number of placeholders equals the number of arguments -/
def inlineWellFormed (placeholders : Nat) (inlineConds : List α) : Bool :=
  match inlineConds with
  | [] => true
  | _ :: rest => rest.length == placeholders

end Gorm
