/-
  Model.SoftDeleteMode — (C08) the MODE in which the three soft-delete clauses of gorm.DeletedAt (soft_delete.go) filter the
  live rows, and what a soft / physical delete does to a table under that mode.

  A soft-delete column is "live" while it holds the model's ZeroValue (`sql.NullString`): NULL by default, the timestamp of a
  valid `zeroValue:` tag otherwise (`parseZeroValueTag`).  The ZeroValue is computed three times — once per clause constructor
    DeletedAt.QueryClauses / UpdateClauses / DeleteClauses   →  SoftDelete{Query,Update,Delete}Clause{Field: f, ZeroValue: parseZeroValueTag(f)}
  — and the update and delete clauses do not filter themselves: they DELEGATE to the query clause,
    SoftDeleteUpdateClause.ModifyStatement / SoftDeleteDeleteClause.ModifyStatement:   SoftDeleteQueryClause(sd).ModifyStatement(stmt)
  which adds `clause.Eq{Column: deleted_at, Value: sd.ZeroValue}` (rendered `IS NULL` for an invalid NullString, `= ?` else).
  The conversion carries `sd.ZeroValue` along; a literal `SoftDeleteQueryClause{Field: sd.Field}` would not (Go zero value:
  invalid NullString = NULL mode), and a Delete on a `zeroValue:` model would then filter `deleted_at IS NULL`: it marks nothing.

  `filterMode` computes, from the REGENERATED shapes of the constructors and delegations (Gen.SoftDeleteModeFacts, extract/
  gen_c08_modes.go), the mode each of the three paths filters with; `softDelete` / `hardDelete` / `scopedUpdate` / `visible`
  are the row-level meaning of the statements; `rewriteRuns` evaluates the regenerated guard list of the DELETE→UPDATE rewrite.
  Core Lean only.
-/
import GormModel.Gen.SoftDeleteModeFacts
namespace Gorm.SoftMode

/-! ## modes and cells -/

/-- the `ZeroValue sql.NullString` of a soft-delete clause: `null` = `{Valid: false}`, `zero z` = `{String: z, Valid: true}` -/
inductive Mode
  | null
  | zero (z : String)
deriving Repr, DecidableEq, Inhabited

/-- content of the soft-delete column of a row -/
inductive Cell
  | null
  | at (s : String)
deriving Repr, DecidableEq, Inhabited

/-- truth of the SQL filter `deleted_at = ZeroValue` as gorm renders it (clause.Eq.Build: `IS NULL` when the value is nil —
    an invalid NullString's driver value — else `= ?`): soft_delete.go SoftDeleteQueryClause.ModifyStatement -/
def Mode.live : Mode → Cell → Bool
  | .null, .null => true
  | .zero z, .at s => s == z
  | _, _ => false

/-- the text clause.Eq appends after the column -/
def Mode.filterText : Mode → String
  | .null => " IS NULL"
  | .zero _ => " = ?"

def Mode.valid : Mode → Bool
  | .null => false
  | .zero _ => true

def Mode.str : Mode → String
  | .null => ""
  | .zero z => z

/-! ## where each path gets its mode from -/

/-- soft_delete.go parseZeroValueTag: `if v, ok := f.TagSettings["ZEROVALUE"]; ok { if _, err := now.Parse(v); err == nil {
    return sql.NullString{String: v, Valid: true} } }; return sql.NullString{Valid: false}` -/
def tagMode (present parseOk : Bool) (v : String) : Mode :=
  if present && parseOk then .zero v else .null

/-- the constructor passes the tag's value on iff its literal says `ZeroValue: parseZeroValueTag(<param>)` -/
def ctorKeeps (c : Gen.SoftClauseCtor) : Bool := c.zeroFrom == "parseZeroValueTag(" ++ c.param ++ ")"

/-- DeletedAt.QueryClauses / UpdateClauses / DeleteClauses: the ZeroValue of the clause value they build; a literal that does
    not set `ZeroValue` from the tag leaves Go's zero value (invalid NullString) -/
def ctorMode (c : Gen.SoftClauseCtor) (tag : Mode) : Mode := if ctorKeeps c then tag else .null

/-- the delegation hands its own ZeroValue to the query clause iff it is the conversion `SoftDeleteQueryClause(sd)` or a literal
    whose `ZeroValue:` is `sd.ZeroValue` -/
def delegKeeps (d : Gen.SoftDelegation) : Bool :=
  d.how == "conversion" || (d.how == "literal" && d.zero == d.recv ++ ".ZeroValue")

/-- SoftDeleteUpdateClause / SoftDeleteDeleteClause .ModifyStatement: the ZeroValue of the SoftDeleteQueryClause they run,
    given their own -/
def delegMode (d : Gen.SoftDelegation) (own : Mode) : Mode := if delegKeeps d then own else .null

/-- the three statement kinds that filter live rows -/
inductive Path
  | query | update | delete
deriving Repr, DecidableEq, Inhabited

def findCtor (ctors : List Gen.SoftClauseCtor) (m : String) : Option Gen.SoftClauseCtor := ctors.find? (·.method == m)
def findDeleg (delegs : List Gen.SoftDelegation) (t : String) : Option Gen.SoftDelegation := delegs.find? (·.inType == t)

/-- the mode of the live-row filter of a path, for a model whose tag yields `tag` (a missing constructor / delegation: NULL mode) -/
def filterMode (ctors : List Gen.SoftClauseCtor) (delegs : List Gen.SoftDelegation) (tag : Mode) : Path → Mode
  | .query =>
    match findCtor ctors "QueryClauses" with
    | some c => ctorMode c tag
    | none => .null
  | .update =>
    match findCtor ctors "UpdateClauses", findDeleg delegs "SoftDeleteUpdateClause" with
    | some c, some d => delegMode d (ctorMode c tag)
    | _, _ => .null
  | .delete =>
    match findCtor ctors "DeleteClauses", findDeleg delegs "SoftDeleteDeleteClause" with
    | some c, some d => delegMode d (ctorMode c tag)
    | _, _ => .null

/-- … on the tree the facts were regenerated from -/
def filterModeNow : Mode → Path → Mode := filterMode Gen.softClauseCtors Gen.softDelegations

/-! ## rows -/

structure Row where
  id : Nat
  cell : Cell
  v : Int
deriving Repr, DecidableEq, Inhabited

/-- what a scoped read (Find/Count/Pluck/…: callbacks/query.go BuildQuerySQL runs the QueryClauses) sees -/
def visible (fm : Mode) (rows : List Row) : List Row := rows.filter (fun r => fm.live r.cell)

/-- scoped Delete: `UPDATE t SET deleted_at = now WHERE <sel> AND deleted_at <filter of fm>` -/
def softDelete (fm : Mode) (now : String) (sel : Row → Bool) (rows : List Row) : List Row :=
  rows.map (fun r => if sel r && fm.live r.cell then { r with cell := .at now } else r)

/-- Unscoped Delete: `DELETE FROM t WHERE <sel>` -/
def hardDelete (sel : Row → Bool) (rows : List Row) : List Row := rows.filter (fun r => !sel r)

/-- scoped Update: `UPDATE t SET … WHERE <sel> AND deleted_at <filter of fm>` -/
def scopedUpdate (fm : Mode) (sel : Row → Bool) (f : Row → Row) (rows : List Row) : List Row :=
  rows.map (fun r => if sel r && fm.live r.cell then f r else r)

/-! ## the guard of the DELETE→UPDATE rewrite -/

/-- the one guard SoftDeleteDeleteClause.ModifyStatement is known to have -/
def knownRewriteGuard : String := "stmt.SQL.Len() == 0 && !stmt.Statement.Unscoped"

/-- value of one regenerated guard text: the known guard means what it says; ANY other text (an extra `if`, a "skip:…" for an
    early return such as a test of the `soft_delete_enabled` marker) is read pessimistically as "fails when the marker is set" -/
def guardVal (sqlEmpty unscoped marker : Bool) (g : String) : Bool :=
  if g = knownRewriteGuard then sqlEmpty && !unscoped else !marker

/-- does the rewrite run?  `sqlEmpty`: `stmt.SQL.Len() == 0`; `unscoped`: `stmt.Statement.Unscoped`; `marker`: the statement
    already carries `stmt.Clauses["soft_delete_enabled"]` (a reused statement) -/
def rewriteRuns (guards : List String) (sqlEmpty unscoped marker : Bool) : Bool :=
  guards.all (guardVal sqlEmpty unscoped marker)

/-! ## the guard of the query clause -/

/-- the one guard SoftDeleteQueryClause.ModifyStatement is known to have (`ok` = the statement already carries the
    `soft_delete_enabled` marker, i.e. the filter has been added before) -/
def knownQueryGuard : String := "!ok && !stmt.Statement.Unscoped"

/-- does a call of SoftDeleteQueryClause.ModifyStatement add the live-row filter?  `none` = a guard list this model cannot read -/
def queryFilterAdded (guards : List String) (marker unscoped : Bool) : Option Bool :=
  if guards = [knownQueryGuard] then some (!marker && !unscoped) else none

/-- what a read built on a FRESH statement (no marker yet) returns: the live rows when the filter is added, the whole table
    otherwise -/
def readRows (fm : Mode) (guards : List String) (unscoped : Bool) (rows : List Row) : Option (List Row) :=
  (queryFilterAdded guards false unscoped).map fun added => if added then visible fm rows else rows

end Gorm.SoftMode
