/-
  C05 — the STAGES of one statement of a write pipeline, at the level of error values.

  A statement sent through `ConnPool.QueryContext` (every statement with a RETURNING clause) can fail
    * when the call returns                                   (`callErr`),
    * while its rows are fetched – database/sql reports that only through `rows.Err()` (`rowsErr`;
      with `INSERT … RETURNING` SQLite executes the statement while the first row is fetched, so a
      CHECK / NOT NULL / trigger failure arrives here),
    * when the rows are closed                                (`closeErr`);
  a statement sent through `ExecContext` when the call returns, and afterwards `Result.RowsAffected()` /
  `Result.LastInsertId()` may fail.

  Transcribed:
    * scan.go `Scan`, the statements after the row loop (regenerated text: `Gen.scanSrcTail`, pinned by
      `C05_scan_tail_src`):  `if err := rows.Err(); err != nil && err != db.Error { db.AddError(err) }`
      – `scanTail`; the scan MODE is an argument of the function precisely so that theorems can say that
      no mode changes what happens to the error;
    * callbacks/create.go `Create` (query branch and exec branch), callbacks/update.go `Update`,
      callbacks/delete.go `Delete`: `queryStmt`, `execStmt`.
  Tied to the real code: `scanTail` differentially by the harness suite `scan-tail` (real gorm.Scan on scripted
  rows, all modes × destination kinds × pre-existing errors); `queryStmt` / `execStmt` by the regenerated table
  `Gen.stageSinks` (sink and dominating conditions of every rows.Err / rows.Close / RowsAffected / LastInsertId
  call: theorems C05_stage_errors_reach_addError, C05_stage_sites_present, C05_result_stages_after_call_check)
  together with C05_statement_error_sinks for the calls themselves; end to end by the stage faults of the
  `fault` suite (real operations on SQLite behind the stage-aware driver).
-/
import GormModel.Model.TxFault
namespace Gorm.Stg
open Gorm

/-- scan.go: `ScanInitialized = 1 << 0`, `ScanUpdate = 1 << 1`, `ScanOnConflictDoNothing = 1 << 2` -/
abbrev ScanMode := Nat

/-- what the layers below gorm deliver for one statement sent through `QueryContext` -/
structure QueryRes where
  callErr : Option String     -- QueryContext returned an error (no rows object)
  loopErr : Option String     -- an error `Scan` itself adds while reading rows (`rows.Scan` failing)
  rowsErr : Option String     -- `rows.Err()` after the row loop
  sameAsCur : Bool            -- `rows.Err()` is the very value already stored in `db.Error`
  closeErr : Option String    -- `rows.Close()`
deriving Repr, DecidableEq

/-- scan.go `Scan`, after the row loop:
    `if err := rows.Err(); err != nil && err != db.Error { db.AddError(err) }`.
    `same` = the value is identical to `db.Error` (it was reported already). -/
def scanTail (_mode : ScanMode) (cur : Option String) (rowsErr : Option String) (same : Bool) : Option String :=
  match rowsErr with
  | none => cur
  | some e => if same && cur.isSome then cur else addError cur (some e)

/-- callbacks/create.go `Create`, RETURNING branch (update.go / delete.go have the same shape without `defer`):
      rows, err := db.Statement.ConnPool.QueryContext(…)
      if db.AddError(err) == nil { defer func() { db.AddError(rows.Close()) }(); gorm.Scan(rows, db, mode) } -/
def queryStmt (mode : ScanMode) (cur : Option String) (q : QueryRes) : Option String :=
  match addError cur q.callErr with
  | some e => some e
  | none => addError (scanTail mode (addError none q.loopErr) q.rowsErr q.sameAsCur) q.closeErr

/-- what the layers below deliver for one statement sent through `ExecContext` -/
structure ExecRes where
  callErr : Option String
  affected : Nat              -- what RowsAffected() answers when it does not fail
  rowsAffErr : Option String  -- RowsAffected() failed
  lastIdOk : Bool             -- LastInsertId() answered a positive id
  lastIdErr : Option String   -- LastInsertId() failed
deriving Repr, DecidableEq

/-- callbacks/create.go `Create`, exec branch:
      result, err := ExecContext(…); if err != nil { db.AddError(err); return }
      db.RowsAffected, _ = result.RowsAffected(); if db.RowsAffected == 0 { return }
      insertID, err := result.LastInsertId(); insertOk := err == nil && insertID > 0
      if !insertOk { if !supportReturning { db.AddError(err) }; return }
    (`callbacks/update.go`, `delete.go`, `raw.go`: the first two lines only: `isCreate = false`) -/
def execStmt (isCreate supportReturning : Bool) (cur : Option String) (x : ExecRes) : Option String :=
  match x.callErr with
  | some e => addError cur (some e)
  | none =>
    if !isCreate then cur
    else
      let affected := if x.rowsAffErr.isSome then 0 else x.affected     -- the error is discarded, the count is 0
      if affected == 0 then cur
      else
        let insertOk := x.lastIdErr.isNone && x.lastIdOk
        if !insertOk then (if !supportReturning then addError cur x.lastIdErr else cur) else cur

/-- the statement failed in the sense of the property: the database (or the driver) refused or lost it -/
def QueryRes.failed (q : QueryRes) : Bool := q.callErr.isSome || q.rowsErr.isSome

/-- one statement of a pipeline as the error it contributes (`TxF.stmt` runs it only while `db.Error == nil`) -/
def stmtErr (mode : ScanMode) (q : QueryRes) : Option String := queryStmt mode none q

/-! ## WHERE a write runs: the enclosing context (round 4)

  Transcribed:
    * finisher_api.go `DB.CreateInBatches` (regenerated text `Gen.createInBatchesSrc`, wrapping decision
      `Gen.cibWrapDecision`):
        `if tx.SkipDefaultTransaction || reflectLen <= batchSize { callFc(tx.Session(&Session{})) }
         else { tx.Transaction(callFc) }`                                     – `createInBatches`
      and `callFc`: one create pipeline per batch, `return subtx.Error` at the first failing batch – `runBatches`;
    * finisher_api.go `DB.Create`: `if db.CreateBatchSize > 0 { return db.CreateInBatches(value, db.CreateBatchSize) }`
      (`Gen.createDelegation`)                                                 – `createFin`;
    * finisher_api.go `DB.Transaction` (`Gen.transactionSrc`, `Gen.txBlockCalls`): on a handle whose pool is a
      TxCommitter a SAVEPOINT / ROLLBACK TO SAVEPOINT pair unless `DisableNestedTransaction`, otherwise
      BEGIN … COMMIT | ROLLBACK                                                – `blockWrap`, `under`;
    * callbacks/transaction.go `BeginTransaction` / `CommitOrRollbackTransaction` as seen by the data: an implicit
      transaction unless `SkipDefaultTransaction` or the pool cannot begin (`ErrInvalidTransaction` is ignored: the
      write then runs unprotected inside the caller's transaction)             – `implicitWrap`, `pipeline`.
  The data is abstracted to the list of rows the connection of the write sees (`View.rows`): a statement that succeeds
  appends its row, a statement the database refuses appends nothing (statement atomicity), `applied` = the statement
  took effect and was then reported as failed (connection lost while the answer travelled back).
  Tied to the real code by the regenerated facts above and differentially by the harness suite `encl-batches`
  (real CreateInBatches / Create-with-batch-size on SQLite in every context, trace and visible rows vs this model). -/

/-- the handle a write is issued on -/
structure Ctx where
  inTx : Bool            -- `Statement.ConnPool` is a TxCommitter: Transaction block, after Begin, nested block, hook tx
  skipDefault : Bool     -- SkipDefaultTransaction
  disableNested : Bool   -- DisableNestedTransaction
deriving Repr, DecidableEq

/-- what the connection of the write sees, the accumulated error and the transaction-control trace -/
structure View where
  rows : List Nat
  err : Option String
  log : List String      -- "B" "C" "R" "SP" "RT" "S" "S!"
deriving Repr, DecidableEq

/-- one writing statement -/
structure W where
  row : Nat
  fail : Option String
  applied : Bool         -- only meaningful when `fail` is some: the statement took effect nevertheless
deriving Repr, DecidableEq

inductive Wrap where
  | none | ownTx | savepoint
deriving Repr, DecidableEq

/-- callbacks/transaction.go: the protection ONE pipeline run gives itself -/
def implicitWrap (c : Ctx) : Wrap :=
  if c.skipDefault then .none else if c.inTx then .none else .ownTx

/-- finisher_api.go `Transaction`: the protection a block gets -/
def blockWrap (c : Ctx) : Wrap :=
  if c.inTx then (if c.disableNested then .none else .savepoint) else .ownTx

/-- the guarded statements of a pipeline: each runs only while `db.Error == nil` -/
def runStmts : View → List W → View
  | v, [] => v
  | v, w :: ws =>
    match v.err with
    | some _ => v
    | none =>
      match w.fail with
      | none => runStmts { v with rows := v.rows ++ [w.row], log := v.log ++ ["S"] } ws
      | some e => runStmts { v with rows := if w.applied then v.rows ++ [w.row] else v.rows, err := some e,
                                    log := v.log ++ ["S!"] } ws

/-- a body under a wrapper: the wrapper restores the rows it saw at its start when the body ends with an error -/
def under (wr : Wrap) (v : View) (body : View → View) : View :=
  match wr with
  | .none => body v
  | .ownTx =>
    let r := body { v with log := v.log ++ ["B"] }
    match r.err with
    | some _ => { r with rows := v.rows, log := r.log ++ ["R"] }
    | none => { r with log := r.log ++ ["C"] }
  | .savepoint =>
    let r := body { v with log := v.log ++ ["SP"] }
    match r.err with
    | some _ => { r with rows := v.rows, log := r.log ++ ["RT"] }
    | none => r

/-- one run of a write pipeline (Create / Update / Delete with everything it triggers) in context `c` -/
def pipeline (c : Ctx) (v : View) (ws : List W) : View :=
  under (implicitWrap c) v (fun v' => runStmts v' ws)

/-- `callFc`: the batches in order, stopping at the first one that ends with an error -/
def runBatches (c : Ctx) : View → List (List W) → View
  | v, [] => v
  | v, b :: bs =>
    let r := pipeline c v b
    match r.err with
    | some _ => r
    | none => runBatches c r bs

/-- finisher_api.go `CreateInBatches` -/
def createInBatches (c : Ctx) (len batch : Nat) (v : View) (bs : List (List W)) : View :=
  if c.skipDefault || len ≤ batch then runBatches c v bs
  else under (blockWrap c) v (fun v' => runBatches { c with inTx := true } v' bs)

/-- finisher_api.go `Create` (`createBatchSize` = 0: not set) -/
def createFin (c : Ctx) (createBatchSize len : Nat) (v : View) (bs : List (List W)) : View :=
  if createBatchSize > 0 then createInBatches c len createBatchSize v bs
  else pipeline c v bs.flatten

/-- the write is protected as a whole: default transaction on, and either not inside a caller's transaction or
    (several batches and SAVEPOINTs allowed) -/
def Ctx.protects (c : Ctx) (len batch : Nat) : Bool :=
  !c.skipDefault && (!c.inTx || (decide (batch < len) && !c.disableNested))

end Gorm.Stg
