import GormModel.Gen.SharedConfig
/-
  C07 (round 2): two tiny transition systems about handle-wide shared state.

  1. `SharedCell` — the "save / replace / restore" protocol on ONE cell that every goroutine using the handle can reach
     (finisher_api.go `DB.Scan`: `currentLogger := Logger; Logger = recorder; … ; Logger = currentLogger`).
     `inPlace = true`  : the protocol runs on the cell of the shared *Config;
     `inPlace = false` : it runs on a private copy (`config := *db.Config; tx.Config = &config`) — the code of the tree.
     Which of the two the tree under check does is a regenerated fact (Gen.cfgWriteSites, `priv` of DB.Scan's Logger writes).

  2. `LockMap` — goroutines whose critical section takes lock `(acc t).lock` and then reads/writes map `(acc t).map`
     (prepare_stmt.go `PreparedStmtDB.prepare`: `db.Mux.Lock(); db.Stmts[…]`).  Whether two values that share a map also
     share the lock is decided where such values are CONSTRUCTED (Gen.lockMapSites).
-/
namespace Gorm

/-- whether the tree's DB.Scan swaps the logger on the shared Config (regenerated: a non-private Logger write in DB.Scan) -/
def scanSwapsInPlace : Bool :=
  Gen.cfgWriteSites.any fun s => s.fn == "DB.Scan" && s.field == "Logger" && !s.priv

end Gorm

namespace Gorm.SharedCell

/-- one goroutine running the protocol: pc 0 = before the swap, 1 = between swap and restore, 2 = done -/
structure Th where
  pc : Nat
  saved : Nat
deriving DecidableEq, Repr

/-- `cell = 0`: the handle's own logger; `cell = t + 1`: the throw-away recorder of goroutine t -/
structure St where
  cell : Nat
  ths : Nat → Th

def upd (f : Nat → Th) (t : Nat) (v : Th) : Nat → Th := fun i => if i = t then v else f i

def init : St := ⟨0, fun _ => ⟨0, 0⟩⟩

/-- one step of goroutine t (finisher_api.go Scan: first step = lines "currentLogger, newLogger := …; Logger = newLogger",
  second step = "Logger = currentLogger") -/
def step (inPlace : Bool) (s : St) (t : Nat) : St :=
  if (s.ths t).pc = 0 then
    { cell := if inPlace then t + 1 else s.cell, ths := upd s.ths t ⟨1, s.cell⟩ }
  else if (s.ths t).pc = 1 then
    { cell := if inPlace then (s.ths t).saved else s.cell, ths := upd s.ths t ⟨2, (s.ths t).saved⟩ }
  else s

def run (inPlace : Bool) (s : St) (sched : List Nat) : St := sched.foldl (step inPlace) s

/-- a schedule in which every goroutine's two steps are adjacent (nobody overlaps) -/
def serialSched (ts : List Nat) : List Nat := ts.flatMap fun t => [t, t]

end Gorm.SharedCell

namespace Gorm.LockMap

/-- what goroutine t's critical section does: takes `lock`, then accesses `map` -/
structure Acc where
  lock : Nat
  map : Nat
deriving DecidableEq, Repr

structure St where
  held : Nat → Option Nat   -- lock → goroutine holding it
  inCS : Nat → Bool         -- goroutine is between Lock() and Unlock(), accessing its map

def init : St := ⟨fun _ => none, fun _ => false⟩

/-- goroutine t moves: leaves its critical section (Unlock), or enters it if its lock is free (Lock), else stays blocked -/
def step (acc : Nat → Acc) (s : St) (t : Nat) : St :=
  if s.inCS t then
    { held := fun l => if l = (acc t).lock then none else s.held l,
      inCS := fun i => if i = t then false else s.inCS i }
  else
    match s.held (acc t).lock with
    | none => { held := fun l => if l = (acc t).lock then some t else s.held l,
                inCS := fun i => if i = t then true else s.inCS i }
    | some _ => s

def run (acc : Nat → Acc) (s : St) (sched : List Nat) : St := sched.foldl (step acc) s

/-- the discipline a constructor has to establish: whoever shares the map shares the lock -/
def Guarded (acc : Nat → Acc) : Prop := ∀ t1 t2, (acc t1).map = (acc t2).map → (acc t1).lock = (acc t2).lock

end Gorm.LockMap
