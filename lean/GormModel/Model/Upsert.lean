/-
  C16 — executable model of Save / Create+OnConflict / FirstOrInit / FirstOrCreate and of the way
  `attrs`/`assigns`/clauses travel on the Statement through derivations.

  Abstractions (all stated in obligations/C16.json):
  * every column holds a `Nat`; `0` is the Go zero value of the column's type ("" / 0 / zero time /
    NULL DeletedAt); `NOW = 1` is the value of the injected `NowFunc`;
  * a row is a total function column-index → value; column 0 is the (single) primary key;
  * the table is `key → Option Row` plus `next` (the rowid AUTOINCREMENT would hand out; no hard
    deletes happen in the modelled operations, so `next` = 1 + largest key ever inserted);
  * the copy discipline of `Statement.clone()` is NOT written here: it is the parameter `CloneCfg`,
    instantiated by `genCfg` from the regenerated `Gen.cloneLiteral` / `Gen.cloneLater`.
-/
import GormModel.Gen.CloneFacts
import GormModel.Gen.CloneInit
import GormModel.Gen.FinisherWrites
namespace Gorm.Upsert

/-- schema/field.go: the field attributes the modelled code branches on -/
inductive ColKind where
  | pk                       -- PrimaryKey, auto-increment (HasDefaultValue, DefaultValueInterface == nil)
  | plain
  | clientDefault (d : Nat)  -- `default:x` parsed into DefaultValueInterface (applied by gorm)
  | dbDefault (d : Nat)      -- `default:(expr)`: HasDefaultValue && DefaultValueInterface == nil (applied by the database)
  | dbNull                   -- `default:null`: like dbDefault (left out of the INSERT when zero) but NOT skipped by UpdateAll
  | autoCreate               -- AutoCreateTime > 0
  | autoUpdate               -- AutoUpdateTime > 0
  | softDelete               -- gorm.DeletedAt (plain column for writes; `IS NULL` filter on query/update)
deriving DecidableEq, Repr

structure Schema where
  ncols : Nat
  kind : Nat → ColKind

abbrev Row := Nat → Nat
def NOW : Nat := 1
def zeroRow : Row := fun _ => 0
def setCol (r : Row) (c v : Nat) : Row := fun j => if j = c then v else r j

structure Store where
  rows : Nat → Option Row
  next : Nat

def Store.put (s : Store) (k : Nat) (r : Row) : Store :=
  { rows := fun j => if j = k then some r else s.rows j, next := s.next }

inductive Err where
  | ok | unique
deriving DecidableEq, Repr

/-- what a finisher leaves behind: table, the caller's record, RowsAffected, error class -/
structure Out where
  store : Store
  val : Row
  ra : Nat
  err : Err

def isTracked (sch : Schema) (c : Nat) : Bool :=
  match sch.kind c with
  | .autoCreate => true | .autoUpdate => true | _ => false

/-- soft_delete.go QueryClauses/UpdateClauses: `deleted_at IS NULL` -/
def liveCol (sch : Schema) (r : Row) (c : Nat) : Bool :=
  match sch.kind c with
  | .softDelete => r c == 0
  | _ => true

def visible (sch : Schema) (r : Row) : Bool := (List.range sch.ncols).all (liveCol sch r)

/-! ### callbacks/create.go ConvertToCreateValues, struct branch -/

/-- first loop (l.319-333): zero value ⇒ client default / NOW for tracked times, written to the
    in-memory struct as well (`gorm:update_track_time` is only set for slices, not modelled) -/
def fillCreate (sch : Schema) (v : Row) : Row := fun c =>
  match sch.kind c with
  | .clientDefault d => if v c = 0 then d else v c
  | .autoCreate => if v c = 0 then NOW else v c
  | .autoUpdate => if v c = 0 then NOW else v c
  | _ => v c

/-- is column `c` in `values.Columns` (l.248-254 + l.335-342: default-DB-value fields only when non-zero) -/
def inInsert (sch : Schema) (v : Row) (c : Nat) : Bool :=
  match sch.kind c with
  | .pk => v c != 0
  | .dbDefault _ => v c != 0
  | .dbNull => v c != 0
  | _ => true

/-- the row the database inserts = `excluded.*`: omitted columns get their DB default / next rowid -/
def proposed (sch : Schema) (next : Nat) (v1 : Row) : Row := fun c =>
  match sch.kind c with
  | .pk => if v1 c = 0 then next else v1 c
  | .dbDefault d => if v1 c = 0 then d else v1 c
  | _ => v1 c

/-- right-hand side of one `DO UPDATE SET` assignment -/
inductive Asg where
  | excluded            -- `col = excluded.col` (clause.AssignmentColumns)
  | lit (v : Nat)       -- `col = ?`
deriving DecidableEq, Repr

/-- clause/on_conflict.go + the three documented rules (conflict target = primary key) -/
inductive Rule where
  | doNothing
  | doUpdates (as : List (Nat × Asg))
  | updateAll
deriving DecidableEq, Repr

/-- create.go l.348-392: `OnConflict.UpdateAll` expansion over `values.Columns`: skip primary key,
    default-DB-value columns, auto-create-time; auto-update-time is assigned NOW -/
def updateAllAsg (sch : Schema) (v1 : Row) (c : Nat) : Option Asg :=
  if inInsert sch v1 c then
    match sch.kind c with
    | .pk => none
    | .dbDefault _ => none
    | .autoCreate => none
    | .autoUpdate => some (.lit NOW)
    | _ => some .excluded
  else none

def lookupAsg (as : List (Nat × Asg)) (c : Nat) : Option Asg :=
  match as with
  | [] => none
  | (c', a) :: rest => if c' = c then some a else lookupAsg rest c

/-- the assignment table of the conflict branch; `none` = DO NOTHING
    (l.379-381: an empty UpdateAll expansion degrades to DoNothing) -/
def resolve (sch : Schema) (v1 : Row) : Rule → Option (Nat → Option Asg)
  | .doNothing => none
  | .doUpdates as => some (lookupAsg as)
  | .updateAll =>
    if (List.range sch.ncols).any (fun c => (updateAllAsg sch v1 c).isSome) then some (updateAllAsg sch v1) else none

def applyAsg (old p : Row) (asg : Nat → Option Asg) : Row := fun c =>
  match asg c with
  | none => old c
  | some .excluded => p c
  | some (.lit x) => x

/-- RETURNING of the default-DB-value fields is scanned back into the struct (create.go l.60-110) -/
def backfill (sch : Schema) (v1 new : Row) : Row := fun c =>
  match sch.kind c with
  | .pk => new c
  | .dbDefault _ => new c
  | .dbNull => new c
  | _ => v1 c

/-- callbacks/create.go Create on one struct, with an optional ON CONFLICT rule, against the key→row
    store (reference semantics of `INSERT … ON CONFLICT(pk) DO …`) -/
def insertRow (sch : Schema) (s : Store) (rule : Option Rule) (v : Row) : Out :=
  let v1 := fillCreate sch v
  let p := proposed sch s.next v1
  let k := p 0
  match s.rows k with
  | none => { store := { rows := fun j => if j = k then some p else s.rows j, next := max s.next (k + 1) },
              val := p, ra := 1, err := .ok }
  | some old =>
    match rule with
    | none => { store := s, val := v1, ra := 0, err := .unique }
    | some r =>
      match resolve sch v1 r with
      | none => { store := s, val := v1, ra := 0, err := .ok }
      | some asg =>
        let new := applyAsg old p asg
        { store := s.put k new, val := backfill sch v1 new, ra := 1, err := .ok }

/-! ### inserts whose column list is a subset of the model's columns

  callbacks/create.go ConvertToCreateValues (struct branch with Select/Omit; map branch = callbacks/helper.go
  ConvertMapToValuesForCreate) and the `OnConflict.UpdateAll` expansion, which ranges over `values.Columns`
  — the columns of THIS insert — not over the schema. -/

/-- how the value reaches Create -/
inductive Src where
  | struct (sel om : List Nat)   -- `Select(cols…)` / `Omit(cols…)` on the chain (both empty = unrestricted), Create(&struct)
  | map (keys : List Nat)          -- `Model(&T{}).Create(map[string]interface{}{…})`: exactly the map's keys
deriving DecidableEq, Repr

/-- statement.go SelectAndOmitColumns: `some true` = selected, `some false` = omitted (Omit is processed last
    and wins), `none` = not mentioned -/
def mention (sel om : List Nat) (c : Nat) : Option Bool :=
  if om.contains c then some false else if sel.contains c then some true else none

/-- `(ok && v) || (!ok && !restricted)` with `restricted = len(stmt.Selects) > 0` -/
def allowed (sel om : List Nat) (c : Nat) : Bool :=
  match mention sel om c with
  | some b => b
  | none => sel.isEmpty

/-- is column `c` in `values.Columns` (create.go l.248-254: tracked times stay under a Select restriction;
    l.335-342: default-DB-value fields only when non-zero; helper.go l.22-37: map keys) -/
def Src.listed (sch : Schema) : Src → Row → Nat → Bool
  | .struct sel om, v, c =>
    match sch.kind c with
    | .pk => allowed sel om c && v c != 0
    | .dbDefault _ => allowed sel om c && v c != 0
    | .dbNull => allowed sel om c && v c != 0
    | .autoCreate => mention sel om c != some false
    | .autoUpdate => mention sel om c != some false
    | _ => allowed sel om c
  | .map keys, _, c => keys.contains c

/-- the second filter of the UpdateAll expansion, `SelectAndOmitColumns(true, true)` (create.go l.351, l.356) -/
def Src.updatable : Src → Nat → Bool
  | .struct sel om, c => allowed sel om c
  | .map _, _ => true

/-- zero value ⇒ client default / NOW, for the listed columns only (the loop ranges over values.Columns);
    a map is sent as it is -/
def Src.fill (sch : Schema) (src : Src) (v : Row) : Row :=
  match src with
  | .struct _ _ => fun c => if src.listed sch v c then fillCreate sch v c else v c
  | .map _ => v

/-- the row the database inserts = `excluded.*`: a column the INSERT does not list gets the column's DEFAULT
    (rowid / `default:(expr)` / `default:x`, which the migrator also declares) or NULL -/
def proposedIns (sch : Schema) (next : Nat) (ins : Nat → Bool) (v1 : Row) : Row := fun c =>
  if ins c then v1 c else
    match sch.kind c with
    | .pk => next
    | .dbDefault d => d
    | .clientDefault d => d
    | _ => 0

/-- create.go l.348-392 over an arbitrary INSERT column list: a column is assigned on conflict only if the
    INSERT lists it (`for _, column := range values.Columns`) and Select/Omit allow it; then primary key,
    default-DB-value columns (except `default:null`) and the auto-create time are skipped -/
def updateAllIns (sch : Schema) (src : Src) (ins : Nat → Bool) (c : Nat) : Option Asg :=
  if ins c && src.updatable c then
    match sch.kind c with
    | .pk => none
    | .dbDefault _ => none
    | .autoCreate => none
    | .autoUpdate => some (.lit NOW)
    | _ => some .excluded
  else none

def resolveIns (sch : Schema) (src : Src) (ins : Nat → Bool) : Rule → Option (Nat → Option Asg)
  | .doNothing => none
  | .doUpdates as => some (lookupAsg as)
  | .updateAll =>
    if (List.range sch.ncols).any (fun c => (updateAllIns sch src ins c).isSome) then some (updateAllIns sch src ins) else none

/-- RETURNING is scanned back into a struct; a map keeps what the caller put in (not judged) -/
def Src.writeBack (sch : Schema) : Src → Row → Row → Row
  | .struct _ _, v1, new => backfill sch v1 new
  | .map _, v1, _ => v1

/-- Create of one value supplied through `src`, with an optional ON CONFLICT rule -/
def insertFrom (sch : Schema) (s : Store) (rule : Option Rule) (src : Src) (v : Row) : Out :=
  let ins := src.listed sch v
  let v1 := src.fill sch v
  let p := proposedIns sch s.next ins v1
  let k := p 0
  match s.rows k with
  | none => { store := { rows := fun j => if j = k then some p else s.rows j, next := max s.next (k + 1) },
              val := src.writeBack sch v1 p, ra := 1, err := .ok }
  | some old =>
    match rule with
    | none => { store := s, val := v1, ra := 0, err := .unique }
    | some r =>
      match resolveIns sch src ins r with
      | none => { store := s, val := v1, ra := 0, err := .ok }
      | some asg =>
        let new := applyAsg old p asg
        { store := s.put k new, val := src.writeBack sch v1 new, ra := 1, err := .ok }

/-! ### finisher_api.go Save (struct branch) -/

/-- callbacks/update.go ConvertToAssignments, struct branch under `Select("*")` with Dest == Model:
    every non-primary column is assigned (zero values included), auto-update-time gets NOW (in memory too) -/
def touchUpdate (sch : Schema) (v : Row) : Row := fun c =>
  match sch.kind c with
  | .autoUpdate => NOW
  | _ => v c

def mergeNonPk (sch : Schema) (old v1 : Row) : Row := fun c =>
  match sch.kind c with
  | .pk => old c
  | _ => v1 c

/-- the UPDATE of Save: `SET all WHERE pk = key AND deleted_at IS NULL`; returns RowsAffected -/
def saveUpdate (sch : Schema) (s : Store) (v1 : Row) : Store × Nat :=
  match s.rows (v1 0) with
  | some old => if visible sch old then (s.put (v1 0) (mergeNonPk sch old v1), 1) else (s, 0)
  | none => (s, 0)

/-- finisher_api.go Save l.89-112: zero key ⇒ Create; else update all fields and, when no row was
    affected, `Clauses(OnConflict{UpdateAll: true}).Create(value)` -/
def save (sch : Schema) (s : Store) (v : Row) : Out :=
  if v 0 = 0 then insertRow sch s none v
  else
    let v1 := touchUpdate sch v
    let u := saveUpdate sch s v1
    if u.2 = 0 then insertRow sch u.1 (some .updateAll) v1
    else { store := u.1, val := v1, ra := u.2, err := .ok }

/-! ### conditions, attrs, assigns -/

/-- the WHERE expressions the modelled chains produce: `clause.Eq` (struct / map / `Where("col", v)` /
    clause.Eq literal), raw `clause.Expr` "col = ?" (same rows, but not an `Eq`), `clause.AndConditions` -/
inductive Cond where
  | eq (c v : Nat)
  | raw (c v : Nat)
  | andG (l : List Cond)
deriving Repr

mutual
  def Cond.holds (r : Row) : Cond → Bool
    | .eq c v => r c == v
    | .raw c v => r c == v
    | .andG l => holdsAll r l
  def holdsAll (r : Row) : List Cond → Bool
    | [] => true
    | x :: xs => x.holds r && holdsAll r xs
end

mutual
  /-- finisher_api.go assignInterfacesToValue, `[]clause.Expression` arm: only `Eq`, descending into
      `AndConditions`; everything else is skipped -/
  def Cond.assign (r : Row) : Cond → Row
    | .eq c v => setCol r c v
    | .raw _ _ => r
    | .andG l => assignAll r l
  def assignAll (r : Row) : List Cond → Row
    | [] => r
    | x :: xs => assignAll (x.assign r) xs
end

/-- one Attrs(...) / Assign(...) argument list, in the three documented forms -/
inductive Init where
  | structV (fs : List (Nat × Nat))   -- struct: non-zero fields only
  | mapV (fs : List (Nat × Nat))      -- map[string]interface{}: every key, zero values included
  | kv (c v : Nat)                    -- ("column", value)
deriving DecidableEq, Repr

/-- the `Eq` atoms BuildCondition yields for the form (statement.go BuildCondition) -/
def Init.cols : Init → List (Nat × Nat)
  | .structV fs => fs.filter (fun f => f.2 != 0)
  | .mapV fs => fs
  | .kv c v => [(c, v)]

def setAll (r : Row) : List (Nat × Nat) → Row
  | [] => r
  | f :: fs => setAll (setCol r f.1 f.2) fs

/-- assignInterfacesToValue on one attrs/assigns list -/
def applyInit (r : Row) : Option Init → Row
  | none => r
  | some i => setAll r i.cols

/-- `Limit(1).Order(pk).Find(dest, conds…)`: smallest visible key whose row satisfies all conditions;
    scans keys `k, k+1, …, k+fuel-1` -/
def findFrom (sch : Schema) (rows : Nat → Option Row) (cs : List Cond) : Nat → Nat → Option Row
  | 0, _ => none
  | fuel + 1, k =>
    match rows k with
    | some r => if visible sch r && holdsAll r cs then some r else findFrom sch rows cs fuel (k + 1)
    | none => findFrom sch rows cs fuel (k + 1)

def firstMatch (sch : Schema) (s : Store) (cs : List Cond) : Option Row :=
  findFrom sch s.rows cs s.next 0

/-- the record built on a miss: conditions, then attrs, then assigns (dest starts zero) -/
def built (cs : List Cond) (attrs assigns : Option Init) : Row :=
  applyInit (applyInit (assignAll zeroRow cs) attrs) assigns

/-- finisher_api.go FirstOrInit l.308-331 -/
def firstOrInit (sch : Schema) (s : Store) (cs : List Cond) (attrs assigns : Option Init) : Out :=
  match firstMatch sch s cs with
  | some r => { store := s, val := applyInit r assigns, ra := 1, err := .ok }
  | none => { store := s, val := built cs attrs assigns, ra := 0, err := .ok }

def lookupCol (fs : List (Nat × Nat)) (c : Nat) : Option Nat :=
  match fs with
  | [] => none
  | (c', v) :: rest => if c' = c then some v else lookupCol rest c

/-- `Model(dest).Updates(map)`: ConvertToAssignments map branch; auto-update-time gets NOW unless assigned -/
def mapUpdate (sch : Schema) (fs : List (Nat × Nat)) (r : Row) : Row := fun c =>
  match lookupCol fs c with
  | some v => v
  | none => match sch.kind c with
    | .autoUpdate => NOW
    | _ => r c

/-- finisher_api.go FirstOrCreate l.347-399. `qcs` = conditions of the query (`db.Session(&Session{})…Find`),
    `txcs` = conditions on `tx = db.getInstance()` (they join the UPDATE's WHERE) -/
def firstOrCreate (sch : Schema) (s : Store) (qcs txcs : List Cond) (attrs assigns : Option Init) : Out :=
  match firstMatch sch s qcs with
  | none => insertRow sch s none (built qcs attrs assigns)
  | some r =>
    match assigns with
    | none => { store := s, val := r, ra := 0, err := .ok }
    | some i =>
      let new := mapUpdate sch i.cols r
      -- UPDATE … WHERE txcs AND pk = r.pk AND deleted_at IS NULL (the in-memory dest is assigned regardless)
      match s.rows (r 0) with
      | some cur => if visible sch cur && holdsAll cur txcs
                    then { store := s.put (r 0) (mapUpdate sch i.cols cur), val := new, ra := 1, err := .ok }
                    else { store := s, val := new, ra := 0, err := .ok }
      | none => { store := s, val := new, ra := 0, err := .ok }

/-! ### handles: gorm.go getInstance / Session / WithContext, statement.go clone, chainable_api.go -/

/-- which of the relevant Statement fields `clone()` carries over — regenerated, see `genCfg` -/
structure CloneCfg where
  clauses : Bool
  attrs : Bool
  assigns : Bool
deriving DecidableEq, Repr

/-- is Statement field `f` carried over by `clone()`: in the literal as `f: stmt.f`, by a later
    make+copy, or by the plain later statement `newStmt.f = stmt.f` (anything else counts as not copied) -/
def fieldCopied (f : String) : Bool :=
  Gen.cloneLiteral.contains (f, "stmt." ++ f) || Gen.cloneLater.contains (f, "makeCopy") ||
    Gen.cloneInitStmts.contains (f, "newStmt." ++ f ++ " = stmt." ++ f)

/-- the facts of the CURRENT source tree -/
def genCfg : CloneCfg :=
  { clauses := Gen.cloneLater.contains ("Clauses", "copyEntries"),
    attrs := fieldCopied "attrs",
    assigns := fieldCopied "assigns" }

/-- the part of a Statement the modelled finishers read -/
structure Stmt where
  conds : List Cond          -- Clauses["WHERE"]
  oc : Option Rule           -- Clauses["ON CONFLICT"]
  attrs : Option Init
  assigns : Option Init

def Stmt.empty : Stmt := { conds := [], oc := none, attrs := none, assigns := none }

/-- statement.go clone() -/
def cloneStmt (cfg : CloneCfg) (st : Stmt) : Stmt :=
  { conds := if cfg.clauses then st.conds else [],
    oc := if cfg.clauses then st.oc else none,
    attrs := if cfg.attrs then st.attrs else none,
    assigns := if cfg.assigns then st.assigns else none }

structure Handle where
  clone : Nat
  stmt : Stmt

/-- `gorm.Open` result / `Session(&Session{NewDB: true})` -/
def Handle.base : Handle := { clone := 1, stmt := Stmt.empty }

/-- gorm.go getInstance l.410-437 -/
def getInstance (cfg : CloneCfg) (h : Handle) : Handle :=
  if h.clone = 0 then h
  else if h.clone = 1 then { clone := 0, stmt := Stmt.empty }
  else { clone := 0, stmt := cloneStmt cfg h.stmt }

inductive Step where
  | where_ (cs : List Cond)     -- Where(...) (one call may add several expressions)
  | onConflict (r : Rule)       -- Clauses(clause.OnConflict{…})
  | attrs (a : Option Init)     -- Attrs(...)
  | assign (a : Option Init)    -- Assign(...)
  | session                     -- Session(&gorm.Session{})
  | withCtx                     -- WithContext(ctx)
deriving Repr

def Handle.step (cfg : CloneCfg) (h : Handle) : Step → Handle
  | .where_ cs => let t := getInstance cfg h; { t with stmt := { t.stmt with conds := t.stmt.conds ++ cs } }
  | .onConflict r => let t := getInstance cfg h; { t with stmt := { t.stmt with oc := some r } }
  | .attrs a => let t := getInstance cfg h; { t with stmt := { t.stmt with attrs := a } }
  | .assign a => let t := getInstance cfg h; { t with stmt := { t.stmt with assigns := a } }
  -- gorm.go Session l.226-: Statement shared, clone = 2
  | .session => { clone := 2, stmt := h.stmt }
  -- WithContext = Session(&Session{Context: ctx}): `config.Context != nil` ⇒ Statement.clone()
  | .withCtx => { clone := 2, stmt := cloneStmt cfg h.stmt }

def Handle.run (cfg : CloneCfg) (h : Handle) (steps : List Step) : Handle := steps.foldl (Handle.step cfg) h

inductive Fin where
  | save (v : Row)
  | create (v : Row)
  | createFrom (src : Src) (v : Row)    -- Create of a map / under Select/Omit (partial INSERT column list)
  | firstOrInit (inl : List Cond)       -- inline conds of the finisher call
  | firstOrCreate (inl : List Cond)

/-- a finisher called on handle `h` -/
def finish (cfg : CloneCfg) (sch : Schema) (s : Store) (h : Handle) : Fin → Out
  | .save v => save sch s v
  | .create v => insertRow sch s (getInstance cfg h).stmt.oc v
  | .createFrom src v => insertFrom sch s (getInstance cfg h).stmt.oc src v
  | .firstOrInit inl =>
    -- `db.Limit(1)` : getInstance; attrs/assigns are read from that statement
    let t := getInstance cfg h
    firstOrInit sch s (t.stmt.conds ++ inl) t.stmt.attrs t.stmt.assigns
  | .firstOrCreate inl =>
    -- tx := db.getInstance(); queryTx := db.Session(&Session{}).Limit(1)…; attrs/assigns read from db.Statement
    let tx := getInstance cfg h
    let q := getInstance cfg (h.step cfg .session)
    firstOrCreate sch s (q.stmt.conds ++ inl) tx.stmt.conds h.stmt.attrs h.stmt.assigns

/-- a whole program: chain from the base handle, then the finisher -/
def runChain (cfg : CloneCfg) (sch : Schema) (s : Store) (steps : List Step) (f : Fin) : Out :=
  finish cfg sch s (Handle.base.run cfg steps) f

/-! ### reusable handles: a handle left by Session / WithContext is used for several finishers

  gorm.go Session l.226-: `clone = 2`, the Statement POINTER is shared by every chain started from the handle
  (getInstance clones it on the next derivation). A finisher that writes a field of its receiver's Statement
  therefore changes every later use. Which fields the finishers write through their receiver is NOT written
  here: it is the parameter `RecvW`, instantiated by `genRecvW` from the regenerated `Gen.finisherStmtWrites`. -/

inductive FinKind where
  | save | create | firstOrInit | firstOrCreate
deriving DecidableEq, Repr

/-- the Statement fields the modelled finishers read -/
inductive Fld where
  | clauses | attrs | assigns
deriving DecidableEq, Repr

def Fin.kind : Fin → FinKind
  | .save _ => .save
  | .create _ => .create
  | .createFrom _ _ => .create
  | .firstOrInit _ => .firstOrInit
  | .firstOrCreate _ => .firstOrCreate

def FinKind.goName : FinKind → String
  | .save => "DB.Save" | .create => "DB.Create" | .firstOrInit => "DB.FirstOrInit" | .firstOrCreate => "DB.FirstOrCreate"

def Fld.goName : Fld → String
  | .clauses => "Clauses" | .attrs => "attrs" | .assigns => "assigns"

/-- does finisher `k` write field `f` of its RECEIVER's statement -/
abbrev RecvW := FinKind → Fld → Bool

/-- the facts of the CURRENT source tree -/
def genRecvW : RecvW := fun k f =>
  Gen.finisherStmtWrites.any (fun w => w.fn == k.goName && w.recv && w.field == f.goName)

/-- the receiver's statement after the finisher ran on it: a field written through the receiver no longer
    holds what the chain put there (modelled as reset — the realistic shape "consume and clear") -/
def stmtAfter (w : RecvW) (st : Stmt) (k : FinKind) : Stmt :=
  { conds := if w k .clauses then [] else st.conds,
    oc := if w k .clauses then none else st.oc,
    attrs := if w k .attrs then none else st.attrs,
    assigns := if w k .assigns then none else st.assigns }

/-- `h` is used for several finishers in a row, each preceded by further chain steps (possibly none); every
    use starts from the table the previous one left. The finisher's receiver is `h` itself only when no chain
    step precedes it — any step derives a fresh statement first (`h.clone ≥ 1`). -/
def useSeq (cfg : CloneCfg) (w : RecvW) (sch : Schema) : Store → Handle → List (List Step × Fin) → List Out
  | _, _, [] => []
  | s, h, u :: rest =>
    let o := finish cfg sch s (h.run cfg u.1) u.2
    let h' : Handle := if u.1.isEmpty then { h with stmt := stmtAfter w h.stmt u.2.kind } else h
    o :: useSeq cfg w sch o.store h' rest

/-- the same uses, each written as a chain of its own from the base handle -/
def chainSeq (cfg : CloneCfg) (sch : Schema) (pre : List Step) : Store → List (List Step × Fin) → List Out
  | _, [] => []
  | s, u :: rest =>
    let o := runChain cfg sch s (pre ++ u.1) u.2
    o :: chainSeq cfg sch pre o.store rest

/-- insert a derivation step at position `i` of the chain -/
def insertAt (i : Nat) (d : Step) (steps : List Step) : List Step := steps.take i ++ d :: steps.drop i

def Step.isDeriv : Step → Bool
  | .session => true
  | .withCtx => true
  | _ => false

/-- does the step put a non-empty attrs/assigns list on the statement -/
def Step.setsInit : Step → Bool
  | .attrs (some _) => true
  | .assign (some _) => true
  | _ => false

end Gorm.Upsert
