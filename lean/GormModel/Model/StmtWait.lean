/-
  C07 (round 3): what a goroutine that WAITED for another goroutine's `PrepareContext` does when that prepare FAILED.

  prepare_stmt.go `(*PreparedStmtDB).prepare` finds an entry under its key at two places — under `Mux.RLock` (fast path,
  :80) and once more under `Mux.Lock` (the "double check", :94) — waits on `<-stmt.prepared` at both, and is supposed to test
  `stmt.prepareErr` at both before it returns `*stmt`.  C14's LTS (`Model.StmtCache`, imported, not duplicated) hard-wires
  that test into its `.waiting` step.  This file puts the test under REGENERATED facts (`Gen.waitSites`, extract/gen_c07c.go):
  `WCfg.errFast` / `WCfg.errDouble` say whether the wait site that follows the RLock lookup / the Lock lookup is followed by
  `if stmt.prepareErr != nil { return Stmt{}, stmt.prepareErr }`.  A wait site WITHOUT the test returns `*stmt, nil` for a
  failed entry: a `Stmt` whose `*sql.Stmt` is nil; every caller (`ExecContext`, `QueryContext`, `QueryRowContext`, and the
  `PreparedStmtTX` variants — `Gen.prepareCallSites`: all six use the statement whenever `err == nil`) dereferences it:
  `Res.nilStmt` (a nil-pointer panic inside database/sql).

  The wrapper keeps C14's state and adds one ghost per goroutine: through which lookup it found the entry it waits for.
-/
import GormModel.Model.StmtCache
import GormModel.Gen.WaitSites
namespace Gorm.SW
open Gorm.SC

/-- which wait sites of `prepare` test `prepareErr` after the wait -/
structure WCfg where
  errFast : Bool := true      -- prepare_stmt.go:83-86  (found under RLock)
  errDouble : Bool := true    -- prepare_stmt.go:97-100 (found under Lock, "double check")
deriving DecidableEq, Repr

/-- a wait site of `prepare` is CHECKED if the statement after `<-X.prepared` is `if X.prepareErr != nil { return …, X.prepareErr }`
    for the same `X`, and the success path returns `*X` -/
def siteChecked (w : Gen.WaitSite) : Bool :=
  w.after == "if-err-return" && w.errField == "prepareErr" && w.errOf == w.recv && w.retVal == "*" ++ w.recv

def prepareSites (branch : String) : List Gen.WaitSite :=
  Gen.waitSites.filter fun w => w.fn == "PreparedStmtDB.prepare" && w.chan == "prepared" && !w.inGo && w.branch == branch

/-- the configuration of the CURRENT source tree (regenerated on every run) -/
def genWCfg : WCfg :=
  { errFast := (prepareSites "RLock").all siteChecked && !(prepareSites "RLock").isEmpty,
    errDouble := (prepareSites "Lock").all siteChecked && !(prepareSites "Lock").isEmpty }

/-- ghost: the lookup through which the goroutine found the entry it waits for -/
inductive Via | none | fast | double
deriving DecidableEq, Repr

def checked (c : WCfg) : Via → Bool
  | .none => true
  | .fast => c.errFast
  | .double => c.errDouble

structure WSt where
  base : St
  via : Nat → Via := fun _ => .none
  wcfg : WCfg := {}

def winit (ops : List Op) (nV : Nat := 1) (cfg : Cfg := {}) (wc : WCfg := {}) : WSt :=
  { base := init ops nV cfg, wcfg := wc }

/-- the wait is over on a FAILED entry and this wait site does not look at `prepareErr` -/
def unchecked (w : WSt) (t e : Nat) : Bool :=
  (w.base.entries e).prepared && (w.base.entries e).err && !checked w.wcfg (w.via t)

/-- one atomic section of goroutine `t`: C14's `tstep`, except that
    * the two lookup sections record through which of them an entry was found,
    * a wait that ends on a failed entry at an unchecked site returns `*stmt, nil` → the caller dereferences a nil `*sql.Stmt`. -/
def wtstep (w : WSt) (t : Nat) (a : Ans) : Option WSt :=
  match (w.base.threads t).op, (w.base.threads t).pc with
  | .use _ _ _, .init => (tstep w.base t a).map fun b => { w with base := b, via := upd w.via t .fast }
  | .use _ _ _, .missed => (tstep w.base t a).map fun b => { w with base := b, via := upd w.via t .double }
  | .use _ _ _, .waiting e =>
    if unchecked w t e then some { w with base := finish w.base t .nilStmt }
    else (tstep w.base t a).map fun b => { w with base := b }
  | _, _ => (tstep w.base t a).map fun b => { w with base := b }

def wact (w : WSt) : Act → Option WSt
  | .thr t a => if t < w.base.nT then wtstep w t a else none
  | x => (act w.base x).map fun b => { w with base := b }

def wrun (w : WSt) (sched : List Act) : WSt := sched.foldl (fun w a => (wact w a).getD w) w

end Gorm.SW
