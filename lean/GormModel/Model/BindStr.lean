/-
  C01 — STRING arguments that are not templates: where gorm decides BY LOOKING AT THE TEXT whether a string is a
  value (bound) or SQL (written).

  Transcribed from
    statement.go   Statement.BuildCondition — the complete string arm:
                     `if s, ok := query.(string); ok { if _, err := strconv.Atoi(s); err != nil { …template arms… } }`
                   and, when Atoi SUCCEEDS, the generic loop below it for a string head followed by plain values
                   (`default:` arm: `schema.Parse` of a string fails, `len(conds) == 0`, kind is not Slice/Array ⇒
                   `conds = append(conds, clause.IN{Column: clause.PrimaryColumn, Values: args})` where `args` is
                   `append([]interface{}{query}, args...)`: the STRING ITSELF is the first bound value)
    strconv        Atoi (fast path for 0 < len(s) < 19, otherwise ParseInt(s, 10, 0) = sign + ParseUint(s, 10, 64)
                   + the int64 range test); the cutoff/overflow arithmetic of ParseUint is modelled on unbounded Nat
                   (`un ≥ 2^64` ⇒ range error).  Lengths are BYTE lengths (`Char.utf8Size`).
  Tied to the real code by the harness suites "strkey" (real BuildCondition on a real statement vs `buildCond`,
  the Lean side decides numeric-ness ITSELF) and "atoi" (strconv.Atoi vs `atoi`), harness/c01_strkey.go; the parse
  function used in the arm is a regenerated fact (Gen/BindStr.lean, extract/gen_c01_str.go).
  Core Lean only.
-/
import GormModel.Model.Bind
namespace Gorm.Bind

def isDigit (c : Char) : Bool := decide ('0'.toNat ≤ c.toNat) && decide (c.toNat ≤ '9'.toNat)
def digitVal (c : Char) : Nat := c.toNat - '0'.toNat

/-- the digit loop of strconv.ParseUint(s, 10, 64) / of Atoi's fast path, on unbounded Nat:
    `none` = a byte that is not '0'..'9' (syntax error) -/
def digitsVal : List Char → Nat → Option Nat
  | [], acc => some acc
  | c :: cs, acc => if isDigit c then digitsVal cs (acc * 10 + digitVal c) else none

/-- `if s[0] == '-' || s[0] == '+' { s = s[1:] }` : (negative, rest) -/
def stripSign : List Char → Bool × List Char
  | '-' :: r => (true, r)
  | '+' :: r => (false, r)
  | s => (false, s)

/-- len(s) of the Go string (bytes) -/
def byteLen (s : List Char) : Nat := (s.map Char.utf8Size).sum

/-- strconv.Atoi: `none` = an error is returned (syntax or range) -/
def atoi (s : List Char) : Option Int :=
  let sLen := byteLen s
  if 0 < sLen ∧ sLen < 19 then
    -- fast path: small integers that fit int64
    let (neg, r) := stripSign s
    if r.isEmpty then none
    else match digitsVal r 0 with
      | none => none
      | some n => some (if neg then -(n : Int) else (n : Int))
  else
    -- ParseInt(s, 10, 0)
    if s.isEmpty then none
    else
      let (neg, r) := stripSign s
      -- ParseUint(r, 10, 64)
      if r.isEmpty then none
      else match digitsVal r 0 with
        | none => none
        | some un =>
          if un ≥ 2 ^ 64 then none                      -- ParseUint: value out of range
          else if !neg ∧ un ≥ 2 ^ 63 then none          -- ParseInt: `!neg && un >= cutoff`
          else if neg ∧ un > 2 ^ 63 then none           -- ParseInt: `neg && un > cutoff`
          else some (if neg then -(un : Int) else (un : Int))

/-- BuildCondition's test `_, err := strconv.Atoi(s); err == nil`: the string is a PRIMARY-KEY VALUE -/
def isKeyString (s : List Char) : Bool := (atoi s).isSome

section
variable {β : Type}

/-- arguments after a numeric string for which the generic loop adds nothing (`default:` arm with `len(conds) != 0`,
    `schema.Parse` fails): basic scalars and slices of them.  (nil, expressions, handles, maps, structs and Valuers take
    other arms of the loop: not modelled, `buildCond` answers `none`.) -/
def plainArg : Val β → Bool
  | .scalar _ => true
  | .list _ vs => vs.all fun | .scalar _ => true | _ => false
  | _ => false

/-- statement.go BuildCondition for a string `query`, COMPLETE dispatch (numeric-ness decided here, by `atoi`):
      * Atoi fails  → the template arms (`buildCondStr false`): the string is SQL text by documented design
      * Atoi succeeds → `IN{PrimaryColumn, [query, args…]}`: the string is the first bound value
    `inj` embeds the Go string into the payload universe, `pk` is the resolved `clause.PrimaryColumn`. -/
def buildCond (inj : List Char → β) (pk : Val β) (s : List Char) (args : List (Val β)) : Option (List (Val β)) :=
  if isKeyString s then
    if args.all plainArg then some [.inn false pk (.scalar (inj s) :: args)] else none
  else buildCondStr false s args

end
end Gorm.Bind
