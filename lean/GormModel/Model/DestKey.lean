/-!
# C03 round 6 — the key a DESTINATION carries (callbacks/query.go `BuildQuerySQL`)

When the destination of First/Take/Last/Find is a struct of the model's type, BuildQuerySQL adds one equality
`column = value` per member of `Schema.PrimaryFields` (all of them, in that order) whose value in the destination is
non-zero, ANDed in one `clause.Where`; nothing when every part is zero.  Values are abstract numbers, `0` is the zero value.
Tied to the real code by the `destkey` correspondence suite (harness/c03_r6.go) and the facts `Gen.destKey*`.
-/
namespace Gorm

/-- the conditions the destination-key block adds for a destination carrying `key` (column, value) -/
def destKeyConds (key : List (String × Nat)) : List (String × Nat) := key.filter (fun p => p.2 != 0)

/-- a row (column ↦ value) satisfies the ANDed conditions -/
def rowMatches (row : String → Nat) (conds : List (String × Nat)) : Bool := conds.all (fun c => row c.1 == c.2)

end Gorm
