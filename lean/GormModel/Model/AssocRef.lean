/-
  Model.AssocRef — association mode over relations whose keys reference NON-primary columns, the state of the
  ARGUMENT records, and the guards of the zero-argument calls.

  Model.Assoc identifies every record by ONE abstract key.  Here a record has two identities,
      id   : its primary key,
      code : the value of the column the relation REFERENCES (`references:` / `joinReferences:`; the primary key only
             by default),
  plus `fk`, the value of its foreign-key column (holding the `code` of the record on the other side, 0 = NULL).
  Every condition that association.go builds reads the keys of in-memory records with some field list and compares
  them with some column.  WHICH field list each code site hands over is regenerated from /repo on every run
  (`Gen.assocKeyReads`, `Gen.assocFieldLists`) and resolved here to a `KeySel`; the statements below are interpreted
  with those selectors.

    * Delete  belongs-to         `UPDATE owners  SET fk = NULL WHERE owners.id  IN <operated owners> AND owners.fk  IN <named targets>`
    * Delete  has-one/has-many   `UPDATE targets SET fk = NULL WHERE targets.fk IN <operated owners> AND targets.id IN <named targets>`
    * Replace has-one/has-many   `UPDATE targets SET fk = NULL WHERE targets.id NOT IN <kept> AND targets.fk IN <operated owners>`
    * Delete / Replace many2many `DELETE FROM join WHERE join.owner IN <operated owners> AND join.target (NOT) IN <named / kept>`
    * cleanUpDeletedRelations    in-memory elements whose key is a named key are dropped

  Arguments (`ArgRec`): the caller's record carries its own in-memory foreign-key field and, when it was loaded with
  Preload, a back-reference to its PREVIOUS owner.  The nested upsert of callbacks/associations.go writes the
  argument's foreign-key field after the reference loop of SaveAfterAssociations has set it to the new owner; whether
  the nested Create also saves the argument's OWN relations (re-deriving that field from the preloaded back-reference)
  is the `Omit(clause.Associations)` branch of saveAssociations, regenerated as `Gen.saveAssociationsTx`.
-/
import GormModel.Model.Assoc
import GormModel.Gen.AssocSites
namespace Gorm.AssocRef

/-- which value of an in-memory record a code site reads -/
inductive KeySel | pk | ref | fkv
  deriving DecidableEq, Repr

structure Rec where
  id : Nat
  code : Nat
  fk : Nat := 0
  deriving DecidableEq, Repr

def Rec.key (x : Rec) : KeySel → Nat
  | .pk => x.id
  | .ref => x.code
  | .fkv => x.fk

/-- the field list each site of association.go hands to GetIdentityFieldValuesMap(FromValues) -/
structure Sites where
  btDelOwner : KeySel    -- Delete / BelongsTo: keys of the operated owners
  btDelNamed : KeySel    -- Delete / BelongsTo: keys of the named targets (compared with the owners' fk column)
  fkDelOwner : KeySel    -- Delete / HasOne, HasMany: keys of the operated owners (compared with the targets' fk column)
  fkDelNamed : KeySel    -- Delete / HasOne, HasMany: keys of the named targets (compared with the targets' primary key)
  m2mDelOwner : KeySel   -- Delete / Many2Many: owner side of the join row
  m2mDelNamed : KeySel   -- Delete / Many2Many: target side of the join row
  fkRepKeep : KeySel     -- Replace / HasOne, HasMany: keys of the kept in-memory records (NOT IN, targets' primary key)
  fkRepOwner : KeySel    -- Replace / HasOne, HasMany: keys of the operated owners
  m2mRepOwner : KeySel   -- Replace / Many2Many: owner side
  m2mRepKeep : KeySel    -- Replace / Many2Many: target side of the kept values
  cleanNamed : KeySel    -- Delete: in-memory clean-up (cleanUpDeletedRelations): keys of the named records AND of the field elements
  deriving DecidableEq, Repr

/-- the selectors under which every statement addresses the records it is meant to address -/
def sound : Sites :=
  { btDelOwner := .pk, btDelNamed := .ref, fkDelOwner := .ref, fkDelNamed := .pk, m2mDelOwner := .ref, m2mDelNamed := .ref,
    fkRepKeep := .pk, fkRepOwner := .ref, m2mRepOwner := .ref, m2mRepKeep := .ref, cleanNamed := .pk }

/-! resolution of the regenerated facts -/

/-- the relation-type `case` a path lies in ("" = outside the switch) -/
def relCases : List String :=
  ["case schema.BelongsTo", "case schema.HasOne, schema.HasMany", "case schema.Many2Many",
   "case schema.HasOne, schema.BelongsTo", "case schema.HasMany, schema.Many2Many", "case schema.HasOne", "case schema.HasMany"]

def caseOf (path : List String) : String := (path.find? (fun p => relCases.contains p)).getD ""

/-- the expressions appended to field-list variable `v` of function `fn`, as visible inside `case cs`
    (a list declared inside the case shadows the one filled before the switch) -/
def listDef (fn cs v : String) : List String :=
  let es := Gen.assocFieldLists.filter (fun e => e.1 == fn && e.2.2.1 == v)
  let own := es.filter (fun e => caseOf e.2.1 == cs)
  ((if own.isEmpty then es.filter (fun e => caseOf e.2.1 == "") else own).map (·.2.2.2)).eraseDups

def selOfExpr (fn cs e : String) : Option KeySel :=
  if e == "rel.FieldSchema.PrimaryFields" || e == "rel.Schema.PrimaryFields" then some .pk
  else match listDef fn cs e with
    | ["ref.PrimaryKey"] => some .ref      -- the REFERENCED field of the relation
    | ["ref.ForeignKey"] => some .fkv
    | _ => none

/-- the field list handed to `callee(ctx, src, <fields>)` inside `case cs` of `fn` (Unscoped-only branches aside);
    none unless there is exactly one such call -/
def readSel (fn cs callee src : String) : Option KeySel :=
  match Gen.assocKeyReads.filter (fun e =>
      e.1 == fn && caseOf e.2.1 == cs && e.2.2.1 == callee && e.2.2.2[1]? == some src &&
      !(e.2.1.any (fun p => p == "if association.Unscope" || p == "if association.Unscope && rel.Type == schema.BelongsTo"))) with
  | [e] => selOfExpr fn cs (e.2.2.2[2]?.getD "")
  | _ => none

def sitesOfFacts : Option Sites := do
  let d := "Association.Delete"
  let r := "Association.Replace"
  some {
    btDelOwner := ← readSel d "case schema.BelongsTo" "GetIdentityFieldValuesMap" "reflectValue",
    btDelNamed := ← readSel d "case schema.BelongsTo" "GetIdentityFieldValuesMapFromValues" "values",
    fkDelOwner := ← readSel d "case schema.HasOne, schema.HasMany" "GetIdentityFieldValuesMap" "reflectValue",
    fkDelNamed := ← readSel d "case schema.HasOne, schema.HasMany" "GetIdentityFieldValuesMapFromValues" "values",
    m2mDelOwner := ← readSel d "case schema.Many2Many" "GetIdentityFieldValuesMap" "reflectValue",
    m2mDelNamed := ← readSel d "case schema.Many2Many" "GetIdentityFieldValuesMapFromValues" "values",
    fkRepKeep := ← readSel r "case schema.HasOne, schema.HasMany" "GetIdentityFieldValuesMap" "relValues",
    fkRepOwner := ← readSel r "case schema.HasOne, schema.HasMany" "GetIdentityFieldValuesMap" "reflectValue",
    m2mRepOwner := ← readSel r "case schema.Many2Many" "GetIdentityFieldValuesMap" "reflectValue",
    m2mRepKeep := ← readSel r "case schema.Many2Many" "GetIdentityFieldValuesMapFromValues" "values",
    cleanNamed := ← readSel d "" "GetIdentityFieldValuesMapFromValues" "values" }

/-! the statements, interpreted with the selectors -/

def keys (l : List Rec) (k : KeySel) : List Nat := l.map (·.key k)

/-- Delete, belongs-to: rows of the OWNER table -/
def btDelete (S : Sites) (os named owners : List Rec) : List Rec :=
  owners.map fun x => if x.id ∈ keys os S.btDelOwner ∧ x.fk ∈ keys named S.btDelNamed then { x with fk := 0 } else x

/-- Delete, has-one / has-many: rows of the TARGET table -/
def fkDelete (S : Sites) (os named targets : List Rec) : List Rec :=
  targets.map fun x => if x.fk ∈ keys os S.fkDelOwner ∧ x.id ∈ keys named S.fkDelNamed then { x with fk := 0 } else x

/-- Replace clean-up, has-one / has-many (`NOT IN` is omitted when nothing is kept) -/
def fkReplaceCleanup (S : Sites) (os keep targets : List Rec) : List Rec :=
  targets.map fun x =>
    if x.fk ∈ keys os S.fkRepOwner ∧ (keep = [] ∨ x.id ∉ keys keep S.fkRepKeep) then { x with fk := 0 } else x

/-- Delete, many2many: join rows (owner column, target column) -/
def m2mDelete (S : Sites) (os named : List Rec) (joins : List (Nat × Nat)) : List (Nat × Nat) :=
  joins.filter fun j => !(decide (j.1 ∈ keys os S.m2mDelOwner) && decide (j.2 ∈ keys named S.m2mDelNamed))

/-- Replace clean-up, many2many -/
def m2mReplaceCleanup (S : Sites) (os keep : List Rec) (joins : List (Nat × Nat)) : List (Nat × Nat) :=
  joins.filter fun j => !(decide (j.1 ∈ keys os S.m2mRepOwner) && (keep.isEmpty || decide (j.2 ∉ keys keep S.m2mRepKeep)))

/-- cleanUpDeletedRelations: the in-memory elements kept by Delete -/
def cleanMem (S : Sites) (field named : List Rec) : List Rec :=
  field.filter fun e => decide (e.key S.cleanNamed ∉ keys named S.cleanNamed)

/-- stored links.  belongs-to: owner row `oid` carries the referenced value `tcode` -/
def BtLinked (owners : List Rec) (oid tcode : Nat) : Prop := tcode ≠ 0 ∧ ∃ x ∈ owners, x.id = oid ∧ x.fk = tcode

/-- has-one / has-many: target row `tid` carries the owner's referenced value `ocode` -/
def FkLinked (targets : List Rec) (ocode tid : Nat) : Prop := ocode ≠ 0 ∧ ∃ x ∈ targets, x.id = tid ∧ x.fk = ocode

/-! the argument records -/

/-- in-memory state of one argument of Append / Replace (has-one / has-many class): its key, its own foreign-key
    field (stale when the record was loaded while it belonged to another owner) and the owner key of a preloaded
    back-reference (belongs-to over the same foreign key), if it carries one -/
structure ArgRec where
  key : Nat
  fkField : Nat := 0
  back : Option Nat := none
  deriving DecidableEq, Repr

/-- callbacks/associations.go saveAssociations: does the nested upsert of association mode (`restricted`, no
    nested Select / Omit given) omit the targets' own associations?  Regenerated: the assignment
    `tx = tx.Omit(clause.Associations)` under `else(len(selects) > 0)`, `if restricted && len(omits) == 0` -/
def nestedOmits : Bool :=
  Gen.saveAssociationsTx.any fun e =>
    e.2 == "tx.Omit(clause.Associations)" && e.1 == ["else(len(selects) > 0)", "if restricted && len(omits) == 0"]

/-- the foreign key the nested upsert writes for argument `a` handed to owner `o`: SaveAfterAssociations sets the
    field to `o`; a nested Create that does NOT omit the argument's own associations runs SaveBeforeAssociations on it,
    whose setupReferences overwrites the field with the key of the preloaded back-reference -/
def nestedFk (omits : Bool) (o : Nat) (a : ArgRec) : Nat :=
  if omits then o else a.back.getD o

/-- the argument record after the call (assign-back): its foreign-key field holds what was written -/
def ArgRec.saved (omits : Bool) (o : Nat) (a : ArgRec) : ArgRec := { a with fkField := nestedFk omits o a }

/-- links written by the nested upsert of owner `o`'s in-memory field -/
def nestedLinks (omits : Bool) (o : Nat) (args : List ArgRec) : List (Nat × Nat) :=
  args.map fun a => (nestedFk omits o a, a.key)

/-! the zero-argument calls -/

/-- association.go Append: is the delegation to Replace of has-one / belongs-to guarded by `len(values) > 0`?
    Regenerated: the only call of Replace inside Append lies under that `if` -/
def appendGuarded : Bool :=
  Gen.assocAppendReplace == [["if association.Error == nil", "case schema.HasOne, schema.BelongsTo", "if len(values) > 0"]]

/-- one Association call as dispatched by association.go, with the guard of Append made explicit
    (`Assoc.step` is the instance `guarded = true`) -/
def call (guarded : Bool) (r : Assoc.Rel) (os : List Nat) (op : Assoc.Op) (s : Assoc.St) : Assoc.St :=
  if s.err then s else
  match op.kind with
  | .append =>
    if r.card1 then (if guarded && op.vals.isEmpty then s else Assoc.replace r os op.unscoped op.vals s)
    else Assoc.saveAssociation r false os op.vals s
  | _ => Assoc.step r os op s

end Gorm.AssocRef
