/-
  Model.Assoc — association mode (association.go) as the STATEMENTS it issues, interpreted over a link store,
  plus the in-memory updates of the operated records.

  State:
    links   : stored links (owner, target)
                belongs-to            : the fk column of the owner row      (one row per owner with a non-NULL fk)
                has-one/has-many/poly : the fk column of the target row     (one row per target with a non-NULL fk)
                many2many             : the join rows
    targets : keys of the existing target records
    next    : next database-assigned key (SQLite AUTOINCREMENT)
    mem o   : keys held by the in-memory relation field of operated record o, in field order (0 = no key yet)
    memFk o : belongs-to only: the in-memory foreign key field of operated record o (0 = nil)
  Keys are Nat, 0 = "no key" (a new record).  Values with a preset key are assumed < next (driver rejects others).
-/
import GormModel.Model.Identity
namespace Gorm.Assoc

inductive Cls | bt | fk | m2m
  deriving DecidableEq, Repr

/-- relation kind: link-store class + cardinality (has-one / belongs-to hold at most one link per owner) -/
structure Rel where
  cls : Cls
  card1 : Bool
  deriving DecidableEq, Repr

inductive OpKind | append | replace | delete | clear
  deriving DecidableEq, Repr

/-- one Association call.  vals: one value list per argument (single owner: the flattened values, `[]` = no
    argument at all; slice of owners: one list per owner; Delete: one flat list) -/
structure Op where
  kind : OpKind
  unscoped : Bool
  vals : List (List Nat)
  deriving DecidableEq, Repr

structure St where
  links : List (Nat × Nat)
  targets : List Nat
  next : Nat
  mem : Nat → List Nat
  memFk : Nat → Nat
  err : Bool := false
  log : List String := []     -- write statements of the current step: "INSERT T" | "UPDATE T" | "DELETE T" | "INSERT J" | "DELETE J" | "UPDATE O" | "DELETE O"

def upd {α} (f : Nat → α) (o : Nat) (x : α) : Nat → α := fun y => if y = o then x else f y

def St.say (s : St) (m : String) : St := { s with log := s.log ++ [m] }

/-- keys given to keyless rows by `INSERT … RETURNING` when EVERY row comes back (ON CONFLICT DO UPDATE):
    callbacks/create.go Create + scan.go Scan (update mode): i-th row -> i-th element -/
def fill : List Nat → Nat → List Nat
  | [], _ => []
  | v :: vs, n => if v = 0 then n :: fill vs (n + 1) else v :: fill vs n

def zeros (vs : List Nat) : Nat := (vs.filter (· = 0)).length

/-- keys of the rows REALLY inserted by `INSERT … ON CONFLICT DO NOTHING RETURNING id`, in VALUES order
    (elements deduplicated by non-zero key: callbacks/associations.go identityMap) -/
def inserted : List Nat → List Nat → Nat → List Nat
  | [], _, _ => []
  | v :: vs, ts, n =>
    if v = 0 then n :: inserted vs (n :: ts) (n + 1)
    else if v ∈ ts then inserted vs ts n
    else v :: inserted vs (v :: ts) n

/-- scan.go Scan with ScanOnConflictDoNothing: every element that already HAS a key is skipped as "conflicting",
    the returned row goes to the next keyless element; stops when the rows are used up -/
def backfill : List Nat → List Nat → List Nat
  | [], _ => []
  | e :: es, [] => e :: es
  | e :: es, r :: rs => if e = 0 then r :: backfill es rs else e :: backfill es (r :: rs)

/-- SaveAfterAssociations, has-one / has-many / polymorphic: the owner's WHOLE in-memory field is upserted
    `ON CONFLICT (id) DO UPDATE SET fk = excluded.fk` -/
def saveFk (o : Nat) (s : St) : St :=
  let f := fill (s.mem o) s.next
  if f = [] then s else
  { s with mem := upd s.mem o f, next := s.next + zeros (s.mem o), targets := s.targets ++ f,
           links := s.links.filter (fun p => p.2 ∉ f) ++ f.map (fun t => (o, t)),
           log := s.log ++ ["INSERT T"] }

/-- SaveAfterAssociations, many2many: targets `ON CONFLICT DO NOTHING`, then one join row per element of the WHOLE
    in-memory field `ON CONFLICT DO NOTHING` -/
def saveM2M (o : Nat) (s : St) : St :=
  let f0 := s.mem o
  if f0 = [] then s else
  let ins := inserted f0 s.targets s.next
  let f := backfill f0 ins
  { s with mem := upd s.mem o f, next := s.next + zeros f0, targets := s.targets ++ ins,
           links := s.links ++ f.map (fun t => (o, t)),
           log := s.log ++ ["INSERT T", "INSERT J"] }

/-- SaveBeforeAssociations, belongs-to: target `ON CONFLICT DO NOTHING`, setupReferences, `UPDATE owner SET fk` -/
def saveBt (o : Nat) (s : St) : St :=
  match s.mem o with
  | [] =>
    -- no in-memory record: nothing to upsert, but `Updates(owner)` with `Select(<relation>, <fk field>)` still writes the
    -- owner's IN-MEMORY foreign key (`UPDATE owners SET fk = ? WHERE id = ?`)
    { s with links := s.links.filter (fun p => p.1 ≠ o) ++ (if s.memFk o = 0 then [] else [(o, s.memFk o)]),
             log := s.log ++ ["UPDATE O"] }
  | v :: _ =>
    let id := if v = 0 then s.next else v
    { s with mem := upd s.mem o [id], memFk := upd s.memFk o id,
             next := if v = 0 then s.next + 1 else s.next, targets := s.targets ++ [id],
             links := s.links.filter (fun p => p.1 ≠ o) ++ [(o, id)],
             log := s.log ++ ["INSERT T", "UPDATE O"] }

def saveOwner (r : Rel) (o : Nat) (s : St) : St :=
  match r.cls with
  | .bt => saveBt o s
  | .fk => saveFk o s
  | .m2m => saveM2M o s

/-- association.go saveAssociation/appendToRelations: the in-memory field after the values were added -/
def appendMem (r : Rel) (clear : Bool) (o : Nat) (vs : List Nat) (s : St) : St :=
  if r.card1 then
    match vs.getLast? with
    | none => s
    | some v => { s with mem := upd s.mem o [v] }
  else { s with mem := upd s.mem o ((if clear then [] else s.mem o) ++ vs) }

/-- the "clear old data" branch of saveAssociation (no argument): empty field, zero in-memory fk (belongs-to) -/
def clearMem (r : Rel) : List Nat → St → St
  | [], s => s
  | o :: os, s =>
    clearMem r os { s with mem := upd s.mem o [], memFk := if r.cls = .bt then upd s.memFk o 0 else s.memFk }

/-- the per-owner loop of saveAssociation: appendToRelations, then `associationDB.Updates(owner)`
    (single record: one Updates after all values, and only if there was an argument) -/
def saveAll (r : Rel) (clear : Bool) : List Nat → List (List Nat) → St → St
  | o :: os, vs :: vss, s => saveAll r clear os vss (saveOwner r o (appendMem r clear o vs s))
  | _, _, s => s

def saveAssociation (r : Rel) (clear : Bool) (os : List Nat) (vals : List (List Nat)) (s : St) : St :=
  if vals = [] then (if clear then clearMem r os s else s)
  else if vals.length ≠ os.length then { s with err := true }   -- ErrInvalidValueOfLength
  else saveAll r clear os vals s

/-- keys of the caller's argument records after assign-back: the tail of each owner's field -/
def argIds : List Nat → List (List Nat) → St → List Nat
  | o :: os, vs :: vss, s => (s.mem o).drop ((s.mem o).length - vs.length) ++ argIds os vss s
  | _, _, _ => []

def nz (l : List Nat) : List Nat := l.filter (· ≠ 0)

/-- rows of the fk-class target table / join table matched by Replace's clean-up statement:
    `fk IN owners AND pk NOT IN keep` (no NOT IN at all when keep is empty) -/
def stale (os keep : List Nat) (p : Nat × Nat) : Bool := decide (p.1 ∈ os) && (keep.isEmpty || decide (p.2 ∉ keep))

/-- rows matched by Delete's statement: `fk IN owners AND pk IN named` -/
def named (os ns : List Nat) (p : Nat × Nat) : Bool := decide (p.1 ∈ os) && decide (p.2 ∈ ns)

/-- DELETE of fk-class target rows: the record and (with it) its fk column disappear -/
def deleteRows (c : Nat × Nat → Bool) (s : St) : St :=
  let gone := (s.links.filter c).map (·.2)
  { s with links := s.links.filter (fun p => !c p), targets := s.targets.filter (· ∉ gone) }

/-- schema.GetIdentityFieldValuesMap keeps ONE entry per distinct key: the owners that contribute an entry to
    `oldBelongsToExpr` are the first owner of every distinct non-zero in-memory fk -/
def firstByFk (fk : Nat → Nat) : List Nat → List Nat → List Nat
  | [], _ => []
  | o :: os, seen =>
    if fk o = 0 ∨ fk o ∈ seen then firstByFk fk os seen else o :: firstByFk fk os (fk o :: seen)

/-- association.go Replace -/
def replace (r : Rel) (os : List Nat) (uns : Bool) (vals : List (List Nat)) (s : St) : St :=
  -- `oldBelongsToExpr`: the owners whose in-memory fk is non-zero before the save (Unscoped belongs-to only)
  let oldOwners := if r.cls = .bt ∧ uns then firstByFk s.memFk os [] else []
  let s1 := saveAssociation r true os vals s
  if s1.err then s1 else
  match r.cls with
  | .bt =>
    let s2 := if vals = [] then { s1 with links := s1.links.filter (fun p => p.1 ∉ os), log := s1.log ++ ["UPDATE O"] } else s1
    if oldOwners = [] then s2
    else if vals = [] then
      -- association.DB was already used by UpdateColumns: the statement is `DELETE FROM <owners> WHERE id IN … AND target.id IN …`
      { s2 with err := true, log := s2.log ++ ["DELETE O"] }
    else
      -- the IN values alias the *uint fk fields which the save has overwritten: the NEW records are deleted
      let aimed := oldOwners.map s2.memFk
      { s2 with targets := s2.targets.filter (· ∉ aimed), log := s2.log ++ ["DELETE T"] }
  | .fk =>
    let keep := nz (os.flatMap s1.mem)
    if uns then (deleteRows (stale os keep) s1).say "DELETE T"
    else { s1 with links := s1.links.filter (fun p => !stale os keep p), log := s1.log ++ ["UPDATE T"] }
  | .m2m =>
    let keep := nz (argIds os vals s1)
    { s1 with links := s1.links.filter (fun p => !stale os keep p), log := s1.log ++ ["DELETE J"] }

/-- cleanUpDeletedRelations of association.go Delete -/
def cleanMem (r : Rel) (ns : List Nat) : List Nat → St → St
  | [], s => s
  | o :: os, s =>
    let s' :=
      if r.card1 then
        match s.mem o with
        | v :: _ => if v ∈ ns then { s with mem := upd s.mem o [], memFk := if r.cls = .bt then upd s.memFk o 0 else s.memFk } else s
        | [] => s
      else { s with mem := upd s.mem o ((s.mem o).filter (· ∉ ns)) }
    cleanMem r ns os s'

/-- association.go Delete -/
def delete (r : Rel) (os : List Nat) (uns : Bool) (ns : List Nat) (s : St) : St :=
  let s1 :=
    match r.cls with
    | .bt =>
      let s1 := { s with links := s.links.filter (fun p => !named os ns p), log := s.log ++ ["UPDATE O"] }
      -- Unscoped: `DELETE FROM target WHERE id IN (in-memory fk of EVERY owner)`, named or not
      let fvs := nz (os.map s.memFk)
      if uns ∧ fvs ≠ [] then { s1 with targets := s1.targets.filter (· ∉ fvs), log := s1.log ++ ["DELETE T"] } else s1
    | .fk =>
      if uns then (deleteRows (named os ns) s).say "DELETE T"
      else { s with links := s.links.filter (fun p => !named os ns p), log := s.log ++ ["UPDATE T"] }
    | .m2m => { s with links := s.links.filter (fun p => !named os ns p), log := s.log ++ ["DELETE J"] }
  cleanMem r ns os s1

/-- one Association call on the operated owners `os` -/
def step (r : Rel) (os : List Nat) (op : Op) (s : St) : St :=
  if s.err then s else
  match op.kind with
  | .append =>
    if r.card1 then (if op.vals = [] then s else replace r os op.unscoped op.vals s)
    else saveAssociation r false os op.vals s
  | .replace => replace r os op.unscoped op.vals s
  | .clear => replace r os op.unscoped [] s
  | .delete => delete r os op.unscoped (op.vals.headD []) s

def run (r : Rel) (os : List Nat) : List Op → St → St
  | [], s => s
  | op :: ops, s => run r os ops (step r os op s)

/-! observations -/

/-- association.go buildCondition + Find -/
def findIds (r : Rel) (os : List Nat) (s : St) : List Nat :=
  match r.cls with
  | .bt => s.targets.eraseDups.filter (fun t => t ≠ 0 ∧ t ∈ os.map s.memFk)
  | .fk => (s.links.eraseDups.filter (fun p => p.1 ∈ os)).map (·.2)
  | .m2m => (s.links.eraseDups.filter (fun p => p.1 ∈ os ∧ p.2 ∈ s.targets)).map (·.2)

def count (r : Rel) (os : List Nat) (s : St) : Nat := (findIds r os s).length

/-- distinct records (non-zero keys) held by the in-memory field of o -/
def memKeys (s : St) (o : Nat) : List Nat := (nz (s.mem o)).eraseDups

def linksOf (s : St) (o : Nat) : List Nat := ((s.links.filter (fun p => p.1 = o)).map (·.2)).eraseDups

/-! Composite primary keys: the two places of association mode that identify records through
    `utils.ToStringKey` (key tuples are lists of rendered components, `joinKey` = strings.Join(_, "_")). -/

/-- callbacks/associations.go `identityMap[cacheKey]`: the elements that are upserted are the first element of
    every distinct key STRING -/
def distinctByKey : List (List (List Char)) → List (List Char) → List (List (List Char))
  | [], _ => []
  | e :: es, seen =>
    if joinKey e ∈ seen then distinctByKey es seen else e :: distinctByKey es (joinKey e :: seen)

/-- reference: first element of every distinct key TUPLE -/
def distinctByTuple : List (List (List Char)) → List (List (List Char)) → List (List (List Char))
  | [], _ => []
  | e :: es, seen =>
    if e ∈ seen then distinctByTuple es seen else e :: distinctByTuple es (e :: seen)

/-- association.go cleanUpDeletedRelations: the in-memory elements kept by `Delete(named…)` are those whose key
    STRING is not the key string of a named record -/
def keepByKey (field named : List (List (List Char))) : List (List (List Char)) :=
  field.filter (fun e => joinKey e ∉ named.map joinKey)

/-- reference: the elements whose key TUPLE is not named -/
def keepByTuple (field named : List (List (List Char))) : List (List (List Char)) :=
  field.filter (fun e => e ∉ named)

end Gorm.Assoc
