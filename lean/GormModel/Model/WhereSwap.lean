/-
  Model.WhereSwap — which cells of the (shared) `Exprs` backing array `clause.Where.Build` assigns.
  Transcribes clause/where.go:23-41:
      if len(where.Exprs) == 1 { if andCondition, ok := where.Exprs[0].(AndConditions); ok { where.Exprs = andCondition.Exprs } }
      for idx, expr := range where.Exprs {
        if v, ok := expr.(OrConditions); !ok || len(v.Exprs) > 1 {
          if idx != 0 { where.Exprs[0], where.Exprs[idx] = where.Exprs[idx], where.Exprs[0] }
          break } }
  `where` is a value receiver, but `where.Exprs` shares its backing array with the clause stored in the handle's
  Statement.Clauses, i.e. with every statement derived from a reusable handle (Session / clone copies map entries, not arrays).
  Whether the swap assigns cells of that SHARED array (`where.Exprs[0], where.Exprs[idx] = …`, unchanged tree) or works on a
  copy (`exprs := make; copy; swap; where.Exprs = exprs`) is READ from the regenerated `Gen.whereBuildElemAssigns`
  (number of assignments to `where.Exprs[i]` in Where.Build).
  Core Lean only.
-/
import GormModel.Gen.AliasFacts
namespace Gorm.WhereSwap

/-- all that the loop inspects: is the expression an `OrConditions` with exactly one member -/
inductive EK
  | singleOr
  | other
deriving DecidableEq, Repr, Inhabited

/-- index of the first element that is not a single Or (where.go:31-32), counting from `i` -/
def firstOther : List EK → Nat → Option Nat
  | [], _ => none
  | .other :: _, i => some i
  | .singleOr :: rest, i => firstOther rest (i + 1)

/-- indices of the array that a `Build` which swaps IN PLACE assigns (where.go:34) -/
def writesInPlace (es : List EK) : List Nat :=
  match firstOther es 0 with
  | some idx => if idx = 0 then [] else [0, idx]
  | none => []

/-- REGENERATED: does `Where.Build` assign cells of `where.Exprs` (the shared array) at all? -/
def swapsInPlace : Bool := Gen.whereBuildElemAssigns != 0

/-- indices of the SHARED array that `Build` assigns: none when the swap is done on a copy -/
def writesOf (inPlace : Bool) (es : List EK) : List Nat := if inPlace then writesInPlace es else []

/-- … for the code that exists in the tree -/
def writes (es : List EK) : List Nat := writesOf swapsInPlace es

/-- the array after `Build` (swap of cells 0 and idx) -/
def swap0 {α : Type} [Inhabited α] (l : List α) (idx : Nat) : List α :=
  (l.set 0 (l.getD idx default)).set idx (l.getD 0 default)

def afterInPlace {α : Type} [Inhabited α] (kind : α → EK) (l : List α) : List α :=
  match firstOther (l.map kind) 0 with
  | some idx => if idx = 0 then l else swap0 l idx
  | none => l

/-- the caller's array after `Build`: untouched when the swap is done on a copy -/
def after {α : Type} [Inhabited α] (kind : α → EK) (l : List α) : List α :=
  if swapsInPlace then afterInPlace kind l else l

/-- an element of `where.Exprs`: a plain item, or an `AndConditions` group with its own member array -/
inductive Item
  | single (k : EK)
  | andGroup (inner : List EK)
deriving Repr, Inhabited

def kindOf : Item → EK
  | .single k => k
  | .andGroup _ => .other

/-- where.go:24-28: a lone AndConditions is unwrapped — the loop (and the swap) then works on the GROUP's member array.
  Returns (works on the inner array?, the kinds of the array the loop runs over) -/
def target : List Item → Bool × List EK
  | [.andGroup inner] => (true, inner)
  | es => (false, es.map kindOf)

end Gorm.WhereSwap
