/-
  Slice values (C02 "slice values mean IN", round 3).

  1. `mapEntryAtom` / `mapConds`: transcription of the `case map[string]interface{}` branch of statement.go
     `Statement.BuildCondition`: the keys are sorted; per key ONE comparison — `Eq{key, v}` for a scalar or nil value
     (`Eq.Build` writes `IS NULL` for nil, a nil pointer and an invalid driver.Valuer: clause/expression.go `eqNil`),
     and for a slice/array value (after `reflect.Indirect`) `IN{key, values}` where `values[i] = reflectValue.Index(i)
     .Interface()` for EVERY index i — nil elements included, nothing pulled out, no second condition.
  2. `inListVal`: REFERENCE SEMANTICS (not gorm code) of SQL `x IN (e1, …, en)` under three-valued logic with NULL
     elements; validated against SQLite on every run (suite in.sem).
-/
import GormModel.Model.Where
namespace Gorm

/-- one element of a slice value: a bound value, or something bound as NULL (untyped nil, nil pointer, invalid sql.Null*) -/
inductive Elem | val | null
deriving DecidableEq, Repr

inductive MapVal where
  | scalar                       -- any non-nil, non-slice value
  | nil                          -- untyped nil, typed nil pointer, invalid sql.Null*
  | slice (elems : List Elem)    -- slice / array / pointer to one; `driver.Valuer` slices excluded
deriving Repr

/-- `conds = append(conds, clause.Eq{Column: key, Value: v[key]})` / `clause.IN{Column: key, Values: values}` -/
def mapEntryAtom (col : String) (id : Nat) : MapVal → Atom
  | .scalar => { col := col, kind := .eq, val := .scalar, id := id }
  | .nil => { col := col, kind := .eq, val := .nil, id := id }
  | .slice es => { col := col, kind := .inK, val := .list es.length, id := id }

/-- the whole map (keys already sorted): one atom per key, in key order -/
def mapConds (entries : List (String × Nat × MapVal)) : List Atom :=
  entries.map (fun e => mapEntryAtom e.1 e.2.1 e.2.2)

def mapForm (entries : List (String × Nat × MapVal)) : Form := .fields (mapConds entries)

/-! ### reference semantics of IN with NULLs -/

/-- `a = b` in SQL; `none` = NULL -/
def eqVal : Option Int → Option Int → V3
  | some a, some b => if a = b then .t else .f
  | _, _ => .u

/-- `x IN (e1, …, en)` = `x = e1 OR … OR x = en` (Kleene); the empty list is FALSE -/
def inListVal (x : Option Int) : List (Option Int) → V3
  | [] => .f
  | e :: r => (eqVal x e).or (inListVal x r)

/-- the reading a "helpful" builder would give: NULL elements pulled out into `OR x IS NULL` -/
def inListNullPulled (x : Option Int) (es : List (Option Int)) : V3 :=
  (inListVal x (es.filter Option.isSome)).or (if x.isNone then .t else .f)

end Gorm
