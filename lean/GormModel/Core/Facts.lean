/-
  Shapes of the facts regenerated from /repo by /verif/extract (hand-written; the
  *values* live in GormModel/Gen/*.lean and are rewritten on every run).
-/
namespace Gorm

structure CallSite where
  pkg : String
  file : String
  fn : String
  fnParams : List String
  method : String
  recv : String
  ctx : String
  guards : List String
  inClosure : Bool
deriving Repr, DecidableEq

structure CbReg where
  op : String
  name : String
  matchGuard : String
  before : String
  after : String
  handler : String
  handlerExpr : String
deriving Repr, DecidableEq

structure HCall where
  kind : String
  what : String
  guards : List String
  inClosure : Bool
deriving Repr, DecidableEq

structure HandlerFact where
  name : String
  file : String
  calls : List HCall
deriving Repr, DecidableEq

structure SessionUse where
  file : String
  fn : String
  recv : String
  fields : List (String × String)
deriving Repr, DecidableEq

structure StmtLit where
  file : String
  fn : String
  fields : List (String × String)
deriving Repr, DecidableEq

structure AddVarArm where
  types : List String
  appendsVar : Nat
  bindVarTo : Nat
  recursesAddVar : Nat
  writesQuoted : Nat
  buildsExpr : Nat
  writesString : Nat
deriving Repr, DecidableEq

structure MergeFact where
  clause : String
  appendsOntoOld : Nat
  makes : Nat
  copies : Nat
  src : String
deriving Repr, DecidableEq

end Gorm
