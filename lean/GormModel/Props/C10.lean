/-
  C10 — a write touches only permitted, selected columns of exactly the targeted rows.

  Theorems over `Model/WriteSet.lean` (tied to /repo by the correspondence suites perm / sao / stmt of
  harness/c10.go on every run).  All statements quantify over every schema, every Select/Omit list and every
  value shape — no bound on the number of fields, names or rows.
-/
import GormModel.Model.WriteSet
import GormModel.Lemmas.WriteSet
import GormModel.Gen.WriteGuards
import GormModel.Gen.ValueOfFacts
import GormModel.Model.FieldZero
import GormModel.Lemmas.FieldZero
import GormModel.Model.ChainRows
import GormModel.Lemmas.ChainRows
import GormModel.Gen.WriteOrder
namespace Gorm
open Gorm.WriteSet

/-! ### every path only emits columns whose `selectColumns` entry is not `false` -/

theorem C10_map_guarded (s : Schema) (sel om : List Col) (sh : Bool) (keys : List (Col × Bool)) (c : Col)
    (h : c ∈ assignmentsOfMap s sel om sh keys) :
    (selectAndOmit s sel om false true).1.lookup c ≠ some false := by
  unfold assignmentsOfMap at h
  simp only [List.mem_append, List.mem_filterMap] at h
  rcases h with ⟨kv, _, h⟩ | h
  · split at h
    · split at h
      · split at h
        · rename_i ha; injection h with h; subst h; exact allowed_ne_false ha
        · cases h
      · cases h
    · split at h
      · rename_i ha; injection h with h; subst h; exact allowed_ne_false ha
      · cases h
  · split at h
    · cases h
    · simp only [List.mem_filterMap] at h
      rcases h with ⟨db, _, h⟩
      split at h
      · split at h
        · rename_i hc; injection h with h; subst h
          simp only [Bool.and_eq_true, bne_iff_ne, ne_eq] at hc
          exact hc.2
        · cases h
      · cases h

theorem C10_struct_guarded (s upd : Schema) (sel om : List Col) (dim sh : Bool) (nz mnz : List Col) (c : Col)
    (h : c ∈ (assignmentsOfStruct s upd sel om dim sh nz mnz).1) :
    (selectAndOmit s sel om false true).1.lookup c ≠ some false := by
  unfold assignmentsOfStruct at h
  simp only [List.mem_filterMap] at h
  rcases h with ⟨db, _, h⟩
  split at h
  · cases h
  · split at h
    · rename_i hw; injection h with h; subst h; exact (structWrites_guard hw).1
    · cases h

theorem C10_create_guarded (s : Schema) (sel om : List Col) (isSlice : Bool) (rows : List (List Col)) (c : Col)
    (h : c ∈ createColumns s sel om isSlice rows) :
    (selectAndOmit s sel om true false).1.lookup c ≠ some false := by
  unfold createColumns at h
  simp only [List.mem_append, List.mem_filterMap] at h
  rcases h with ⟨db, _, h⟩ | ⟨db, _, h⟩
  · split at h
    · cases h
    · rename_i f hf
      split at h
      · rename_i hw; injection h with h; subst h
        have := (byDBName_some hf).2.1
        rw [← this]; exact createWrites_guard hw
      · cases h
  · split at h
    · cases h
    · split at h
      · rename_i hw; injection h with h; subst h; exact createWritesDefault_guard hw
      · cases h

theorem C10_createmap_guarded (s : Schema) (sel om : List Col) (keys : List Col) (c : Col)
    (h : c ∈ createColumnsMap s sel om keys) :
    (selectAndOmit s sel om true false).1.lookup c ≠ some false := by
  unfold createColumnsMap at h
  simp only [List.mem_filterMap] at h
  rcases h with ⟨k, _, h⟩
  split at h <;> split at h
  · rename_i ha; injection h with h; subst h; exact allowed_ne_false ha
  · cases h
  · rename_i ha; injection h with h; subst h; exact allowed_ne_false ha
  · cases h

theorem C10_upsert_guarded (s : Schema) (sel om cols : List Col) (hcols : ∀ c ∈ cols, c ∈ s.dbNames) (c : Col)
    (h : c ∈ upsertAssignments s sel om cols) :
    (selectAndOmit s sel om true true).1.lookup c ≠ some false := by
  unfold upsertAssignments at h
  simp only [List.mem_append, List.mem_filterMap] at h
  have key : ∀ cf : Col × FieldSpec,
      (∃ a, a ∈ cols ∧ (match s.lookUpField a with
          | some f => if upsertKeeps (selectAndOmit s sel om true true) f = true then some (a, f) else none
          | none => none) = some cf) →
      cf.2.dbName = cf.1 ∧ (selectAndOmit s sel om true true).1.lookup cf.2.dbName ≠ some false := by
    intro cf ⟨a, ha, hm⟩
    split at hm
    · rename_i f hl
      split at hm
      · rename_i hk; injection hm with hm; subst hm
        exact ⟨lookUp_of_mem_dbNames (hcols a ha) hl, (upsertKeeps_guard hk).1⟩
      · cases hm
    · cases hm
  rcases h with ⟨cf, hcf, h⟩ | ⟨cf, hcf, h⟩
  · split at h
    · injection h with h; subst h; exact (key cf hcf).2
    · cases h
  · split at h
    · cases h
    · injection h with h; subst h
      have := key cf hcf
      rw [← this.1]; exact this.2

/-! ### NEVER DENIED -/

/-- no column of a field lacking UPDATE permission is ever in an UPDATE SET list the model computes —
    map values (`Update`, `Updates(map)`, `UpdateColumn(s)`), struct values (`Updates(struct)`,
    `UpdateColumns(struct)`, also with a differently typed value), `Save` — whatever Select/Omit say -/
theorem C10_never_denied_update (s upd : Schema) (sel om : List Col) (dim sh : Bool) (nz mnz : List Col)
    (keys : List (Col × Bool)) (f : FieldSpec) (hf : f ∈ s.fields) (hu : f.updatable = false) :
    f.key ∉ assignmentsOfMap s sel om sh keys ∧
    f.key ∉ (assignmentsOfStruct s upd sel om dim sh nz mnz).1 ∧
    f.key ∉ (saveAssignments s sel om nz).1 := by
  have hd : ∀ sel', (selectAndOmit s sel' om false true).1.lookup f.key = some false :=
    fun sel' => lookup_denied s sel' om false true f hf (by simp [denies, hu])
  refine ⟨fun h => C10_map_guarded s sel om sh keys _ h (hd sel),
          fun h => C10_struct_guarded s upd sel om dim sh nz mnz _ h (hd sel), fun h => ?_⟩
  exact C10_struct_guarded s s (saveSelects sel) om true false nz nz _ h (hd _)

/-- no column of a field lacking CREATE permission is ever in an INSERT column list the model computes
    (struct, slice / batch, map, slice of maps) -/
theorem C10_never_denied_create (s : Schema) (sel om : List Col) (isSlice : Bool) (rows : List (List Col))
    (keys : List Col) (f : FieldSpec) (hf : f ∈ s.fields) (hc : f.creatable = false) :
    f.key ∉ createColumns s sel om isSlice rows ∧
    f.key ∉ createColumnsMap s sel om keys ∧
    f.key ∉ createColumnsMaps s sel om rows := by
  have hd := lookup_denied s sel om true false f hf (by simp [denies, hc])
  refine ⟨fun h => C10_create_guarded s sel om isSlice rows _ h hd,
          fun h => C10_createmap_guarded s sel om keys _ h hd, fun h => ?_⟩
  unfold createColumnsMaps at h
  simp only [List.mem_flatMap] at h
  rcases h with ⟨r, _, h⟩
  exact C10_createmap_guarded s sel om r _ h hd

/-- no column of a field lacking CREATE or UPDATE permission is ever in the DO UPDATE SET list that
    `OnConflict{UpdateAll: true}` (also `Save` of a slice, `Save` falling back to upsert) expands to -/
theorem C10_never_denied_upsert (s : Schema) (sel om cols : List Col) (hcols : ∀ c ∈ cols, c ∈ s.dbNames)
    (f : FieldSpec) (hf : f ∈ s.fields) (h : f.creatable = false ∨ f.updatable = false) :
    f.key ∉ upsertAssignments s sel om cols := by
  have hd := lookup_denied s sel om true true f hf (by rcases h with h | h <;> simp [denies, h])
  exact fun hm => C10_upsert_guarded s sel om cols hcols _ hm hd

/-- the INSERT columns the model computes are column names of the schema (so `C10_never_denied_upsert` applies
    to the real pipeline `upsertAssignments ∘ createColumns`) -/
theorem C10_create_cols_are_dbNames (s : Schema) (sel om : List Col) (isSlice : Bool) (rows : List (List Col))
    (hwf : ∀ d ∈ s.defaultDB, d ∈ s.dbNames) : ∀ c ∈ createColumns s sel om isSlice rows, c ∈ s.dbNames := by
  intro c h
  unfold createColumns at h
  simp only [List.mem_append, List.mem_filterMap] at h
  rcases h with ⟨db, hdb, h⟩ | ⟨db, hdb, h⟩
  · split at h
    · cases h
    · split at h
      · injection h with h; subst h; exact hdb
      · cases h
  · split at h
    · cases h
    · rename_i f hf
      split at h
      · injection h with h; subst h
        rw [(byDBName_some hf).2.1]; exact hwf _ hdb
      · cases h

/-! ### WRITE SET = SPEC (one equation per path) -/

/-- STRUCT PATH (`Updates(struct)`, `UpdateColumns(struct)`, `Save`): the SET list is exactly the columns of the
    fields that are updatable, are not the primary key serving as row condition (`Dest == Model`), are not
    omitted, and are selected, or tracked update-time fields of a hook-running update, or — when no
    restricting Select is present — non-zero.  (`structRule`; Select widens to zero values, Omit removes.) -/
theorem C10_struct_spec (s : Schema) (hk : KeysDistinct s) (sel om : List Col) (dim sh : Bool) (nz mnz : List Col) :
    (assignmentsOfStruct s s sel om dim sh nz mnz).1 =
      ((s.fields.filter fun f => f.dbName != []).filter (structRule s sel om dim sh nz)).map (·.dbName) := by
  unfold assignmentsOfStruct
  simp only [Schema.dbNames, List.filterMap_map]
  rw [← filterMap_if_eq]
  apply filterMap_congr_mem
  intro f hf
  have ⟨hf1, hf2⟩ := List.mem_filter.1 hf
  have hne : f.dbName ≠ [] := by simpa using hf2
  simp only [Function.comp, lookUp_self hk hf1 hne, structWrites_eq_rule hk sel om dim sh nz hf1 hne]

/-- struct ⇒ non-zero fields: without Select/Omit a field is written iff it is updatable, not the key used as
    condition, and non-zero (or a tracked update-time field of a hook-running update) -/
theorem C10_struct_nonzero (s : Schema) (dim sh : Bool) (nz : List Col) (f : FieldSpec) :
    structRule s [] [] dim sh nz f =
      (f.updatable && !(f.primaryKey && dim) && ((!sh && f.autoUpdateTime) || nz.contains f.name)) := by
  simp [structRule, keysOf, restrictedSpec]

/-- Select widens to zero values: a selected, not omitted field is written whatever its value -/
theorem C10_select_widens (s : Schema) (sel om : List Col) (dim sh : Bool) (nz : List Col) (f : FieldSpec)
    (hs : f.dbName ∈ keysOf s sel) (ho : f.dbName ∉ keysOf s om) :
    structRule s sel om dim sh nz f = (f.updatable && !(f.primaryKey && dim)) := by
  simp [structRule, hs, ho]

/-- Select narrows: under a restricting Select an unselected, untracked field is not written even when non-zero -/
theorem C10_select_narrows (s : Schema) (sel om : List Col) (dim sh : Bool) (nz : List Col) (f : FieldSpec)
    (hr : restrictedSpec sel om = true) (hs : f.dbName ∉ keysOf s sel) (ht : (!sh && f.autoUpdateTime) = false) :
    structRule s sel om dim sh nz f = false := by
  simp only [structRule, hs, hr, ht]; simp

/-- Omit removes -/
theorem C10_omit_removes (s : Schema) (sel om : List Col) (dim sh : Bool) (nz : List Col) (f : FieldSpec)
    (ho : f.dbName ∈ keysOf s om) : structRule s sel om dim sh nz f = false := by
  simp [structRule, ho]

/-- Save ⇒ all fields: `Save(&v)` without Select/Omit writes exactly the columns of all updatable fields except
    the primary key (which is the row condition), zero values included -/
theorem C10_save_all (s : Schema) (hk : KeysDistinct s) (nz : List Col) :
    (saveAssignments s [] [] nz).1 =
      ((s.fields.filter fun f => f.dbName != []).filter fun f => f.updatable && !f.primaryKey).map (·.dbName) := by
  unfold saveAssignments
  rw [C10_struct_spec s hk]
  congr 1
  apply List.filter_congr
  intro f hf
  have ⟨hf1, hf2⟩ := List.mem_filter.1 hf
  have hne : f.dbName ≠ [] := by simpa using hf2
  have hm : f.dbName ∈ keysOf s (saveSelects []) := by
    simp only [saveSelects, keysOf, List.isEmpty_nil, if_true, List.flatMap_cons, List.flatMap_nil, List.append_nil]
    simp only [resolve, if_true]
    exact mem_dbNames.2 ⟨f, hf1, hne, rfl⟩
  have ho : f.dbName ∉ keysOf s [] := by simp [keysOf]
  simp [structRule, hm, ho]

/-- MAP PATH: every given key is written, zero values included — the model's map branch never looks at the value:
    a key that names a field with a column is in SET iff that column passes Select/Omit/permission (`allowed`),
    independently of what value it carries -/
theorem C10_map_all_keys (s : Schema) (sel om : List Col) (sh : Bool) (keys : List (Col × Bool))
    (kv : Col × Bool) (hkv : kv ∈ keys) (f : FieldSpec) (hl : s.lookUpField kv.1 = some f) (hne : f.dbName ≠ [])
    (hd : deniedKey s false true f.dbName = false) (ho : f.dbName ∉ keysOf s om)
    (hs : f.dbName ∈ keysOf s sel ∨ restrictedSpec sel om = false) :
    f.dbName ∈ assignmentsOfMap s sel om sh keys := by
  unfold assignmentsOfMap
  apply List.mem_append_left
  rw [List.mem_filterMap]
  refine ⟨kv, hkv, ?_⟩
  have ha : allowed (selectAndOmit s sel om false true) f.dbName = true := by
    rw [allowed_spec]; rcases hs with hs | hs <;> simp [hd, ho, hs]
  simp [hl, hne, ha]

/-! ### tracked update-time fields -/

/-- refreshed by every hook-running struct update / Save unless omitted (or denied / the key-as-condition) -/
theorem C10_autotime_struct (s : Schema) (hk : KeysDistinct s) (sel om : List Col) (dim : Bool) (nz mnz : List Col)
    (f : FieldSpec) (hf : f ∈ s.fields) (hne : f.dbName ≠ []) (ht : f.autoUpdateTime = true)
    (hu : f.updatable = true) (hpk : f.primaryKey = false) (ho : f.dbName ∉ keysOf s om) :
    f.dbName ∈ (assignmentsOfStruct s s sel om dim false nz mnz).1 := by
  rw [C10_struct_spec s hk, List.mem_map]
  refine ⟨f, ?_, rfl⟩
  rw [List.mem_filter, List.mem_filter]
  refine ⟨⟨hf, by simpa using hne⟩, ?_⟩
  simp [structRule, ht, hu, hpk, ho]

/-- refreshed by every hook-running map update (`Update`, `Updates(map)`) unless omitted or given explicitly -/
theorem C10_autotime_map (s : Schema) (hk : KeysDistinct s) (sel om : List Col) (keys : List (Col × Bool))
    (f : FieldSpec) (hf : f ∈ s.fields) (hne : f.dbName ≠ []) (ht : f.autoUpdateTime = true)
    (hu : f.updatable = true) (ho : f.dbName ∉ keysOf s om)
    (hn1 : valueNil keys f.name = true) (hn2 : valueNil keys f.dbName = true) :
    f.dbName ∈ assignmentsOfMap s sel om false keys := by
  unfold assignmentsOfMap
  apply List.mem_append_right
  simp only [Bool.false_eq_true, if_false, List.mem_filterMap]
  refine ⟨f.dbName, mem_dbNames.2 ⟨f, hf, hne, rfl⟩, ?_⟩
  have hd : deniedKey s false true f.dbName = false := by
    rw [← key_of_hasCol hne, deniedKey_self hk false true hf]; simp [denies, hu]
  have hl : (selectAndOmit s sel om false true).1.lookup f.dbName ≠ some false := by
    rw [selectAndOmit_lookup]; simp only [hd, ho]
    by_cases h : f.dbName ∈ keysOf s sel <;> simp [h]
  simp [lookUp_self hk hf hne, ht, hn1, hn2, hl]

/-- never by the column-update methods unless given explicitly: with `SkipHooks` (`UpdateColumn(s)`) a tracked
    field is in SET only if it is selected or its value in the struct is non-zero … -/
theorem C10_autotime_updatecolumns_struct (s : Schema) (hk : KeysDistinct s) (sel om : List Col) (dim : Bool)
    (nz mnz : List Col) (f : FieldSpec) (hf : f ∈ s.fields)
    (hm : f.dbName ∈ (assignmentsOfStruct s s sel om dim true nz mnz).1) (hne : f.dbName ≠ []) :
    f.dbName ∈ keysOf s sel ∨ nz.contains f.name = true := by
  rw [C10_struct_spec s hk, List.mem_map] at hm
  rcases hm with ⟨g, hg, hgf⟩
  rw [List.mem_filter, List.mem_filter] at hg
  have hgne : g.dbName ≠ [] := by simpa using hg.1.2
  have : g = f := hk g hg.1.1 f hf (by rw [key_of_hasCol hgne, key_of_hasCol hne, hgf])
  subst this
  have hr := hg.2
  simp only [structRule, Bool.not_true, Bool.false_and, Bool.or_false, Bool.and_eq_true, Bool.or_eq_true,
    decide_eq_true_eq] at hr
  rcases hr.2 with h | h
  · exact Or.inl h
  · exact Or.inr h.2

/-- … and with a map only if the map itself names it: the auto-update-time block contributes nothing -/
theorem C10_autotime_updatecolumns_map (s : Schema) (sel om : List Col) (keys : List (Col × Bool)) (c : Col)
    (hm : c ∈ assignmentsOfMap s sel om true keys) :
    ∃ kv ∈ keys, (match s.lookUpField kv.1 with
      | some f => f.dbName = c
      | none => kv.1 = c) := by
  unfold assignmentsOfMap at hm
  simp only [if_true, List.append_nil, List.mem_filterMap] at hm
  rcases hm with ⟨kv, hkv, h⟩
  refine ⟨kv, hkv, ?_⟩
  cases hl : s.lookUpField kv.1 with
  | none =>
    rw [hl] at h
    simp only at h ⊢
    split at h
    · injection h
    · cases h
  | some f =>
    rw [hl] at h
    simp only at h ⊢
    split at h
    · split at h
      · injection h
      · cases h
    · cases h

/-! ### the primary key as row condition -/

/-- when the updating value is the model itself (`Save(&v)`, `Model(&v).Updates(&v)`) the primary key is never in
    SET — it is the row condition (`C10_pk_is_condition`) -/
theorem C10_pk_not_in_set (s : Schema) (hk : KeysDistinct s) (sel om : List Col) (sh : Bool) (nz mnz : List Col)
    (f : FieldSpec) (hf : f ∈ s.fields) (hne : f.dbName ≠ []) (hpk : f.primaryKey = true) :
    f.dbName ∉ (assignmentsOfStruct s s sel om true sh nz mnz).1 := by
  intro hm
  rw [C10_struct_spec s hk, List.mem_map] at hm
  rcases hm with ⟨g, hg, hgf⟩
  rw [List.mem_filter, List.mem_filter] at hg
  have hgne : g.dbName ≠ [] := by simpa using hg.1.2
  have : g = f := hk g hg.1.1 f hf (by rw [key_of_hasCol hgne, key_of_hasCol hne, hgf])
  subst this
  have hr := hg.2
  simp [structRule, hpk] at hr

theorem C10_pk_is_condition (s : Schema) (hk : KeysDistinct s) (sel om : List Col) (sh : Bool) (nz mnz : List Col)
    (f : FieldSpec) (hf : f ∈ s.fields) (hne : f.dbName ≠ []) (hpk : f.primaryKey = true)
    (hnz : nz.contains f.name = true) :
    f.dbName ∈ (assignmentsOfStruct s s sel om true sh nz mnz).2 := by
  unfold assignmentsOfStruct
  simp only [if_true, List.mem_filterMap]
  have hnz' : f.name ∈ nz := by simpa using hnz
  exact ⟨f.dbName, mem_dbNames.2 ⟨f, hf, hne, rfl⟩, by simp [lookUp_self hk hf hne, hpk, hnz']⟩

/-! ### exactly the targeted rows: `Save` and the chain's conditions (finding F18) -/

/-- FINDING F18 (counterexample, kernel-checked): `Where(cond).Save(&v)` writes the existing row carrying v's key
    although that row does not satisfy `cond` (0-row UPDATE ⇒ upsert fallback ignores the conditions) -/
theorem C10_save_rows_counterexample : saveWritesRow true false false = true := by decide

/-- outside the pattern of F18 (the row satisfies the conditions, or a Select is present, or no such row exists)
    `Save` writes the row carrying the key only if it exists and satisfies the chain's conditions -/
theorem C10_save_rows_partial (rowExists condHolds selectedUpdate : Bool)
    (hpat : ¬ (rowExists = true ∧ condHolds = false ∧ selectedUpdate = false))
    (hw : saveWritesRow rowExists condHolds selectedUpdate = true) : rowExists = true ∧ condHolds = true := by
  revert hpat hw
  cases rowExists <;> cases condHolds <;> cases selectedUpdate <;> simp [saveWritesRow]

/-! ### exactly the targeted rows: the key condition carries EVERY non-zero primary field (all key shapes) -/

/-- `Model(&m).Update / Updates / UpdateColumn(s)`: every primary field (however many there are, whatever their
    names — not just the prioritized one) that is non-zero in the model value is an equality of the WHERE -/
theorem C10_key_every_member (s : Schema) (nz : List Col) (f : FieldSpec) (hf : f ∈ s.fields)
    (hpk : f.primaryKey = true) (hne : f.dbName ≠ []) (hnz : nz.contains f.name = true) :
    f.dbName ∈ modelConds s nz := by
  unfold modelConds
  rw [List.mem_map]
  have hm : f.name ∈ nz := by simpa using hnz
  exact ⟨f, List.mem_filter.2 ⟨hf, by simp [hpk, hne, hm]⟩, rfl⟩

/-- … and nothing else is: a key condition column is the column of a non-zero primary field -/
theorem C10_key_only_members (s : Schema) (nz : List Col) (c : Col) (h : c ∈ modelConds s nz) :
    ∃ f ∈ s.fields, f.primaryKey = true ∧ f.dbName ≠ [] ∧ f.dbName = c ∧ nz.contains f.name = true := by
  unfold modelConds at h
  rw [List.mem_map] at h
  rcases h with ⟨f, hf, rfl⟩
  have ⟨h1, h2⟩ := List.mem_filter.1 hf
  simp only [Bool.and_eq_true, bne_iff_ne, ne_eq] at h2
  exact ⟨f, h1, h2.1.1, h2.1.2, rfl, h2.2⟩

theorem matchesKey_iff (conds : List Col) (key row : RowV) :
    matchesKey conds key row = true ↔ ∀ c ∈ conds, row c = key c := by
  simp [matchesKey, List.all_eq_true]

/-- ROWS: a row satisfies the key condition of `Model(&m).Update…` iff it agrees with the model value on EVERY
    primary field the model value gives non-zero -/
theorem C10_rows_exact (s : Schema) (nz : List Col) (key row : RowV) :
    matchesKey (modelConds s nz) key row = true ↔
      ∀ f ∈ s.fields, f.primaryKey = true → f.dbName ≠ [] → nz.contains f.name = true →
        row f.dbName = key f.dbName := by
  rw [matchesKey_iff]
  constructor
  · intro h f hf hpk hne hnz
    exact h _ (C10_key_every_member s nz f hf hpk hne hnz)
  · intro h c hc
    rcases C10_key_only_members s nz c hc with ⟨f, hf, hpk, hne, rfl, hnz⟩
    exact h f hf hpk hne hnz

/-- a SIBLING row — same `ID`, other `Locale` — is not hit: differing from the model value in one non-zero key
    component is enough to be outside the WHERE -/
theorem C10_sibling_untouched (s : Schema) (nz : List Col) (key row : RowV) (f : FieldSpec) (hf : f ∈ s.fields)
    (hpk : f.primaryKey = true) (hne : f.dbName ≠ []) (hnz : nz.contains f.name = true)
    (hd : row f.dbName ≠ key f.dbName) : matchesKey (modelConds s nz) key row = false := by
  cases h : matchesKey (modelConds s nz) key row with
  | false => rfl
  | true => exact absurd ((C10_rows_exact s nz key row).1 h f hf hpk hne hnz) hd

/-- key given through the updated value itself (`Save(&v)`, `Model(&v).Updates(&v)`): the field loop of
    `ConvertToAssignments` adds exactly the same condition columns as the model-value block -/
theorem C10_self_conds_eq (s : Schema) (hk : KeysDistinct s) (sel om : List Col) (sh : Bool) (nz mnz : List Col) :
    (assignmentsOfStruct s s sel om true sh nz mnz).2 = modelConds s nz := by
  unfold assignmentsOfStruct modelConds
  simp only [if_true, Schema.dbNames, List.filterMap_map]
  apply Eq.trans (filterMap_congr_mem _ _
    (fun f : FieldSpec => if (f.primaryKey && nz.contains f.name) = true then some f.dbName else none) ?_)
  · rw [filterMap_if_eq, List.filter_filter]
    congr 1
    apply List.filter_congr
    intro f _
    cases f.primaryKey <;> cases (f.dbName != []) <;> cases nz.contains f.name <;> rfl
  · intro f hf
    have ⟨hf1, hf2⟩ := List.mem_filter.1 hf
    have hne : f.dbName ≠ [] := by simpa using hf2
    simp only [Function.comp, lookUp_self hk hf1 hne]

theorem C10_rows_exact_self (s : Schema) (hk : KeysDistinct s) (sel om : List Col) (sh : Bool) (nz mnz : List Col)
    (key row : RowV) :
    matchesKey (assignmentsOfStruct s s sel om true sh nz mnz).2 key row = true ↔
      ∀ f ∈ s.fields, f.primaryKey = true → f.dbName ≠ [] → nz.contains f.name = true →
        row f.dbName = key f.dbName := by
  rw [C10_self_conds_eq s hk, C10_rows_exact]

/-- key given through `Delete(&v)`: as soon as ONE component is non-zero the WHERE constrains EVERY primary
    column (one tuple over the whole key) — a row is deleted only if it agrees on the whole key -/
theorem C10_delete_rows_exact (s : Schema) (nz : List Col) (key row : RowV)
    (hsome : s.primaryFields.any (fun f => nz.contains f.name) = true) :
    matchesKey (identityConds s nz) key row = true ↔
      ∀ f ∈ s.fields, f.primaryKey = true → f.dbName ≠ [] → row f.dbName = key f.dbName := by
  rw [matchesKey_iff]
  unfold identityConds
  rw [if_pos hsome]
  simp only [Schema.primaryDBNames, Schema.primaryFields, List.mem_map, List.mem_filter,
    Bool.and_eq_true, bne_iff_ne, ne_eq]
  constructor
  · intro h f hf hpk hne
    exact h _ ⟨f, ⟨hf, hpk, hne⟩, rfl⟩
  · rintro h c ⟨f, ⟨hf, hpk, hne⟩, rfl⟩
    exact h f hf hpk hne

/-- … and when every component is zero no key condition is added at all (the statement then needs chain
    conditions, C09) -/
theorem C10_delete_zero_key (s : Schema) (nz : List Col)
    (hnone : s.primaryFields.any (fun f => nz.contains f.name) = false) : identityConds s nz = [] := by
  unfold identityConds
  rw [hnone]
  rfl

/-- upsert (`OnConflict{UpdateAll}`, `Save(slice)`, Save's fallback): the conflict target gorm fills in is the
    WHOLE key, every member of it — so `DO UPDATE` only ever overwrites the row carrying the full key -/
theorem C10_upsert_conflict_full_key (s : Schema) (cols : List Col) (hc : cols ≠ []) (f : FieldSpec)
    (hf : f ∈ s.fields) (hpk : f.primaryKey = true) (hne : f.dbName ≠ []) :
    f.dbName ∈ conflictColumns s cols ∧ conflictColumns s cols = s.primaryDBNames := by
  have he : cols.isEmpty = false := by cases cols <;> simp_all
  simp only [conflictColumns, he, Bool.false_eq_true, if_false, Schema.primaryDBNames, Schema.primaryFields,
    List.mem_map, List.mem_filter, Bool.and_eq_true, bne_iff_ne, ne_eq, and_true]
  exact ⟨f, ⟨hf, hpk, hne⟩, rfl⟩

/-- `selectRows` returns exactly the positions of the rows satisfying the key condition -/
theorem C10_selectRows_spec (conds : List Col) (key : RowV) (rows : List RowV) (i n : Nat) :
    n ∈ selectRows conds key i rows ↔ ∃ j r, n = i + j ∧ rows[j]? = some r ∧ matchesKey conds key r = true := by
  induction rows generalizing i with
  | nil => simp [selectRows]
  | cons r rs ih =>
    simp only [selectRows, List.mem_append, ih]
    constructor
    · rintro (h | ⟨j, r', rfl, hj, hm⟩)
      · by_cases hm : matchesKey conds key r = true
        · simp only [hm, if_true, List.mem_singleton] at h
          exact ⟨0, r, by omega, by simp, hm⟩
        · simp [hm] at h
      · exact ⟨j + 1, r', by omega, by simpa using hj, hm⟩
    · rintro ⟨j, r', rfl, hj, hm⟩
      cases j with
      | zero =>
        simp only [List.getElem?_cons_zero, Option.some.injEq] at hj
        subst hj
        left; simp [hm]
      | succ j =>
        right
        exact ⟨j, r', by omega, by simpa using hj, hm⟩

/-! ### writes WITHOUT a schema (`db.Table("t")` + map, no model) — "Select/Omit narrow or widen these sets" must hold
    whether or not a schema is known -/

/-- without a schema EVERY non-empty Select list restricts the write: `SelectAndOmitColumns` reports
    `restricted = len(Selects) > 0` (no early "not restricted" exit, no `*` arm) -/
theorem C10_noschema_restricted (sel om : List Col) (rc ru : Bool) :
    (selectAndOmitO none sel om rc ru).2 = !sel.isEmpty ∧
    ∀ c, (selectAndOmitO none sel om rc ru).1.lookup c =
      if c ∈ om then some false else if c ∈ sel then some true else none :=
  ⟨selectAndOmitO_none_restricted sel om rc ru, selectAndOmitO_none_lookup sel om rc ru⟩

/-- schema-less `Table(t).Updates(map)` / `Update` / `UpdateColumn(s)`: the SET list is EXACTLY the given keys
    (zero / nil values included, in `sort.Strings` order) that are not omitted and — when a Select list is present —
    are selected; nothing is added (no tracked column is known), hooks or not -/
theorem C10_noschema_map_exact (sel om : List Col) (sh : Bool) (keys : List (Col × Bool)) :
    assignmentsOfMapO none sel om sh keys =
      (keys.map (·.1)).filter fun k => !decide (k ∈ om) && (decide (k ∈ sel) || sel.isEmpty) := by
  unfold assignmentsOfMapO
  simp only [allowedO_none_spec]
  induction keys with
  | nil => rfl
  | cons kv t ih =>
    simp only [List.filterMap_cons, List.map_cons, List.filter_cons, ih]
    by_cases hp : (!decide (kv.1 ∈ om) && (decide (kv.1 ∈ sel) || sel.isEmpty)) = true
    · simp only [hp, if_true]
    · simp only [hp, if_false]; rfl

/-- schema-less `Table(t).Create(map)`: the INSERT column list is exactly the given keys passing Select/Omit -/
theorem C10_noschema_create_exact (sel om : List Col) (keys : List Col) :
    createColumnsMapO none sel om keys =
      keys.filter fun k => !decide (k ∈ om) && (decide (k ∈ sel) || sel.isEmpty) := by
  unfold createColumnsMapO
  simp only [allowedO_none_spec]

/-- … and for a slice of maps every accepted column of every row passes the same test -/
theorem C10_noschema_create_maps (sel om : List Col) (rows : List (List Col)) (c : Col)
    (h : c ∈ createColumnsMapsO none sel om rows) :
    c ∉ om ∧ (c ∈ sel ∨ sel = []) ∧ ∃ r ∈ rows, c ∈ r := by
  unfold createColumnsMapsO at h
  simp only [List.mem_flatMap] at h
  rcases h with ⟨r, hr, h⟩
  rw [C10_noschema_create_exact, List.mem_filter] at h
  have h2 := h.2
  simp only [Bool.and_eq_true, Bool.not_eq_true', decide_eq_false_iff_not, Bool.or_eq_true, decide_eq_true_eq,
    List.isEmpty_iff] at h2
  exact ⟨h2.1, h2.2, r, hr, h.1⟩

/-- SELECT NARROWS, schema known or not, every map update path: under a restricting Select a column of the SET list
    is named by the Select list (as `processColumn` resolves it) — or it is a tracked update-time column of a
    hook-running update on a statement that has a schema -/
theorem C10_select_narrows_any (o : Option Schema) (sel om : List Col) (sh : Bool) (keys : List (Col × Bool)) (c : Col)
    (hr : (selectAndOmitO o sel om false true).2 = true)
    (h : c ∈ assignmentsOfMapO o sel om sh keys) :
    (c ∈ keysOfO o sel ∧ c ∉ keysOfO o om) ∨
      (sh = false ∧ ∃ s f, o = some s ∧ f ∈ s.fields ∧ f.autoUpdateTime = true ∧ f.dbName = c) := by
  cases o with
  | none =>
    left
    rw [C10_noschema_map_exact, List.mem_filter] at h
    rw [selectAndOmitO_none_restricted] at hr
    have h2 := h.2
    simp only [Bool.and_eq_true, Bool.not_eq_true', decide_eq_false_iff_not, Bool.or_eq_true,
      decide_eq_true_eq] at h2
    rw [keysOfO_none, keysOfO_none]
    rcases h2.2 with h3 | h3
    · exact ⟨h3, h2.1⟩
    · rw [h3] at hr; cases hr
  | some s =>
    rw [selectAndOmitO_some] at hr
    simp only [assignmentsOfMapO] at h
    unfold assignmentsOfMap at h
    simp only [List.mem_append, List.mem_filterMap] at h
    rcases h with ⟨kv, _, h⟩ | h
    · left
      rw [keysOfO_some, keysOfO_some]
      split at h
      · split at h
        · split at h
          · rename_i ha; injection h with h; subst h; exact lookup_true_selected (allowed_restricted ha hr)
          · cases h
        · cases h
      · split at h
        · rename_i ha; injection h with h; subst h; exact lookup_true_selected (allowed_restricted ha hr)
        · cases h
    · right
      split at h
      · cases h
      · rename_i hsh
        simp only [List.mem_filterMap] at h
        rcases h with ⟨db, _, h⟩
        split at h
        · rename_i f hl
          split at h
          · rename_i hc; injection h with h
            simp only [Bool.and_eq_true] at hc
            exact ⟨by simpa using hsh, s, f, rfl, lookUpField_mem hl, hc.1.1.1, h⟩
          · cases h
        · cases h

/-- OMIT REMOVES, schema known or not: a column named by the Omit list is never in the SET list of a map update
    nor in the INSERT column list of a map create -/
theorem C10_omit_removes_any (o : Option Schema) (sel om : List Col) (sh : Bool) (keys : List (Col × Bool))
    (ckeys : List Col) (c : Col) (ho : c ∈ keysOfO o om) :
    c ∉ assignmentsOfMapO o sel om sh keys ∧ c ∉ createColumnsMapO o sel om ckeys := by
  cases o with
  | none =>
    rw [keysOfO_none] at ho
    rw [C10_noschema_map_exact, C10_noschema_create_exact]
    constructor <;> (intro h; rw [List.mem_filter] at h; simp [ho] at h)
  | some s =>
    rw [keysOfO_some] at ho
    have hl : ∀ rc ru, (selectAndOmit s sel om rc ru).1.lookup c = some false := by
      intro rc ru
      rw [selectAndOmit_lookup]
      by_cases hd : deniedKey s rc ru c = true <;> simp [hd, ho]
    exact ⟨fun h => C10_map_guarded s sel om sh keys c h (hl false true),
           fun h => C10_createmap_guarded s sel om ckeys c h (hl true false)⟩

/-- SELECT NARROWS on map creates, schema known or not -/
theorem C10_select_narrows_create_any (o : Option Schema) (sel om : List Col) (keys : List Col) (c : Col)
    (hr : (selectAndOmitO o sel om true false).2 = true)
    (h : c ∈ createColumnsMapO o sel om keys) : c ∈ keysOfO o sel ∧ c ∉ keysOfO o om := by
  cases o with
  | none =>
    rw [C10_noschema_create_exact, List.mem_filter] at h
    rw [selectAndOmitO_none_restricted] at hr
    have h2 := h.2
    simp only [Bool.and_eq_true, Bool.not_eq_true', decide_eq_false_iff_not, Bool.or_eq_true,
      decide_eq_true_eq] at h2
    rw [keysOfO_none, keysOfO_none]
    rcases h2.2 with h3 | h3
    · exact ⟨h3, h2.1⟩
    · rw [h3] at hr; cases hr
  | some s =>
    rw [selectAndOmitO_some] at hr
    simp only [createColumnsMapO] at h
    unfold createColumnsMap at h
    simp only [List.mem_filterMap] at h
    rcases h with ⟨k, _, h⟩
    rw [keysOfO_some, keysOfO_some]
    split at h <;> split at h
    · rename_i ha; injection h with h; subst h; exact lookup_true_selected (allowed_restricted ha hr)
    · cases h
    · rename_i ha; injection h with h; subst h; exact lookup_true_selected (allowed_restricted ha hr)
    · cases h

/-- a schema-less write never carries a key condition of its own (no model value, no identity lookup) and never
    expands `UpdateAll`: the rows hit are those of the chain's conditions only -/
theorem C10_noschema_no_own_conditions (mnz nz : List Col) (hm : Bool) (sel om cols : List Col) :
    modelCondsO none mnz = [] ∧ deleteCondsO none nz mnz hm = [] ∧ upsertAssignmentsO none sel om cols = [] :=
  ⟨rfl, rfl, rfl⟩

/-- `Table("t").Select("name").Updates(map{age, name})` → `SET name`; with Omit("name") → `SET age`; no Select → both -/
example : assignmentsOfMapO none ["name".toList] [] false [("age".toList, false), ("name".toList, false)] = ["name".toList] ∧
    assignmentsOfMapO none [] ["name".toList] false [("age".toList, false), ("name".toList, false)] = ["age".toList] ∧
    assignmentsOfMapO none [] [] true [("age".toList, false), ("name".toList, true)] = ["age".toList, "name".toList] ∧
    createColumnsMapO none ["name".toList] [] ["age".toList, "name".toList] = ["name".toList] ∧
    (selectAndOmitO none [star] [] false true).2 = true := by decide

/-! ### regenerated facts (extract/gen_c10.go → Gen/WriteGuards.lean): the code still has the shape the model transcribes -/

/-- `Statement.SelectAndOmitColumns` has ONE exit, which computes `restricted` as `!notRestricted && len(Selects) > 0`
    (`selectAndOmit(O)`'s last line); `notRestricted` starts `false` and is only written by the `*` arm; processColumn
    tests `stmt.Schema == nil` FIRST (`processColumnO`) and has the six arms of `resolve`; the permission loop is the
    only other place looking at the schema -/
theorem C10_gen_sao_shape :
    Gen.WriteGuards.saoReturns = ["results, !notRestricted && len(stmt.Selects) > 0"] ∧
    Gen.WriteGuards.saoArms = ["stmt.Schema == nil", "column == \"*\"", "column == clause.Associations",
      "field := stmt.Schema.LookUpField(column); field != nil && field.DBName != \"\"",
      "table, col := matchName(column); col != \"\" && (table == stmt.Table || table == \"\")", "else"] ∧
    Gen.WriteGuards.saoFlagWrites = [("", "notRestricted := false"), ("column == \"*\"", "notRestricted = result")] ∧
    Gen.WriteGuards.saoSchemaGuards = ["stmt.Schema == nil", "stmt.Schema != nil"] := by decide

/-- the admission forms the model transcribes: `allowed` · the map branch's auto-update-time test (`lookup ≠ some false`) ·
    `structWrites`' guard · `createWrites` · `createWritesDefault` (struct) -/
def admissionForms : List String := [
  "(ok && v) || (!ok && !restricted)",
  "(ok && v) || !ok",
  "(ok && v) || (!ok && (!restricted || (!stmt.SkipHooks && field.AutoUpdateTime > 0)))",
  "(ok && v) || (!ok && (!restricted || field.AutoCreateTime > 0 || field.AutoUpdateTime > 0))",
  "(ok && v) || (!ok && !restricted) && field.DefaultValueInterface == nil"]

/-- every `if v, ok := selectColumns[…]; cond` of the write path (ConvertToAssignments, ConvertToCreateValues, the two
    map-create helpers) admits a column by one of these forms, site by site as the model functions have them; and each
    path asks `SelectAndOmitColumns` with ITS (requireCreate, requireUpdate) pair -/
theorem C10_gen_admission :
    (∀ t ∈ Gen.WriteGuards.admissionTests, t.2.2 ∈ admissionForms) ∧
    Gen.WriteGuards.admissionTests.map (fun t => (t.1, t.2.2)) = [
      ("ConvertToCreateValues", admissionForms[3]), ("ConvertToCreateValues", admissionForms[0]),
      ("ConvertToCreateValues", admissionForms[4]), ("ConvertToCreateValues", admissionForms[0]),
      ("ConvertMapToValuesForCreate", admissionForms[0]), ("ConvertSliceOfMapToValuesForCreate", admissionForms[0]),
      ("ConvertToAssignments", admissionForms[0]), ("ConvertToAssignments", admissionForms[0]),
      ("ConvertToAssignments", admissionForms[0]), ("ConvertToAssignments", admissionForms[1]),
      ("ConvertToAssignments", admissionForms[2])] ∧
    Gen.WriteGuards.saoCallers = [("ConvertToCreateValues", "true, false"), ("ConvertToCreateValues", "true, true"),
      ("ConvertMapToValuesForCreate", "true, false"), ("ConvertSliceOfMapToValuesForCreate", "true, false"),
      ("ConvertToAssignments", "false, true")] := by decide

/-! ### non-vacuity and concrete instances (kernel-evaluated) -/

def exSchema : Schema :=
  { table := "t".toList,
    fields := [
      ⟨"ID".toList, "id".toList, true, true, true, true, false, false, true, false, false⟩,
      ⟨"Name".toList, "name".toList, false, true, true, true, false, false, false, false, false⟩,
      ⟨"NoUpd".toList, "no_upd".toList, false, true, false, true, false, false, false, false, false⟩,
      ⟨"Ign".toList, [], false, false, false, false, false, false, false, false, false⟩,
      ⟨"UpdatedAt".toList, "updated_at".toList, false, true, true, true, false, true, false, false, false⟩],
    rels := [], defaultDB := ["id".toList] }

example : KeysDistinct exSchema := by
  intro f hf g hg h
  simp only [exSchema, List.mem_cons, List.not_mem_nil, or_false] at hf hg
  rcases hf with rfl | rfl | rfl | rfl | rfl <;> rcases hg with rfl | rfl | rfl | rfl | rfl <;>
    first | rfl | (exfalso; revert h; decide)

/-- `Model(&T{ID:1}).Select("NoUpd","Name").Updates(T{Name:"x", NoUpd:3})` → `SET name, updated_at WHERE id` -/
example : assignmentsOfStruct exSchema exSchema ["NoUpd".toList, "Name".toList] [] false false
    ["Name".toList, "NoUpd".toList] ["ID".toList] = (["name".toList, "updated_at".toList], ["id".toList]) := by decide

/-- `Model(&T{ID:1}).UpdateColumn("no_upd", 1)` writes nothing; `Update("no_upd", 1)` only refreshes `updated_at` -/
example : assignmentsOfMap exSchema [] [] true [("no_upd".toList, false)] = [] ∧
    assignmentsOfMap exSchema [] [] false [("no_upd".toList, false)] = ["updated_at".toList] := by decide

/-- composite key `ID` + `Locale` (ID is the prioritized field): `Model(&T{ID:1, Locale:"en"}).Update(…)` →
    `WHERE id = ? AND locale = ?`; the sibling row (1, "zh") is not hit, the row (1, "en") is -/
def exComposite : Schema :=
  { table := "t".toList,
    fields := [
      ⟨"ID".toList, "id".toList, true, true, true, true, false, false, true, false, false⟩,
      ⟨"Locale".toList, "locale".toList, true, true, true, true, false, false, false, false, false⟩,
      ⟨"Text".toList, "text".toList, false, true, true, true, false, false, false, false, false⟩],
    rels := [], defaultDB := ["id".toList] }

example : modelConds exComposite ["ID".toList, "Locale".toList] = ["id".toList, "locale".toList] ∧
    modelConds exComposite ["ID".toList] = ["id".toList] ∧
    identityConds exComposite ["ID".toList] = ["id".toList, "locale".toList] ∧
    identityConds exComposite [] = [] ∧
    conflictColumns exComposite ["text".toList] = ["id".toList, "locale".toList] := by decide

example : selectRows (modelConds exComposite ["ID".toList, "Locale".toList])
    (rowOf [("id".toList, "1".toList), ("locale".toList, "en".toList)]) 0
    [rowOf [("id".toList, "1".toList), ("locale".toList, "en".toList)],
     rowOf [("id".toList, "1".toList), ("locale".toList, "zh".toList)],
     rowOf [("id".toList, "2".toList), ("locale".toList, "en".toList)]] = [0] := by decide

example : permOfTags [("<-".toList, "create".toList)] = ⟨true, false, true, false⟩ ∧
    permOfTags [("->".toList, "->".toList)] = ⟨false, false, true, false⟩ ∧
    permOfTags [("-".toList, "-".toList)] = ⟨false, false, false, false⟩ ∧
    permOfTags [("->".toList, "false".toList), ("<-".toList, "create".toList)] = ⟨true, false, false, false⟩ := by decide

example : matchName "`t`.`name`".toList = ("t".toList, "name".toList) ∧ matchName "t.*".toList = ("t".toList, star) ∧
    matchName "name desc".toList = ([], []) := by decide


/-! ### Round 5 — FIELD KINDS: what "non-zero field" means for every kind of field (`Model/FieldZero.lean`)

`field.ValueOf` decides zero-ness: index path (plain / value-embedded / POINTER-embedded) + `reflect.IsZero` of the Go
kind + the serializer wrapper.  Tied to the real `field.ValueOf` by the `zero` suite and to the real statements by
`stmt-kinds` (harness/c10_kinds.go). -/
section Kinds
open Gorm.FieldZero

/-- the per-kind zero test: nil pointers / slices / maps / interfaces are zero; a pointer is non-zero WHATEVER it points
    to (pointer to 0, to ""), a non-nil slice or map is non-zero even when EMPTY; scalars compare with their zero. -/
theorem C10_kind_zero_table :
    (∀ v, (GoVal.ptr v).isZero = false) ∧ (∀ n, (GoVal.slice n).isZero = false) ∧ (∀ n, (GoVal.map n).isZero = false) ∧
    GoVal.nilPtr.isZero = true ∧ GoVal.nilSlice.isZero = true ∧ GoVal.nilMap.isZero = true ∧ GoVal.nilIface.isZero = true ∧
    (∀ s, (GoVal.str s).isZero = s.isEmpty) ∧ (∀ i, (GoVal.int i).isZero = (i == 0)) ∧
    (∀ n, (GoVal.uint n).isZero = (n == 0)) ∧ (∀ b, (GoVal.bool b).isZero = !b) := by
  simp [GoVal.isZero]

/-- struct kinds (time.Time, sql.Null*, Valuer structs) and array kinds are zero iff EVERY component is zero -/
theorem C10_kind_struct_zero (fs : List GoVal) :
    (GoVal.struct fs).isZero = fs.all GoVal.isZero ∧ (GoVal.array fs).isZero = fs.all GoVal.isZero :=
  ⟨struct_isZero fs, array_isZero fs⟩

/-- one non-zero component makes the value non-zero: `sql.NullString{String: "x", Valid: false}`, `[2]int{0, 1}`,
    `sql.NullInt64{Int64: 0, Valid: true}` are all written by a struct update -/
theorem C10_kind_struct_nonzero (fs : List GoVal) (x : GoVal) (hx : x ∈ fs) (h : x.isZero = false) :
    (GoVal.struct fs).isZero = false ∧ (GoVal.array fs).isZero = false := by
  have : fs.all GoVal.isZero = false := by
    cases hall : fs.all GoVal.isZero with
    | false => rfl
    | true => rw [List.all_eq_true.1 hall x hx] at h; cases h
  exact ⟨by rw [struct_isZero, this], by rw [array_isZero, this]⟩

/-- SERIALIZER-backed fields (json / gob / unixtime / custom): the wrapper hands on the zero flag of the Go value — the
    flag does not depend on whether the field has a serializer -/
theorem C10_serializer_zero_passthrough (a : Access) (r : GoVal) :
    valueOfZero a r = rawZero a.path r ∧
    valueOfZero { a with serializer := true } r = valueOfZero { a with serializer := false } r := by
  constructor
  · unfold valueOfZero serializerWrap; split <;> rfl
  · simp [valueOfZero, serializerWrap]

/-- POINTER-embedded struct: when the pointer is nil every field reached through it is zero, whatever follows in the
    index path (and whatever serializer the field has) -/
theorem C10_nil_embed_zero (a : Access) (pre rest : List Step) (i : Nat) (r v : GoVal)
    (hp : a.path = pre ++ Step.ptrField i :: rest) (hw : walk pre (indirect r) = some v) (hn : fieldAt v i = GoVal.nilPtr) :
    valueOfZero a r = true := by
  rw [(C10_serializer_zero_passthrough a r).1]
  unfold rawZero
  rw [hp, walk_append, hw]
  simp [walk, hn]

/-- plain field of a plain record: the flag is `reflect.IsZero` of that field -/
theorem C10_plain_field_zero (a : Access) (i : Nat) (fs : List GoVal) (hp : a.path = [Step.field i]) :
    valueOfZero a (GoVal.ptr (GoVal.struct fs)) = (fs.getD i (GoVal.struct [])).isZero ∧
    valueOfZero a (GoVal.struct fs) = (fs.getD i (GoVal.struct [])).isZero := by
  rw [(C10_serializer_zero_passthrough a _).1, (C10_serializer_zero_passthrough a _).1]
  simp [rawZero, hp, walk, indirect, fieldAt]

/-- "Updates with a struct writes its non-zero fields", on a concrete RECORD, for every kind of field: the SET list is
    the one equation of `C10_struct_spec` with `nz` = the fields whose `ValueOf` flag is not zero. -/
theorem C10_struct_record_spec (s : Schema) (hk : KeysDistinct s) (sel om : List Col) (dim sh : Bool)
    (accs : List Access) (r : GoVal) (mnz : List Col) :
    (structSetOfRecord s s sel om dim sh accs r mnz).1 =
      ((s.fields.filter fun f => f.dbName != []).filter (structRule s sel om dim sh (nzOf accs r))).map (·.dbName) :=
  C10_struct_spec s hk sel om dim sh (nzOf accs r) mnz

/-- … and the rule per field, spelled with the zero flag of `ValueOf`: a field is in SET iff it is updatable, not the
    key serving as condition, not omitted, and (selected ∨ tracked update-time of a hook-running update ∨ — without a
    restricting Select — NOT ZERO as `field.ValueOf` reports it). -/
theorem C10_struct_record_rule (s : Schema) (sel om : List Col) (dim sh : Bool) (accs : List Access) (r : GoVal)
    (hd : NamesDistinct accs) (f : FieldSpec) (a : Access) (ha : a ∈ accs) (hn : a.name = f.name) :
    structRule s sel om dim sh (nzOf accs r) f =
      (f.updatable && !(f.primaryKey && dim) && !decide (f.dbName ∈ keysOf s om) &&
        (decide (f.dbName ∈ keysOf s sel) || (!sh && f.autoUpdateTime) ||
          (!restrictedSpec sel om && !valueOfZero a r))) := by
  unfold structRule
  rw [← hn, nzOf_contains hd ha r]

/-- without Select/Omit: written ⇔ updatable ∧ ¬ key-as-condition ∧ (tracked ∨ ¬ zero) — for EVERY kind of value -/
theorem C10_struct_record_nonzero (s : Schema) (dim sh : Bool) (accs : List Access) (r : GoVal)
    (hd : NamesDistinct accs) (f : FieldSpec) (a : Access) (ha : a ∈ accs) (hn : a.name = f.name) :
    structRule s [] [] dim sh (nzOf accs r) f =
      (f.updatable && !(f.primaryKey && dim) && ((!sh && f.autoUpdateTime) || !valueOfZero a r)) := by
  rw [C10_struct_nonzero, ← hn, nzOf_contains hd ha r]

/-- the sentence the serializer seeds break: a field whose Go value is ZERO, that is not selected and not a tracked
    update-time field, is NOT in the SET list of a struct update — its stored cell stays as it was. -/
theorem C10_struct_zero_untouched (s : Schema) (hk : KeysDistinct s) (sel om : List Col) (dim sh : Bool)
    (accs : List Access) (r : GoVal) (mnz : List Col) (hd : NamesDistinct accs)
    (f : FieldSpec) (hf : f ∈ s.fields) (hne : f.dbName ≠ []) (a : Access) (ha : a ∈ accs) (hn : a.name = f.name)
    (hz : valueOfZero a r = true) (hs : f.dbName ∉ keysOf s sel) (ht : (!sh && f.autoUpdateTime) = false) :
    f.dbName ∉ (structSetOfRecord s s sel om dim sh accs r mnz).1 := by
  rw [C10_struct_record_spec s hk]
  intro hmem
  obtain ⟨g, hg, hgeq⟩ := List.mem_map.1 hmem
  obtain ⟨hg1, hrule⟩ := List.mem_filter.1 hg
  obtain ⟨hgf, hgne⟩ := List.mem_filter.1 hg1
  have hgne' : g.dbName ≠ [] := by simpa using hgne
  have hkey : g.key = f.key := by rw [key_of_hasCol hgne', key_of_hasCol hne, hgeq]
  have : g = f := hk g hgf f hf hkey
  subst this
  rw [C10_struct_record_rule s sel om dim sh accs r hd g a ha hn, hz] at hrule
  simp [hs, ht] at hrule

/-- conversely a NON-zero field of an unrestricted struct update IS written when permitted: pointer to zero, empty
    non-nil slice, `Valid`-only Null struct … (any `r` with `valueOfZero a r = false`) -/
theorem C10_struct_nonzero_written (s : Schema) (hk : KeysDistinct s) (dim sh : Bool)
    (accs : List Access) (r : GoVal) (mnz : List Col) (hd : NamesDistinct accs)
    (f : FieldSpec) (hf : f ∈ s.fields) (hne : f.dbName ≠ []) (a : Access) (ha : a ∈ accs) (hn : a.name = f.name)
    (hz : valueOfZero a r = false) (hu : f.updatable = true) (hpk : (f.primaryKey && dim) = false) :
    f.dbName ∈ (structSetOfRecord s s [] [] dim sh accs r mnz).1 := by
  rw [C10_struct_record_spec s hk]
  refine List.mem_map.2 ⟨f, List.mem_filter.2 ⟨List.mem_filter.2 ⟨hf, by simpa using hne⟩, ?_⟩, rfl⟩
  rw [C10_struct_record_nonzero s dim sh accs r hd f a ha hn, hz, hu, hpk]
  simp

/-- non-vacuity: a record {ID:1, Name:"", Tags: nil ([]string, serializer:json), Ptr: &0, Meta: nil → Meta.Note}; the
    struct update writes exactly `ptr` (pointer to zero is non-zero); the zero serializer field and the field below the
    nil embedded pointer stay untouched -/
example :
    let fld (n db : String) (pk : Bool) : FieldSpec :=
      { name := n.toList, dbName := db.toList, primaryKey := pk, creatable := true, updatable := true, readable := true,
        autoCreateTime := false, autoUpdateTime := false, hasDefault := false, defaultIface := false, defaultNull := false }
    let s : Schema := { table := "t".toList, fields := [fld "ID" "id" true, fld "Name" "name" false, fld "Tags" "tags" false,
        fld "Ptr" "ptr" false, fld "Note" "m_note" false], rels := [], defaultDB := [] }
    let accs : List Access := [⟨"ID".toList, [.field 0], false⟩, ⟨"Name".toList, [.field 1], false⟩,
        ⟨"Tags".toList, [.field 2], true⟩, ⟨"Ptr".toList, [.field 3], false⟩, ⟨"Note".toList, [.ptrField 4, .field 0], false⟩]
    let r : GoVal := .struct [.uint 0, .str [], .nilSlice, .ptr (.int 0), .nilPtr]
    (structSetOfRecord s s [] [] false false accs r ["ID".toList]).1 = ["ptr".toList] := by
  decide

/-- regenerated shape of schema/field.go `setupValuerAndSetter`: exactly three `field.ValueOf` closures (single index /
    general index path / serializer wrapper); the zero flag each returns is `IsZero()` of the reached value, `true` for a
    nil embedded pointer, and — in the serializer wrapper — the flag `zero` bound by `value, zero := oldValuerOf(ctx, v)`,
    i.e. handed on unchanged (`serializerWrap`). -/
theorem C10_gen_valueof_shape :
    Gen.ValueOfFacts.valueOfGuards = [("0", "len(field.StructField.Index) == 1 && fieldIndex > 0"), ("1", "default"),
      ("2", "field.Serializer != nil")] ∧
    Gen.ValueOfFacts.valueOfReturns = [("0", "fieldValue.Interface(), fieldValue.IsZero()"), ("1", "nil, true"), ("1", "fv, zero"),
      ("2", "&serializer{ Field: field, SerializeValuer: s, Destination: v, Context: ctx, fieldValue: value, }, zero")] ∧
    Gen.ValueOfFacts.valueOfZeroDefs = [("1", "fv, zero := v.Interface(), v.IsZero()"), ("2", "value, zero := oldValuerOf(ctx, v)")] := by
  decide

/-- regenerated shape of the consumers of the zero flag in callbacks/update.go `ConvertToAssignments`: the struct branch
    reads it from `field.ValueOf(stmt.Context, updatingValue)`, overrides it with `false` exactly under
    `!stmt.SkipHooks && field.AutoUpdateTime > 0` (every unit of tracked update-time), and admits the assignment by
    `(ok || !isZero) && field.Updatable` (`structWrites`); the other reads are the key-condition blocks (`!isZero`). -/
theorem C10_gen_iszero_consumers :
    (Gen.ValueOfFacts.isZeroWrites.filter fun t => t.1 == "ConvertToAssignments") =
      [("ConvertToAssignments", "size > 0", "_, isZero = field.ValueOf(stmt.Context, stmt.ReflectValue.Index(i))"),
       ("ConvertToAssignments", "!isZero", "value, isZero := field.ValueOf(stmt.Context, stmt.ReflectValue)"),
       ("ConvertToAssignments", "(ok && v) || (!ok && (!restricted || (!stmt.SkipHooks && field.AutoUpdateTime > 0)))",
         "value, isZero := field.ValueOf(stmt.Context, updatingValue)"),
       ("ConvertToAssignments", "!stmt.SkipHooks && field.AutoUpdateTime > 0", "isZero = false"),
       ("ConvertToAssignments", "!isZero", "value, isZero := field.ValueOf(stmt.Context, updatingValue)")] ∧
    (Gen.ValueOfFacts.isZeroTests.filter fun t => t.1 == "ConvertToAssignments").map (·.2) =
      ["!isZero", "!isZero", "!isZero", "(ok || !isZero) && field.Updatable", "!isZero"] ∧
    (Gen.ValueOfFacts.isZeroTests.filter fun t => t.1 == "ConvertToCreateValues").map (·.2) =
      ["isZero", "!isZero", "isZero", "!isZero"] ∧
    (∀ t ∈ Gen.ValueOfFacts.isZeroWrites, t.1 = "ConvertToCreateValues" →
      t.2.2 ∈ ["values.Values[i][idx], isZero = field.ValueOf(stmt.Context, rv)", "rvOfvalue, isZero := field.ValueOf(stmt.Context, rv)",
        "values.Values[0][idx], isZero = field.ValueOf(stmt.Context, stmt.ReflectValue)",
        "rvOfvalue, isZero := field.ValueOf(stmt.Context, stmt.ReflectValue)"]) := by
  decide

end Kinds

end Gorm

/-! ### exactly the targeted rows when the chain is a boolean formula (Where / Or / Not) and the value carries a key
    (Model/ChainRows.lean; finding F36; suites chain-rows / chainsel of harness/c10_r6.go) -/

namespace Gorm
open Gorm.ChainRows

/-- scoped UPDATE of a soft-delete model (the schema's update clause runs BEFORE the key is merged): a row is
    selected iff it satisfies (chain conditions) AND key AND not-soft-deleted — for every chain, Or steps included -/
theorem C10_chain_rows_soft_update_exact (ts : List Term) (key live : Bool) :
    selected true true ts key live = targeted true ts key live := by
  unfold selected targeted chainHolds
  cases whereHolds ts <;> cases key <;> cases live <;> rfl

/-- FINDING F36 (counterexample, kernel-checked): plain model, `Where(a).Or(b)` + `Model(&keyed)`: a row satisfying
    `a` whose key differs is selected (`a OR b AND key`) although it is not targeted -/
theorem C10_chain_rows_counterexample :
    selected false false [(false, true), (true, false)] false true = true ∧
    targeted false [(false, true), (true, false)] false true = false := by decide

/-- the same on the scoped soft DELETE (key merged before the wrap: `(a OR b AND key) AND deleted_at IS NULL`) -/
theorem C10_chain_rows_soft_delete_counterexample :
    selected false true [(false, true), (true, false)] false true = true ∧
    targeted true [(false, true), (true, false)] false true = false := by decide

/-- outside the pattern of F36 (no Or step after the first one): on EVERY path the selected rows are exactly
    (chain conditions) AND key AND not-soft-deleted -/
theorem C10_chain_rows_partial (gf soft : Bool) (ts : List Term) (key live : Bool) (h : noOr ts = true) :
    selected gf soft ts key live = targeted soft ts key live := by
  unfold selected targeted chainHolds
  cases ts with
  | nil => cases gf <;> cases soft <;> cases key <;> cases live <;> decide
  | cons t rest =>
    obtain ⟨o, v⟩ := t
    have h' : rest.all (fun t => !t.1) = true := by simpa [noOr] using h
    simp only [List.cons_append, whereHolds, evalFlat_append_noOr rest v key h']
    cases evalFlat rest v <;> cases gf <;> cases soft <;> cases key <;> cases live <;> rfl

/-- no key given (`key = true` on every row): every path selects exactly the targeted rows, Or or not -/
theorem C10_chain_rows_no_key (gf soft : Bool) (ts : List Term) (live : Bool) :
    selected gf soft ts true live = targeted soft ts true live := by
  unfold selected targeted chainHolds
  cases ts with
  | nil => cases gf <;> cases soft <;> cases live <;> decide
  | cons t rest =>
    obtain ⟨o, v⟩ := t
    simp only [List.cons_append, whereHolds, evalFlat_append_true]
    cases evalFlat rest v <;> cases gf <;> cases soft <;> cases live <;> rfl

/-- whatever the path: a row that is selected satisfies the chain's conditions and is not soft-deleted (the defect F36
    loosens the KEY only), and a targeted row is always selected (no targeted row is missed) -/
theorem C10_chain_rows_bounds (gf soft : Bool) (ts : List Term) (key live : Bool) :
    (selected gf soft ts key live = true → chainHolds ts = true ∧ (soft = true → live = true)) ∧
    (targeted soft ts key live = true → selected gf soft ts key live = true) := by
  unfold selected targeted chainHolds
  cases ts with
  | nil => cases gf <;> cases soft <;> cases key <;> cases live <;> decide
  | cons t rest =>
    obtain ⟨o, v⟩ := t
    simp only [List.cons_append, whereHolds]
    constructor
    · intro hs
      have hle : evalFlat (rest ++ [(false, key)]) v = true → evalFlat rest v = true := evalFlat_append_le rest v key
      cases hE : evalFlat (rest ++ [(false, key)]) v <;> cases hR : evalFlat rest v <;>
        cases gf <;> cases soft <;> cases live <;> cases key <;> simp_all
    · intro ht
      cases key with
      | false => simp at ht
      | true =>
        rw [evalFlat_append_true]
        revert ht
        cases evalFlat rest v <;> cases gf <;> cases soft <;> cases live <;> simp

/-- regenerated facts (extract/gen_c10_r6.go → Gen/WriteOrder.lean): the update callback runs the schema's
    UpdateClauses loop BEFORE ConvertToAssignments merges the key; the delete callback runs the DeleteClauses loop
    before its key block; the soft-delete delete clause merges the key(s) and only then wraps; the soft-delete update
    clause is nothing but the guarded wrap; the wrap groups ALL entries present when it runs -/
theorem C10_gen_write_order :
    Gen.WriteOrder.updateOrder = ["clauses", "assign", "build"] ∧
    Gen.WriteOrder.deleteOrder = ["clauses", "key", "key", "build"] ∧
    Gen.WriteOrder.softDeleteOrder = ["key", "key", "wrap", "build"] ∧
    Gen.WriteOrder.softUpdateBody = ["if stmt.SQL.Len() == 0 && !stmt.Statement.Unscoped", "SoftDeleteQueryClause(sd).ModifyStatement(stmt)"] ∧
    Gen.WriteOrder.queryWrapCond = ["orCond, ok := expr.(clause.OrConditions); ok && len(orCond.Exprs) == 1"] ∧
    Gen.WriteOrder.queryWrapAssign = ["where.Exprs = []clause.Expression{clause.And(where.Exprs...)}"] := by decide

/-- … hence the `groupFirst` flag the model is used with: true for the soft-delete UPDATE, false for the soft DELETE -/
theorem C10_gen_group_first :
    groupsFirst Gen.WriteOrder.updateOrder = true ∧ groupsFirst Gen.WriteOrder.softDeleteOrder = false := by decide

end Gorm
