/-
  C18 — every driver call of an operation carries the caller's context.
  Theorems over the REGENERATED tables `Gen.callSites`, `Gen.sessionUses`,
  `Gen.statementLiterals`, `Gen.cloneLiteral`, `Gen.getInstanceLiteral`.
-/
import GormModel.Model.Handle
import GormModel.Lemmas.Handle
import GormModel.Gen.CallSites
namespace Gorm
open Gen

/-- Each driver call site passes, as context, the `Statement.Context` of the very handle whose
    `Statement.ConnPool` it calls (callback handlers), the handle's own context when opening a
    transaction / connection (finisher_api.go), or -- inside the ConnPool wrappers of
    prepare_stmt.go -- the `ctx` parameter it was itself called with, unchanged. -/
theorem C18_sites :
    ∀ s ∈ callSites,
      (s.pkg = "callbacks" ∧ s.recv = "db.Statement.ConnPool" ∧ s.ctx = "db.Statement.Context") ∨
      (s.file = "finisher_api.go" ∧ (s.fn = "DB.Begin" ∨ s.fn = "DB.Connection") ∧ s.ctx = "tx.Statement.Context") ∨
      (s.file = "prepare_stmt.go" ∧ s.ctx = "ctx" ∧ "ctx context.Context" ∈ s.fnParams) := by
  decide

/-- Internal `Session(&Session{…})` call sites never replace the context by a foreign one:
    apart from `WithContext` itself (the caller's explicit request) a `Context:` field, when present,
    is the receiver's own `Statement.Context`. -/
theorem C18_sessions :
    ∀ u ∈ sessionUses, u.fn ≠ "DB.WithContext" →
      (u.ctxField = none ∨ ∃ e, u.ctxField = some e ∧ e ∈ ownContextExprs) := by
  decide

/-- `WithContext(ctx)` is exactly `Session(&Session{Context: ctx})` -/
theorem C18_withContext : withContextSrc = "{ return db.Session(&Session{Context: ctx}) }" := by decide

/-- the copy discipline the flow theorem relies on, as read from the source now -/
theorem C18_copy_facts :
    cloneKeepsContext = true ∧ getInstanceKeepsContext = true ∧
    cloneKeepsConnPool = true ∧ getInstanceKeepsConnPool = true ∧
    sessionSetsContext = true ∧ getInstanceClone2UsesClone = true := by
  decide

/-- Every `Statement{…}` literal that is given a connection pool is also given a context, and that
    context is the creating handle's own (`context.Background()` only in `Open`, the root handle). -/
theorem C18_fresh_statements :
    ∀ l ∈ statementLiterals, (∃ f ∈ l.fields, f.1 = "ConnPool") →
      (∃ f ∈ l.fields, f.1 = "Context" ∧
        (f.2 = "db.Statement.Context" ∨ f.2 = "stmt.Context" ∨ (f.2 = "context.Background()" ∧ l.fn = "Open"))) := by
  decide

/-- prepared-statement wrappers: the receivers of the driver calls in prepare_stmt.go are the pool
    they wrap, or -- inside a transaction -- the statement re-bound to the transaction WITH THE SAME
    `ctx` (`Tx.StmtContext(ctx, …)` may prepare the statement again on the transaction's connection) -/
theorem C18_stmt_context :
    ∀ s ∈ callSites, s.file = "prepare_stmt.go" →
      s.recv ∈ ["conn", "beginner", "stmt", "tx.Tx.StmtContext(ctx, stmt.Stmt)"] := by
  decide

/-- the ONLY assignment to a `Context` field anywhere in the non-test source is the one in
    `Session()` (whose guard is the subject of `C18_session_context_set`) -/
theorem C18_context_writes :
    contextWrites = [("gorm.go", "DB.Session", "tx.Statement.Context", "config.Context")] := by decide

/-- gorm manufactures no context: every call into package `context` is `context.Background()`,
    handed to a logger method or stored as the ROOT handle's context in `Open` -/
theorem C18_context_makes :
    ∀ m ∈ contextMakes, m.2.2.1 = "context.Background()" ∧
      (m.2.2.2 ∈ ["arg:Warn", "arg:Error", "arg:Info", "arg:Trace"] ∨
       (m.1 = "gorm.go" ∧ m.2.1 = "Open" ∧ m.2.2.2 = "field:Context")) := by decide

/-- … and declares no context wrapper type: the structs holding a `context.Context` are the
    session literal, the statement and the serializer value, none of them embeds it -/
theorem C18_context_holders :
    ∀ h ∈ contextHolders, h.2.2 ≠ "<embedded>" ∧ h.2.1 ∈ ["Session", "Statement", "serializer"] := by decide

/-- the model knows every field of `type Session struct` (a new field means a new way of
    configuring a session: the flag model must be revisited) -/
theorem C18_session_fields : sessionFieldTypes = knownSessionFields := by decide

/-- `getInstance()` read from its regenerated body: whatever the receiver's clone mode (0 = itself,
    1 = fresh statement, ≥ 2 = cloned statement) the handle it returns carries the receiver's
    context, every relevant statement sits under a condition the model can evaluate and nothing
    unknown writes the handle / statement / context. -/
theorem C18_getInstance_body (clone : Nat) : giCtx clone = .parent := by
  have key : ∀ pos one : Bool, (one = true → pos = true) →
      (giRunB pos one).bad.isEmpty = true ∧ (giRunB pos one).returned = true ∧
      (giRunB pos one).result = some .parent := by decide
  have hc : ((clone == 1) = true → decide (clone > 0) = true) := by
    intro h; have : clone = 1 := by simpa using h
    subst this; decide
  obtain ⟨h1, h2, h3⟩ := key (decide (clone > 0)) (clone == 1) hc
  simp [giCtx, h1, h2, h3]

/-- what `Session()` must achieve for the context, for one flag valuation -/
def SessionGood (want : CtxSym) (r : SessState) : Prop :=
  r.ok = true ∧ r.stmt = want ∧ r.next = want ∧ r.parentStmt = .parent

instance (want : CtxSym) (r : SessState) : Decidable (SessionGood want r) := by
  unfold SessionGood; exact inferInstance

/-- MAIN (binding): for EVERY combination of Session flags, a non-nil `Context` ends up on the
    statement of the returned handle AND on the statement the next `getInstance()` works with,
    and the receiver's own statement is not written.  Read from the regenerated body of
    `Session()` (guards of `tx.Statement = tx.Statement.clone()` and of
    `tx.Statement.Context = config.Context`); all 2^15 valuations are covered through the
    reduction `forall_flags_of_subsets` to the flags the guards actually test. -/
theorem C18_session_context_set (fl : SessFlags) (h : fl .hasContext = true) :
    SessionGood .config (sessionRun fl) := by
  apply forall_flags_of_subsets sessionProg (SessionGood .config) true _ fl h
  set_option maxRecDepth 20000 in decide

/-- … and without a `Context` the session inherits the receiver's context, for every combination
    of the other flags (NewDB, PrepareStmt, SkipHooks, Initialized, …). -/
theorem C18_session_context_inherited (fl : SessFlags) (h : fl .hasContext = false) :
    SessionGood .parent (sessionRun fl) := by
  apply forall_flags_of_subsets sessionProg (SessionGood .parent) false _ fl h
  set_option maxRecDepth 20000 in decide

/-- steps that must keep the bound context: chain-method / finisher entries, internal session call
    sites taken from the source (with whatever values their flag expressions take), and the
    caller's own sessions that do not name a context -/
def Deriv.keeps : Deriv → Prop
  | .getInstance => True
  | .session u _ => u ∈ sessionUses ∧ u.fn ≠ "DB.WithContext"
  | .userSession fl _ => fl .hasContext = false

theorem C18_step_keeps (h : Handle) (d : Deriv) (hk : d.keeps) : (h.step d).ctx = h.ctx := by
  cases d with
  | getInstance =>
    simp only [Handle.step]
    by_cases h0 : h.clone = 0
    · simp [h0]
    · simp [h0, C18_getInstance_body, CtxSym.concrete]
  | session u fl =>
    have hs := C18_sessions u hk.1 hk.2
    simp only [Handle.step]
    rcases hs with hn | ⟨e, he, hmem⟩
    · have g := C18_session_context_inherited (fl.withCtx false) (by simp [SessFlags.withCtx])
      simp [hn, Handle.afterSession, g.1, g.2.1, CtxSym.concrete]
    · have g := C18_session_context_set (fl.withCtx true) (by simp [SessFlags.withCtx])
      have hc : ownContextExprs.contains e = true := by simpa using hmem
      simp [he, Handle.afterSession, g.1, g.2.1, CtxSym.concrete, hmem]
  | userSession fl c =>
    have g := C18_session_context_inherited fl hk
    simp [Handle.step, Handle.afterSession, g.1, g.2.1, CtxSym.concrete]

/-- MAIN (flow): along ANY derivation path made of chain-method/finisher entries (`getInstance`),
    internal session call sites taken from the source and caller sessions without a context -- with
    ANY flag values -- the statement's context stays the one the handle was bound to.  Induction
    over the path; the per-step facts are the regenerated tables and bodies. -/
theorem C18_flow (h : Handle) (ds : List Deriv) (hint : ∀ d ∈ ds, d.keeps) :
    (h.derive ds).ctx = h.ctx := by
  unfold Handle.derive
  induction ds generalizing h with
  | nil => rfl
  | cons d ds ih =>
    simp only [List.foldl_cons]
    rw [ih (h.step d) (fun d' hd' => hint d' (List.mem_cons_of_mem _ hd'))]
    exact C18_step_keeps h d (hint d (by simp))

/-- MAIN (re-binding, "the later wins"): whatever happened before, a caller session naming context
    `c` -- combined with ANY other flags -- followed by any context-keeping path leaves exactly `c`
    on the statement the operation runs with. -/
theorem C18_rebind (h : Handle) (before after : List Deriv) (fl : SessFlags) (c : Nat)
    (hc : fl .hasContext = true) (hafter : ∀ d ∈ after, d.keeps) :
    (h.derive (before ++ .userSession fl c :: after)).ctx = c := by
  have happ : h.derive (before ++ .userSession fl c :: after)
      = ((h.derive before).step (.userSession fl c)).derive after := by
    simp [Handle.derive, List.foldl_append]
  rw [happ, C18_flow _ after hafter]
  have g := C18_session_context_set fl hc
  simp [Handle.step, Handle.afterSession, g.1, g.2.1, CtxSym.concrete, hc]

/-- a Session that clones the statement for SkipHooks/PrepareStmt keeps the context too -/
theorem C18_session_clone (h : Handle) : h.sessionClone.ctx = h.ctx := by
  simp [Handle.sessionClone, C18_copy_facts.1]

/-- non-vacuity: a concrete path through real call sites (preload session, callMethod session) -/
example : ∃ u ∈ sessionUses, u.fn = "preloadDB" ∧ u.ctxField = some "db.Statement.Context" := by decide
example : ({ ctx := 7, clone := 1 } : Handle).derive [.getInstance, .getInstance] = { ctx := 7, clone := 0 } := by decide
/-- the flag combination `Session{NewDB: true, Context: c}` on a handle bound to 7: the next statement runs with `c` = 9 -/
example : (({ ctx := 7, clone := 2 } : Handle).derive
    [.userSession (SessFlags.ofList [.newDB, .hasContext]) 9, .getInstance]) = { ctx := 9, clone := 0 } := by decide
example : (sessionRun (SessFlags.ofList [.newDB, .hasContext])).shared = false := by decide
example : (sessionRun (SessFlags.ofList [.newDB])).shared = true := by decide
example : sessionProg.length ≥ 5 ∧ (progFlags sessionProg).length ≥ 5 := by decide

end Gorm
