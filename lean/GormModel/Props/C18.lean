/-
  C18 — every driver call of an operation carries the caller's context.
  Theorems over the REGENERATED tables `Gen.callSites`, `Gen.sessionUses`,
  `Gen.statementLiterals`, `Gen.cloneLiteral`, `Gen.getInstanceLiteral`.
-/
import GormModel.Model.Handle
import GormModel.Gen.CallSites
namespace Gorm
open Gen

/-- Each driver call site passes, as context, the `Statement.Context` of the very handle whose
    `Statement.ConnPool` it calls (callback handlers), the handle's own context when opening a
    transaction / connection (finisher_api.go), or -- inside the ConnPool wrappers of
    prepare_stmt.go -- the `ctx` parameter it was itself called with, unchanged. -/
theorem C18_sites :
    ∀ s ∈ callSites,
      (s.pkg = "callbacks" ∧ s.recv = "db.Statement.ConnPool" ∧ s.ctx = "db.Statement.Context") ∨
      (s.file = "finisher_api.go" ∧ (s.fn = "DB.Begin" ∨ s.fn = "DB.Connection") ∧ s.ctx = "tx.Statement.Context") ∨
      (s.file = "prepare_stmt.go" ∧ s.ctx = "ctx" ∧ "ctx context.Context" ∈ s.fnParams) := by
  decide

/-- Internal `Session(&Session{…})` call sites never replace the context by a foreign one:
    apart from `WithContext` itself (the caller's explicit request) a `Context:` field, when present,
    is the receiver's own `Statement.Context`. -/
theorem C18_sessions :
    ∀ u ∈ sessionUses, u.fn ≠ "DB.WithContext" →
      (u.ctxField = none ∨ ∃ e, u.ctxField = some e ∧ e ∈ ownContextExprs) := by
  decide

/-- `WithContext(ctx)` is exactly `Session(&Session{Context: ctx})` -/
theorem C18_withContext : withContextSrc = "{ return db.Session(&Session{Context: ctx}) }" := by decide

/-- the copy discipline the flow theorem relies on, as read from the source now -/
theorem C18_copy_facts :
    cloneKeepsContext = true ∧ getInstanceKeepsContext = true ∧
    cloneKeepsConnPool = true ∧ getInstanceKeepsConnPool = true ∧
    sessionSetsContext = true ∧ getInstanceClone2UsesClone = true := by
  decide

/-- Every `Statement{…}` literal that is given a connection pool is also given a context, and that
    context is the creating handle's own (`context.Background()` only in `Open`, the root handle). -/
theorem C18_fresh_statements :
    ∀ l ∈ statementLiterals, (∃ f ∈ l.fields, f.1 = "ConnPool") →
      (∃ f ∈ l.fields, f.1 = "Context" ∧
        (f.2 = "db.Statement.Context" ∨ f.2 = "stmt.Context" ∨ (f.2 = "context.Background()" ∧ l.fn = "Open"))) := by
  decide

/-- MAIN (flow): along ANY derivation path made of chain-method/finisher entries (`getInstance`) and
    internal session call sites taken from the source, the statement's context stays the one the
    handle was bound to.  Induction over the path; the per-step facts are the regenerated tables. -/
theorem C18_flow (h : Handle) (ds : List Deriv)
    (hint : ∀ d ∈ ds, ∀ u, d = .session u → u ∈ sessionUses ∧ u.fn ≠ "DB.WithContext") :
    (h.derive ds).ctx = h.ctx := by
  unfold Handle.derive
  induction ds generalizing h with
  | nil => rfl
  | cons d ds ih =>
    simp only [List.foldl_cons]
    have hstep : (h.step d).ctx = h.ctx := by
      cases d with
      | getInstance =>
        have hc := C18_copy_facts
        simp only [Handle.step]
        by_cases h0 : h.clone = 0 <;> by_cases h1 : h.clone = 1 <;> simp [h0, h1, hc.1, hc.2.1]
      | session u =>
        have hu := hint (.session u) (by simp) u rfl
        have hs := C18_sessions u hu.1 hu.2
        simp only [Handle.step]
        rcases hs with hn | ⟨e, he, hmem⟩
        · simp [hn]
        · simp [he, hmem, C18_copy_facts.2.2.2.2.1]
    rw [ih (h.step d) (fun d' hd' => hint d' (List.mem_cons_of_mem _ hd'))]
    exact hstep

/-- a Session that clones the statement for SkipHooks/PrepareStmt keeps the context too -/
theorem C18_session_clone (h : Handle) : h.sessionClone.ctx = h.ctx := by
  simp [Handle.sessionClone, C18_copy_facts.1]

/-- non-vacuity: a concrete path through real call sites (preload session, callMethod session) -/
example : ∃ u ∈ sessionUses, u.fn = "preloadDB" ∧ u.ctxField = some "db.Statement.Context" := by decide
example : ({ ctx := 7, clone := 1 } : Handle).derive [.getInstance, .getInstance] = { ctx := 7, clone := 0 } := by decide

end Gorm
