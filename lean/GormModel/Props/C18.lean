/-
  C18 — every driver call of an operation carries the caller's context.
  Theorems over the REGENERATED tables `Gen.callSites`, `Gen.sessionUses`,
  `Gen.statementLiterals`, `Gen.cloneLiteral`, `Gen.getInstanceLiteral`.
-/
import GormModel.Model.Handle
import GormModel.Lemmas.Handle
import GormModel.Gen.CallSites
namespace Gorm
open Gen

/-- Each driver call site passes, as context, the `Statement.Context` of the very handle whose
    `Statement.ConnPool` it calls (callback handlers), the handle's own context when opening a
    transaction / connection (finisher_api.go), or -- inside the ConnPool wrappers of
    prepare_stmt.go -- the `ctx` parameter it was itself called with, unchanged. -/
theorem C18_sites :
    ∀ s ∈ callSites,
      (s.pkg = "callbacks" ∧ s.recv = "db.Statement.ConnPool" ∧ s.ctx = "db.Statement.Context") ∨
      (s.file = "finisher_api.go" ∧ (s.fn = "DB.Begin" ∨ s.fn = "DB.Connection") ∧ s.ctx = "tx.Statement.Context") ∨
      (s.file = "prepare_stmt.go" ∧ s.ctx = "ctx" ∧ "ctx context.Context" ∈ s.fnParams) := by
  decide

/-- Internal `Session(&Session{…})` call sites never replace the context by a foreign one:
    apart from `WithContext` itself (the caller's explicit request) a `Context:` field, when present,
    is the receiver's own `Statement.Context`. -/
theorem C18_sessions :
    ∀ u ∈ sessionUses, u.fn ≠ "DB.WithContext" →
      (u.ctxField = none ∨ ∃ e, u.ctxField = some e ∧ e ∈ ownContextExprs) := by
  decide

/-- `WithContext(ctx)` is exactly `Session(&Session{Context: ctx})` -/
theorem C18_withContext : withContextSrc = "{ return db.Session(&Session{Context: ctx}) }" := by decide

/-- the copy discipline the flow theorem relies on, as read from the source now -/
theorem C18_copy_facts :
    cloneKeepsContext = true ∧ getInstanceKeepsContext = true ∧
    cloneKeepsConnPool = true ∧ getInstanceKeepsConnPool = true ∧
    sessionSetsContext = true ∧ getInstanceClone2UsesClone = true := by
  decide

/-- Every `Statement{…}` literal that is given a connection pool is also given a context, and that
    context is the creating handle's own (`context.Background()` only in `Open`, the root handle). -/
theorem C18_fresh_statements :
    ∀ l ∈ statementLiterals, (∃ f ∈ l.fields, f.1 = "ConnPool") →
      (∃ f ∈ l.fields, f.1 = "Context" ∧
        (f.2 = "db.Statement.Context" ∨ f.2 = "stmt.Context" ∨ (f.2 = "context.Background()" ∧ l.fn = "Open"))) := by
  decide

/-- prepared-statement wrappers: the receivers of the driver calls in prepare_stmt.go are the pool
    they wrap, or -- inside a transaction -- the statement re-bound to the transaction WITH THE SAME
    `ctx` (`Tx.StmtContext(ctx, …)` may prepare the statement again on the transaction's connection) -/
theorem C18_stmt_context :
    ∀ s ∈ callSites, s.file = "prepare_stmt.go" →
      s.recv ∈ ["conn", "beginner", "stmt", "tx.Tx.StmtContext(ctx, stmt.Stmt)"] := by
  decide

/-- the ONLY assignment to a `Context` field anywhere in the non-test source is the one in
    `Session()` (whose guard is the subject of `C18_session_context_set`) -/
theorem C18_context_writes :
    contextWrites = [("gorm.go", "DB.Session", "tx.Statement.Context", "config.Context")] := by decide

/-- gorm manufactures no context: every call into package `context` is `context.Background()`,
    handed to a logger method or stored as the ROOT handle's context in `Open` -/
theorem C18_context_makes :
    ∀ m ∈ contextMakes, m.2.2.1 = "context.Background()" ∧
      (m.2.2.2 ∈ ["arg:Warn", "arg:Error", "arg:Info", "arg:Trace"] ∨
       (m.1 = "gorm.go" ∧ m.2.1 = "Open" ∧ m.2.2.2 = "field:Context")) := by decide

/-- … and declares no context wrapper type: the structs holding a `context.Context` are the
    session literal, the statement and the serializer value, none of them embeds it -/
theorem C18_context_holders :
    ∀ h ∈ contextHolders, h.2.2 ≠ "<embedded>" ∧ h.2.1 ∈ ["Session", "Statement", "serializer"] := by decide

/-- the model knows every field of `type Session struct` (a new field means a new way of
    configuring a session: the flag model must be revisited) -/
theorem C18_session_fields : sessionFieldTypes = knownSessionFields := by decide

/-- `getInstance()` read from its regenerated body: whatever the receiver's clone mode (0 = itself,
    1 = fresh statement, ≥ 2 = cloned statement) the handle it returns carries the receiver's
    context, every relevant statement sits under a condition the model can evaluate and nothing
    unknown writes the handle / statement / context. -/
theorem C18_getInstance_body (clone : Nat) : giCtx clone = .parent := by
  have key : ∀ pos one : Bool, (one = true → pos = true) →
      (giRunB pos one).bad.isEmpty = true ∧ (giRunB pos one).returned = true ∧
      (giRunB pos one).result = some .parent := by decide
  have hc : ((clone == 1) = true → decide (clone > 0) = true) := by
    intro h; have : clone = 1 := by simpa using h
    subst this; decide
  obtain ⟨h1, h2, h3⟩ := key (decide (clone > 0)) (clone == 1) hc
  simp [giCtx, h1, h2, h3]

/-- what `Session()` must achieve for the context, for one flag valuation -/
def SessionGood (want : CtxSym) (r : SessState) : Prop :=
  r.ok = true ∧ r.stmt = want ∧ r.next = want ∧ r.parentStmt = .parent

instance (want : CtxSym) (r : SessState) : Decidable (SessionGood want r) := by
  unfold SessionGood; exact inferInstance

/-- MAIN (binding): for EVERY combination of Session flags, a non-nil `Context` ends up on the
    statement of the returned handle AND on the statement the next `getInstance()` works with,
    and the receiver's own statement is not written.  Read from the regenerated body of
    `Session()` (guards of `tx.Statement = tx.Statement.clone()` and of
    `tx.Statement.Context = config.Context`); all 2^15 valuations are covered through the
    reduction `forall_flags_of_subsets` to the flags the guards actually test. -/
theorem C18_session_context_set (fl : SessFlags) (h : fl .hasContext = true) :
    SessionGood .config (sessionRun fl) := by
  apply forall_flags_of_subsets sessionProg (SessionGood .config) true _ fl h
  set_option maxRecDepth 20000 in decide

/-- … and without a `Context` the session inherits the receiver's context, for every combination
    of the other flags (NewDB, PrepareStmt, SkipHooks, Initialized, …). -/
theorem C18_session_context_inherited (fl : SessFlags) (h : fl .hasContext = false) :
    SessionGood .parent (sessionRun fl) := by
  apply forall_flags_of_subsets sessionProg (SessionGood .parent) false _ fl h
  set_option maxRecDepth 20000 in decide

/-- steps that must keep the bound context: chain-method / finisher entries, internal session call
    sites taken from the source (with whatever values their flag expressions take), and the
    caller's own sessions that do not name a context -/
def Deriv.keeps : Deriv → Prop
  | .getInstance => True
  | .session u _ => u ∈ sessionUses ∧ u.fn ≠ "DB.WithContext"
  | .userSession fl _ => fl .hasContext = false

theorem C18_step_keeps (h : Handle) (d : Deriv) (hk : d.keeps) : (h.step d).ctx = h.ctx := by
  cases d with
  | getInstance =>
    simp only [Handle.step]
    by_cases h0 : h.clone = 0
    · simp [h0]
    · simp [h0, C18_getInstance_body, CtxSym.concrete]
  | session u fl =>
    have hs := C18_sessions u hk.1 hk.2
    simp only [Handle.step]
    rcases hs with hn | ⟨e, he, hmem⟩
    · have g := C18_session_context_inherited (fl.withCtx false) (by simp [SessFlags.withCtx])
      simp [hn, Handle.afterSession, g.1, g.2.1, CtxSym.concrete]
    · have g := C18_session_context_set (fl.withCtx true) (by simp [SessFlags.withCtx])
      have hc : ownContextExprs.contains e = true := by simpa using hmem
      simp [he, Handle.afterSession, g.1, g.2.1, CtxSym.concrete, hmem]
  | userSession fl c =>
    have g := C18_session_context_inherited fl hk
    simp [Handle.step, Handle.afterSession, g.1, g.2.1, CtxSym.concrete]

/-- MAIN (flow): along ANY derivation path made of chain-method/finisher entries (`getInstance`),
    internal session call sites taken from the source and caller sessions without a context -- with
    ANY flag values -- the statement's context stays the one the handle was bound to.  Induction
    over the path; the per-step facts are the regenerated tables and bodies. -/
theorem C18_flow (h : Handle) (ds : List Deriv) (hint : ∀ d ∈ ds, d.keeps) :
    (h.derive ds).ctx = h.ctx := by
  unfold Handle.derive
  induction ds generalizing h with
  | nil => rfl
  | cons d ds ih =>
    simp only [List.foldl_cons]
    rw [ih (h.step d) (fun d' hd' => hint d' (List.mem_cons_of_mem _ hd'))]
    exact C18_step_keeps h d (hint d (by simp))

/-- MAIN (re-binding, "the later wins"): whatever happened before, a caller session naming context
    `c` -- combined with ANY other flags -- followed by any context-keeping path leaves exactly `c`
    on the statement the operation runs with. -/
theorem C18_rebind (h : Handle) (before after : List Deriv) (fl : SessFlags) (c : Nat)
    (hc : fl .hasContext = true) (hafter : ∀ d ∈ after, d.keeps) :
    (h.derive (before ++ .userSession fl c :: after)).ctx = c := by
  have happ : h.derive (before ++ .userSession fl c :: after)
      = ((h.derive before).step (.userSession fl c)).derive after := by
    simp [Handle.derive, List.foldl_append]
  rw [happ, C18_flow _ after hafter]
  have g := C18_session_context_set fl hc
  simp [Handle.step, Handle.afterSession, g.1, g.2.1, CtxSym.concrete, hc]

/-- a Session that clones the statement for SkipHooks/PrepareStmt keeps the context too -/
theorem C18_session_clone (h : Handle) : h.sessionClone.ctx = h.ctx := by
  simp [Handle.sessionClone, C18_copy_facts.1]

/-! ### The operation as a whole: every driver call of the handle TREE carries the bound context

An operation does not walk one derivation path: callbacks derive internal handles (preload sessions,
association saves, hooks' `tx`), issue driver calls through them and come back to the handle they
were derived from.  `OpStep` flattens that tree: a stack of live handles, `enter d` derives a new
handle from the current one, `leave` returns to its parent, `call` is a driver call at one of the
call sites of `Gen.callSites` -- by `C18_sites` it hands the CURRENT handle's `Statement.Context`
to database/sql. -/
inductive OpStep where
  | enter (d : Deriv)
  | leave
  | call

structure OpState where
  stack : List Handle     -- head = the handle the running callback works with
  calls : List Nat        -- contexts handed to database/sql so far, newest first
deriving Repr, DecidableEq

def OpState.step (s : OpState) : OpStep → OpState
  | .enter d => match s.stack with
    | [] => s
    | h :: rest => { s with stack := h.step d :: h :: rest }
  | .leave => match s.stack with
    | _ :: h :: rest => { s with stack := h :: rest }
    | _ => s
  | .call => match s.stack with
    | [] => s
    | h :: _ => { s with calls := h.ctx :: s.calls }

def OpStep.keeps : OpStep → Prop
  | .enter d => d.keeps
  | _ => True

def OpState.run (s : OpState) (ops : List OpStep) : OpState := ops.foldl OpState.step s

/-- the operation started from handle `h` -/
def runOp (h : Handle) (ops : List OpStep) : OpState := OpState.run { stack := [h], calls := [] } ops

/-- what database/sql lets through to the driver (ASSUMPTION recorded in the trusted base: a call
    whose context is already done returns `ctx.Err()` before reaching the driver) -/
def reached (cancelled : Nat → Bool) (calls : List Nat) : List Nat := calls.filter (fun c => !cancelled c)

theorem C18_opstep_inv (c : Nat) (s : OpState) (o : OpStep) (hk : o.keeps)
    (hst : ∀ h ∈ s.stack, h.ctx = c) :
    (∀ h ∈ (s.step o).stack, h.ctx = c) ∧ (∀ x ∈ (s.step o).calls, x ∈ s.calls ∨ x = c) := by
  cases o with
  | enter d =>
    cases hs : s.stack with
    | nil => simp only [OpState.step, hs]; exact ⟨by simp, fun x hx => Or.inl hx⟩
    | cons h rest =>
      have hh : h.ctx = c := hst h (by simp [hs])
      have hr : ∀ h' ∈ rest, h'.ctx = c := fun h' hm => hst h' (by simp [hs, hm])
      have hd : (h.step d).ctx = c := by rw [C18_step_keeps h d hk, hh]
      refine ⟨?_, ?_⟩
      · intro h' hm
        simp only [OpState.step, hs, List.mem_cons] at hm
        rcases hm with rfl | rfl | hm
        · exact hd
        · exact hh
        · exact hr h' hm
      · intro x hx
        simp only [OpState.step, hs] at hx
        exact Or.inl hx
  | leave =>
    cases hs : s.stack with
    | nil => simp only [OpState.step, hs]; exact ⟨by simp, fun x hx => Or.inl hx⟩
    | cons h rest =>
      cases rest with
      | nil =>
        refine ⟨?_, ?_⟩
        · intro h' hm
          simp only [OpState.step, hs] at hm
          exact hst h' (by rw [hs]; exact hm)
        · intro x hx
          simp only [OpState.step, hs] at hx
          exact Or.inl hx
      | cons h2 rest2 =>
        refine ⟨?_, ?_⟩
        · intro h' hm
          simp only [OpState.step, hs] at hm
          exact hst h' (by rw [hs]; exact List.mem_cons_of_mem _ hm)
        · intro x hx
          simp only [OpState.step, hs] at hx
          exact Or.inl hx
  | call =>
    cases hs : s.stack with
    | nil => simp only [OpState.step, hs]; exact ⟨by simp, fun x hx => Or.inl hx⟩
    | cons h rest =>
      have hh : h.ctx = c := hst h (by simp [hs])
      refine ⟨?_, ?_⟩
      · intro h' hm
        simp only [OpState.step, hs] at hm
        exact hst h' (by rw [hs]; exact hm)
      · intro x hx
        simp only [OpState.step, hs, List.mem_cons] at hx
        rcases hx with rfl | hx
        · exact Or.inr hh
        · exact Or.inl hx

/-- from ANY state whose live handles are all bound to `c`, every driver call made later -- through
    any tree of context-keeping derivations, at any depth -- carries `c` -/
theorem C18_operation_calls_from (c : Nat) (s : OpState) (ops : List OpStep)
    (hk : ∀ o ∈ ops, o.keeps) (hst : ∀ h ∈ s.stack, h.ctx = c) :
    ∀ x ∈ (s.run ops).calls, x ∈ s.calls ∨ x = c := by
  unfold OpState.run
  induction ops generalizing s with
  | nil => intro x hx; exact Or.inl hx
  | cons o ops ih =>
    intro x hx
    simp only [List.foldl_cons] at hx
    have hi := C18_opstep_inv c s o (hk o (by simp)) hst
    rcases ih (s.step o) (fun o' ho' => hk o' (List.mem_cons_of_mem _ ho')) hi.1 x hx with h1 | h1
    · exact hi.2 x h1
    · exact Or.inr h1

/-- MAIN (operation): EVERY driver call made on behalf of an operation started from a handle bound
    to a context -- the main statement and every statement issued through internally derived handles,
    nested to any depth, in any number and order -- receives exactly that context. -/
theorem C18_operation_calls (h : Handle) (ops : List OpStep) (hk : ∀ o ∈ ops, o.keeps) :
    ∀ x ∈ (runOp h ops).calls, x = h.ctx := by
  intro x hx
  rcases C18_operation_calls_from h.ctx { stack := [h], calls := [] } ops hk (by simp) x hx with h1 | h1
  · simp at h1
  · exact h1

/-- MAIN (cancellation): with the bound context already cancelled, no statement of the operation
    reaches the driver (given database/sql's check of the context it is handed). -/
theorem C18_cancelled_runs_nothing (h : Handle) (ops : List OpStep) (hk : ∀ o ∈ ops, o.keeps)
    (cancelled : Nat → Bool) (hc : cancelled h.ctx = true) :
    reached cancelled (runOp h ops).calls = [] := by
  unfold reached
  rw [List.filter_eq_nil_iff]
  intro x hx
  rw [C18_operation_calls h ops hk x hx, hc]; simp

/-- … and the number of calls carrying the bound context is the number of calls made: none is lost
    to another context -/
theorem C18_operation_all_bound (h : Handle) (ops : List OpStep) (hk : ∀ o ∈ ops, o.keeps) :
    (runOp h ops).calls = List.replicate (runOp h ops).calls.length h.ctx :=
  List.eq_replicate_iff.mpr ⟨rfl, C18_operation_calls h ops hk⟩

/-! ### Refinement: the context of every driver call is the INNERMOST enclosing binding

The abstract specification forgets handles, statements, clone modes and flags: a stack of contexts;
a caller session naming a context pushes that context, every other derivation pushes the current
one again, a call logs the top.  The concrete machine (regenerated `Session()` / `getInstance()`
bodies, internal session call sites) refines it step by step. -/
def OpStep.ok : OpStep → Prop
  | .enter (.userSession _ _) => True      -- the caller may re-bind, with any flags
  | .enter d => d.keeps
  | _ => True

def specCtx (cur : Nat) : Deriv → Nat
  | .userSession fl c => if fl .hasContext then c else cur
  | _ => cur

structure CtxSpec where
  stack : List Nat
  calls : List Nat
deriving Repr, DecidableEq

def CtxSpec.step (s : CtxSpec) : OpStep → CtxSpec
  | .enter d => match s.stack with
    | [] => s
    | c :: rest => { s with stack := specCtx c d :: c :: rest }
  | .leave => match s.stack with
    | _ :: c :: rest => { s with stack := c :: rest }
    | _ => s
  | .call => match s.stack with
    | [] => s
    | c :: _ => { s with calls := c :: s.calls }

def OpState.abs (s : OpState) : CtxSpec := { stack := s.stack.map (·.ctx), calls := s.calls }

theorem C18_step_ctx (h : Handle) (d : Deriv) (hk : (OpStep.enter d).ok) :
    (h.step d).ctx = specCtx h.ctx d := by
  cases d with
  | getInstance => exact C18_step_keeps h _ hk
  | session u fl => exact C18_step_keeps h _ hk
  | userSession fl c =>
    cases hc : fl .hasContext with
    | false =>
      have := C18_step_keeps h (.userSession fl c) hc
      simpa [specCtx, hc] using this
    | true =>
      have g := C18_session_context_set fl hc
      simp [specCtx, Handle.step, Handle.afterSession, g.1, g.2.1, CtxSym.concrete, hc]

theorem C18_opstep_refines (s : OpState) (o : OpStep) (hk : o.ok) :
    (s.step o).abs = s.abs.step o := by
  cases o with
  | enter d =>
    cases hs : s.stack with
    | nil => simp [OpState.step, CtxSpec.step, OpState.abs, hs]
    | cons h rest => simp [OpState.step, CtxSpec.step, OpState.abs, hs, C18_step_ctx h d hk]
  | leave =>
    cases hs : s.stack with
    | nil => simp [OpState.step, CtxSpec.step, OpState.abs, hs]
    | cons h rest =>
      cases rest with
      | nil => simp [OpState.step, CtxSpec.step, OpState.abs, hs]
      | cons h2 rest2 => simp [OpState.step, CtxSpec.step, OpState.abs, hs]
  | call =>
    cases hs : s.stack with
    | nil => simp [OpState.step, CtxSpec.step, OpState.abs, hs]
    | cons h rest => simp [OpState.step, CtxSpec.step, OpState.abs, hs]

/-- MAIN (refinement): for ANY operation tree in which the caller re-binds wherever it likes and all
    other derivations are the ones gorm performs, the log of contexts handed to database/sql is the
    log of the abstract specification: each call carries the innermost enclosing binding, a
    re-binding is visible exactly inside the sub-tree it encloses and gone after `leave`. -/
theorem C18_operation_refines (s : OpState) (ops : List OpStep) (hk : ∀ o ∈ ops, o.ok) :
    (s.run ops).abs = ops.foldl CtxSpec.step s.abs := by
  unfold OpState.run
  induction ops generalizing s with
  | nil => rfl
  | cons o ops ih =>
    simp only [List.foldl_cons]
    rw [ih (s.step o) (fun o' ho' => hk o' (List.mem_cons_of_mem _ ho')), C18_opstep_refines s o (hk o (by simp))]

theorem C18_operation_calls_spec (h : Handle) (ops : List OpStep) (hk : ∀ o ∈ ops, o.ok) :
    (runOp h ops).calls = (ops.foldl CtxSpec.step { stack := [h.ctx], calls := [] }).calls := by
  have := congrArg CtxSpec.calls (C18_operation_refines { stack := [h], calls := [] } ops hk)
  simpa [runOp, OpState.abs] using this

/-- non-vacuity: bound to 7; a sibling sub-tree re-bound to 9 (with NewDB) issues two calls, the
    calls before and after it carry 7 -/
example : (runOp { ctx := 7, clone := 1 }
      [.enter .getInstance, .call,
       .enter (.userSession (SessFlags.ofList [.newDB, .hasContext]) 9), .enter .getInstance, .call, .call, .leave, .leave,
       .call]).calls = [7, 9, 9, 7] := by decide

/-- non-vacuity: a handle bound to 7, main statement, a preload session issuing two calls, back, one more -/
example : ∃ u ∈ sessionUses, u.fn = "preloadDB" ∧
    (runOp { ctx := 7, clone := 1 }
      [.enter .getInstance, .call, .enter (.session u (SessFlags.ofList [])), .enter .getInstance, .call, .call,
       .leave, .leave, .call]).calls = [7, 7, 7, 7] := by decide

/-- non-vacuity: a concrete path through real call sites (preload session, callMethod session) -/
example : ∃ u ∈ sessionUses, u.fn = "preloadDB" ∧ u.ctxField = some "db.Statement.Context" := by decide
example : ({ ctx := 7, clone := 1 } : Handle).derive [.getInstance, .getInstance] = { ctx := 7, clone := 0 } := by decide
/-- the flag combination `Session{NewDB: true, Context: c}` on a handle bound to 7: the next statement runs with `c` = 9 -/
example : (({ ctx := 7, clone := 2 } : Handle).derive
    [.userSession (SessFlags.ofList [.newDB, .hasContext]) 9, .getInstance]) = { ctx := 9, clone := 0 } := by decide
example : (sessionRun (SessFlags.ofList [.newDB, .hasContext])).shared = false := by decide
example : (sessionRun (SessFlags.ofList [.newDB])).shared = true := by decide
example : sessionProg.length ≥ 5 ∧ (progFlags sessionProg).length ≥ 5 := by decide

end Gorm
