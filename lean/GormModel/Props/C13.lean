/-
  C13 — hooks run once per record, in documented order; SkipHooks runs none.
  Theorems over the regenerated handler tables and the `callMethod` model.
-/
import GormModel.Model.Hooks
import GormModel.Model.HookSchema
import GormModel.Gen.HookFacts
import GormModel.Gen.Pipelines
import GormModel.Gen.Misc
import GormModel.Gen.Finishers
import GormModel.Gen.VisitFacts
import GormModel.Lemmas.HookVisit
import GormModel.Lemmas.HookWalk
import GormModel.Gen.HookWalk
import GormModel.Model.HookNested
import GormModel.Gen.AssocSessions
namespace Gorm
open Gen

/-- every hook-running callback is dominated by Error == nil ∧ Schema != nil ∧ !SkipHooks -/
theorem C13_hook_guards :
    ∀ h ∈ handlers, ∀ c ∈ h.calls, c.kind = "callMethod" →
      "db.Error == nil" ∈ c.guards ∧ "db.Statement.Schema != nil" ∈ c.guards ∧ "!db.Statement.SkipHooks" ∈ c.guards := by
  decide

/-- a hook method is only ever invoked from inside a `callMethod` closure of a registered handler,
    and its error goes to AddError -/
theorem C13_hooks_only_via_callMethod :
    ∀ h ∈ handlers, (∃ c ∈ h.calls, c.kind = "hook") →
      (h.callsMethod = true ∧ ∀ c ∈ h.calls, c.kind = "hook" →
        c.inClosure = true ∧ ∃ a ∈ h.calls, a.kind = "adderror" ∧ a.what = "i." ++ c.what ++ "(tx)") := by
  decide

/-- documented order of the interface tests inside each hook callback -/
theorem C13_hook_order :
    (handlers.filter (fun h => h.callsMethod)).map (fun h => (h.name, h.hooks)) =
      [("AfterCreate", ["AfterCreate", "AfterSave"]), ("AfterDelete", ["AfterDelete"]),
       ("AfterQuery", ["AfterFind"]), ("AfterUpdate", ["AfterUpdate", "AfterSave"]),
       ("BeforeCreate", ["BeforeSave", "BeforeCreate"]), ("BeforeDelete", ["BeforeDelete"]),
       ("BeforeUpdate", ["BeforeSave", "BeforeUpdate"])] := by
  decide

/-- phases: in every pipeline the before-hooks callback precedes the statement-sending callback, which
    precedes the after-hooks callback; the whole lies between begin and commit (C05_shape) -/
theorem C13_phase_order :
    (pipelines.map fun p => (p.1, p.2.map (·.handler) |>.filter (fun h =>
        h ∈ ["BeforeCreate", "Create", "AfterCreate", "BeforeUpdate", "Update", "AfterUpdate",
             "BeforeDelete", "Delete", "AfterDelete", "Query", "AfterQuery"]))) =
      [("create", ["BeforeCreate", "Create", "AfterCreate"]), ("query", ["Query", "AfterQuery"]),
       ("delete", ["BeforeDelete", "Delete", "AfterDelete"]), ("update", ["BeforeUpdate", "Update", "AfterUpdate"]),
       ("row", []), ("raw", [])] := by
  decide

/-- MAIN (once per record, in index order): for a slice of n addressable records whose container does
    not itself implement the hook, `callMethod` invokes the closure for records 0,1,…,n-1, each exactly once. -/
theorem C13_once_per_record (n : Nat) :
    callMethod false (.slice (List.replicate n true)) = (List.range n).map CallOut.call := by
  unfold callMethod
  simp only [Bool.false_eq_true, if_false]
  suffices h : ∀ k, callSlice (List.replicate n true) k = (List.range n).map (fun i => CallOut.call (k + i)) by
    simpa using h 0
  induction n with
  | zero => intro k; simp [callSlice]
  | succ n ih =>
    intro k
    simp only [List.replicate_succ, callSlice, if_true]
    rw [ih (k+1), List.range_succ_eq_map]
    simp [List.map_map, Function.comp_def, Nat.add_assoc, Nat.add_comm 1]

/-- a non-addressable element stops the loop with ErrInvalidValue: every record before it was called
    exactly once, none after it -/
theorem C13_invalid_value_stops (n : Nat) (rest : List Bool) :
    callMethod false (.slice (List.replicate n true ++ false :: rest)) =
      (List.range n).map CallOut.call ++ [CallOut.invalidValue] := by
  unfold callMethod
  simp only [Bool.false_eq_true, if_false]
  suffices h : ∀ k, callSlice (List.replicate n true ++ false :: rest) k =
      (List.range n).map (fun i => CallOut.call (k + i)) ++ [CallOut.invalidValue] by
    simpa using h 0
  induction n with
  | zero => intro k; simp [callSlice]
  | succ n ih =>
    intro k
    simp only [List.replicate_succ, List.cons_append, callSlice, if_true]
    rw [ih (k+1), List.range_succ_eq_map]
    simp [List.map_map, Function.comp_def, Nat.add_assoc, Nat.add_comm 1]

/-- MAIN (SkipHooks): with `Statement.SkipHooks` set, whatever the other conditions evaluate to, no
    pipeline can reach a `callMethod` call -- no hook of any kind fires. -/
theorem C13_skip (st : RunSt) (env : String → Bool) (hs : st.skipHooks = true) :
    ∀ p ∈ pipelines, possibleCalls handlers p.2 st env ["callMethod"] = [] := by
  intro p _
  unfold possibleCalls
  rw [List.flatMap_eq_nil_iff]
  intro r _
  split
  · cases hh : handlerOf handlers r.handler with
    | none => rfl
    | some h =>
      simp only [List.map_eq_nil_iff, List.filter_eq_nil_iff]
      intro c hc
      have hmem : h ∈ handlers := by
        unfold handlerOf at hh; exact List.mem_of_find?_eq_some hh
      by_cases hk : c.kind = "callMethod"
      · have hg := (C13_hook_guards h hmem c hc hk).2.2
        have hv : atomVal st env "!db.Statement.SkipHooks" = false := by simp [atomVal, hs]
        have := enabled_false_of_mem c st env _ hg hv
        simp [this]
      · simp [hk]
  · rfl

/-- the column-update finishers switch SkipHooks on; nothing ever switches it off (assignments are
    `true`, or copy the parent's / the session's flag) -/
theorem C13_updateColumn_skips :
    ("finisher_api.go", "DB.UpdateColumn", "true") ∈ skipHooksAssigns ∧
    ("finisher_api.go", "DB.UpdateColumns", "true") ∈ skipHooksAssigns ∧
    (∀ a ∈ skipHooksAssigns, a.2.2 = "true") := by
  decide

/-- the per-record event list has exactly one event per (record, implemented hook of the handler),
    records in index order -/
theorem C13_events_count (hooks : List String) (has : String → Bool) (n i : Nat) :
    (hookEventsOf hooks has n i).length = n * (hooks.filter has).length := by
  induction n generalizing i with
  | zero => simp [hookEventsOf]
  | succ n ih => simp [hookEventsOf, ih, Nat.succ_mul, Nat.add_comm]

/-- the predicted event list of a create over 2 records with all hooks: documented order -/
example : opEvents handlers ((pipelines.find? (fun p => p.1 = "create")).get!.2) (fun _ => true) 2 =
    [.hook "BeforeSave" 0, .hook "BeforeCreate" 0, .hook "BeforeSave" 1, .hook "BeforeCreate" 1, .stmt,
     .hook "AfterCreate" 0, .hook "AfterSave" 0, .hook "AfterCreate" 1, .hook "AfterSave" 1] := by
  decide

/-! ## Compound finishers -/

/-- MAIN (exactly once across compound finishers): on EVERY control-flow path of EVERY finisher of
    finisher_api.go -- with re-entered finishers expanded (Save -> Create -> CreateInBatches) and entries whose
    handle derives from `Session{SkipHooks: true}` counted as hook-free (`C13_skip`) -- no hook name can be fired
    by two pipelines of the same call: e.g. Save's UPDATE pipeline and its upsert fallback never both run
    BeforeSave/AfterSave.  (Regenerated from the Session literals / Execute calls / control flow of /repo.) -/
theorem C13_finishers_no_hook_twice :
    ∀ f ∈ finishers, ∀ run ∈ runsOf finishers skipHookFinishers 4 false f.fn, (runHooks pipelines handlers run).Nodup := by
  decide

/-- the runs of Save are exactly: upsert-create of a slice; create (zero key); update; update followed by the
    hook-less upsert -- and FirstOrCreate: query; query+create; query+update -/
theorem C13_save_runs :
    let same (a b : List (List (String × Bool))) : Bool := a.all (fun x => b.contains x) && b.all (fun x => a.contains x)
    same (runsOf finishers skipHookFinishers 4 false "DB.Save")
      [[("create", true)], [("update", true)], [("update", true), ("create", false)]] = true ∧
    same (runsOf finishers skipHookFinishers 4 false "DB.FirstOrCreate")
      [[("query", true)], [("query", true), ("create", true)], [("query", true), ("update", true)]] = true := by
  decide

/-- the column-update methods run their pipeline with hooks off; Update/Updates with hooks on -/
theorem C13_updateColumn_runs :
    runsOf finishers skipHookFinishers 4 false "DB.UpdateColumn" = [[("update", false)]] ∧
    runsOf finishers skipHookFinishers 4 false "DB.UpdateColumns" = [[("update", false)]] ∧
    runsOf finishers skipHookFinishers 4 false "DB.Updates" = [[("update", true)]] ∧
    runsOf finishers skipHookFinishers 4 false "DB.Update" = [[("update", true)]] ∧
    runsOf finishers skipHookFinishers 4 false "DB.Delete" = [[("delete", true)]] := by
  decide

/-- pipelines that may run more than once in one call (inside a loop, not in a `return`) with hooks on: only
    CreateInBatches' per-batch create, whose Dest is the sub-slice `value[i:ends]` of the batch loop
    (`C13_batches_partition`: every record lies in exactly one batch), and FindInBatches' per-batch query -/
theorem C13_repeatable_entries :
    (finishers.flatMap fun f => (f.entries.filter fun e => e.inLoop && !e.returned && !e.skipHooks).map
        fun e => (f.fn, e.kind, e.callee, e.destSrc)) =
      [("DB.CreateInBatches", "create", "", "reflectValue.Slice(i, ends).Interface()"),
       ("DB.FindInBatches", "", "Find", "")] ∧
    (txClosures.map fun c => (c.fn, c.loopHeader)) = [("DB.CreateInBatches", "i := 0; i < reflectLen; i += batchSize")] := by
  decide

/-- MAIN (the operation's own transaction, data flow): a closure that is handed to `Transaction` uses no *DB handle
    of the enclosing finisher (receiver, parameters, named results) -- only its own parameter, the transaction --
    and every pipeline entered inside it runs on a handle derived from that parameter -/
theorem C13_tx_closures_use_own_tx :
    ∀ c ∈ txClosures, "Transaction" ∈ c.passedTo →
      c.outerDBUses = [] ∧ c.entryIds ≠ [] ∧
      ∀ f ∈ finishers, f.fn = c.fn → ∀ e ∈ f.entries, e.id ∈ c.entryIds → e.inClosure = true ∧ e.rootIsClosureParam = true := by
  decide

/-- non-vacuity: CreateInBatches has such a closure -/
example : ∃ c ∈ txClosures, c.fn = "DB.CreateInBatches" ∧ "Transaction" ∈ c.passedTo := by
  decide

theorem batchFrom_cover (b n : Nat) (hb : 1 ≤ b) :
    ∀ fuel i, n - i ≤ fuel → i ≤ n →
      (batchFrom b n fuel i).flatMap (fun r => List.range' r.1 (r.2 - r.1)) = List.range' i (n - i) := by
  intro fuel
  induction fuel with
  | zero =>
    intro i hf hi
    have : n - i = 0 := by omega
    simp [batchFrom, this]
  | succ fuel ih =>
    intro i hf hi
    unfold batchFrom
    by_cases hlt : i < n
    · simp only [hlt, if_true, List.flatMap_cons]
      by_cases hle : i + b ≤ n
      · have hm : min (i + b) n = i + b := Nat.min_eq_left hle
        rw [hm, ih (i + b) (by omega) hle]
        have h1 : i + b - i = b := by omega
        have h2 : n - i = b + (n - (i + b)) := by omega
        rw [h1, h2, ← List.range'_append_1]
      · have hm : min (i + b) n = n := Nat.min_eq_right (by omega)
        rw [hm]
        have hnil : batchFrom b n fuel (i + b) = [] := by
          cases fuel with
          | zero => rfl
          | succ k => unfold batchFrom; simp; omega
        simp [hnil]
    · have : n - i = 0 := by omega
      simp [hlt, this]

/-- MAIN (batches): for every length n and batch size b >= 1 the batches of CreateInBatches, concatenated, are
    exactly the records 0..n-1 in order: every record is handed to exactly one per-batch create pipeline -/
theorem C13_batches_partition (n b : Nat) (hb : 1 ≤ b) :
    (batchRanges n b).flatMap (fun r => List.range' r.1 (r.2 - r.1)) = List.range n := by
  have := batchFrom_cover b n hb n 0 (by omega) (by omega)
  simpa [batchRanges, List.range_eq_range'] using this

example : batchRanges 5 2 = [(0, 2), (2, 4), (4, 5)] := by decide

/-- the predicted events of CreateInBatches over 3 records in batches of 2 -/
example : compoundEvents pipelines handlers (fun _ => true) [("create", true)] 3 (batchRanges 3 2) =
    [.hook "BeforeSave" 0, .hook "BeforeCreate" 0, .hook "BeforeSave" 1, .hook "BeforeCreate" 1, .stmt,
     .hook "AfterCreate" 0, .hook "AfterSave" 0, .hook "AfterCreate" 1, .hook "AfterSave" 1,
     .hook "BeforeSave" 2, .hook "BeforeCreate" 2, .stmt, .hook "AfterCreate" 2, .hook "AfterSave" 2] := by
  decide

/-! ## Hook detection by method set (schema.Parse) -/

def nineHooks : List String :=
  ["BeforeCreate", "AfterCreate", "BeforeUpdate", "AfterUpdate", "BeforeSave", "AfterSave", "BeforeDelete", "AfterDelete", "AfterFind"]

/-- the regenerated detection tables of schema/schema.go: the nine constants carry their own names, the loop visits
    all nine, every arm of `callBackToMethodValue` looks up ITS OWN constant, exactly the signature
    `func(*gorm.DB) error` is accepted, the flag set is the field named by the loop variable, the method set
    inspected is the pointer's (`reflect.New(modelType)`), and Schema has exactly these nine bool hook fields -/
theorem C13_detection_table :
    hookTypesLoop.map (fun l => lookupS hookTypeConsts l) = nineHooks.map some ∧
    (∀ l ∈ hookTypesLoop, lookupS hookMethodArms l = some l) ∧
    hookSigCases = [("func(*gorm.DB) error", "true"), ("default", "false")] ∧
    hookSigSwitchTag = "methodValue.Type().String()" ∧
    hookFlagSetExpr = "reflect.Indirect(reflect.ValueOf(schema)).FieldByName(string(cbName)).SetBool(true)" ∧
    hookLookupCall = "callBackToMethodValue(modelValue, cbName)" ∧ hookModelValueDef = "reflect.New(modelType)" ∧
    (∀ h ∈ nineHooks, h ∈ schemaHookFields) ∧ schemaHookFields.length = 9 := by
  decide

/-- MAIN (detection): for EVERY method set, schema.Parse sets the flag of hook h exactly when the (pointer) method
    set has a method named h of type `func(*gorm.DB) error` -- each of the nine flags depends on its own method only -/
theorem sigAccepted_gen (sig : String) : sigAccepted hookSigCases sig = (sig == "func(*gorm.DB) error") := by
  unfold sigAccepted lookupS hookSigCases
  by_cases h : sig = "func(*gorm.DB) error"
  · subst h; decide
  · by_cases h2 : sig = "default"
    · subst h2; decide
    · have h' : ("func(*gorm.DB) error" == sig) = false := beq_eq_false_iff_ne.mpr (fun hh => h hh.symm)
      have h2' : ("default" == sig) = false := beq_eq_false_iff_ne.mpr (fun hh => h2 hh.symm)
      simp [List.find?, h', h2', h]

theorem C13_flags_exact (ms : List Meth) :
    genFlags ms = nineHooks.map fun h => (h, hasHook ms h) := by
  simp [genFlags, schemaFlags, hookFlag, sigAccepted_gen, hasHook, nineHooks,
    hookTypeConsts, hookMethodArms, hookTypesLoop, lookupS]

/-- every interface of callbacks/interfaces.go has exactly one method, named like the interface, of hook signature -/
theorem C13_interfaces_table :
    hookInterfaces = nineHooks.map fun h => (h ++ "Interface", [(h, "(*gorm.DB) error")]) := by
  decide

theorem C13_implements_exact (ms : List Meth) :
    ∀ h ∈ nineHooks, implementsI hookInterfaces ms (h ++ "Interface") = hasHook ms h := by
  intro h hh
  simp [nineHooks] at hh
  rcases hh with rfl | rfl | rfl | rfl | rfl | rfl | rfl | rfl | rfl <;>
    simp [implementsI, hookInterfaces, hasHook]

/-- every call site `i.H(tx)`: the type assertion is to H's interface, and -- whatever the nine flags and the
    type assertions evaluate to -- it runs iff H's OWN flag is set and the value implements H's interface -/
theorem C13_site_guards (flag impl : String → Bool) :
    ∀ s ∈ hookSites, s.iface = s.hook ++ "Interface" ∧ s.hook ∈ nineHooks ∧
      siteFiresWith flag impl s = (flag s.hook && impl s.iface) := by
  intro s hs
  simp [hookSites] at hs
  rcases hs with rfl | rfl | rfl | rfl | rfl | rfl | rfl | rfl | rfl | rfl | rfl <;>
    (refine ⟨by decide, by decide, ?_⟩
     simp [siteFiresWith, evalH, hooksOnEnv]
     try (cases flag _ <;> simp))

/-- MAIN (exactly the model's hooks): in the current tree, for EVERY method set, a hook call site fires for a record
    iff the model has that hook -/
theorem C13_fires_iff_method (ms : List Meth) :
    ∀ s ∈ hookSites, siteFires ms s = hasHook ms s.hook := by
  intro s hs
  obtain ⟨hi, hn, hf⟩ := C13_site_guards (flagOf (genFlags ms)) (implementsI hookInterfaces ms) s hs
  have hflag : flagOf (genFlags ms) s.hook = hasHook ms s.hook := by
    rw [C13_flags_exact]
    simp [nineHooks] at hn
    rcases hn with h | h | h | h | h | h | h | h | h <;> simp [h, flagOf, nineHooks]
  have himpl : implementsI hookInterfaces ms s.iface = hasHook ms s.hook := by
    rw [hi]; exact C13_implements_exact ms s.hook hn
  unfold siteFires
  rw [hf, hflag, himpl, Bool.and_self]

/-- the handlers' hook lists (Gen.handlers) and the call sites (Gen.hookSites) describe the same calls in the same order -/
theorem C13_sites_match_handlers :
    ∀ h ∈ handlers, h.callsMethod = true →
      (hookSites.filter fun s => s.handler == h.name).map (·.hook) = h.hooks := by
  decide

/-- consequence: the event list for a method set is the event list of `opEvents` with `has` = "the model has the hook" -/
theorem C13_events_by_method_set (ms : List Meth) (handler : String) (hooks : List String) (n i : Nat)
    (hsub : ∀ h ∈ hooks, firesIn ms handler h = hasHook ms h) :
    hookEventsIn ms handler hooks n i = hookEventsOf hooks (hasHook ms) n i := by
  have hfilter : hooks.filter (firesIn ms handler) = hooks.filter (hasHook ms) :=
    List.filter_congr (fun h hh => hsub h hh)
  induction n generalizing i with
  | zero => simp [hookEventsIn, hookEventsOf]
  | succ n ih => simp [hookEventsIn, hookEventsOf, ih, hfilter]

example : firesIn [⟨"AfterDelete", "func(*gorm.DB) error"⟩] "AfterDelete" "AfterDelete" = true := by decide
example : firesIn [⟨"BeforeDelete", "func(*gorm.DB) error"⟩] "AfterDelete" "AfterDelete" = false := by decide
example : firesIn [⟨"AfterSave", "func() error"⟩] "AfterCreate" "AfterSave" = false := by decide

/-! ## Hook error values -/

/-- MAIN (any error rolls back): when the default transaction was started, CommitOrRollbackTransaction of the current
    tree rolls back for EVERY non-nil error value -- sentinel (gorm.ErrRecordNotFound, sql.ErrTxDone, context.Canceled,
    io.EOF …), wrapped, joined, chained by AddError, or with its own `Is` method -- and commits only without error -/
theorem C13_any_error_rolls_back (atom : String → Bool) (e : ErrV)
    (hskip : atom "db.Config.SkipDefaultTransaction" = false) (hstarted : atom "ok" = true) :
    txDecision atom (some e) = ["db.Rollback"] ∧ txDecision atom none = ["db.Commit"] := by
  simp [txDecision, callsUnder, commitOrRollbackActs, evalH, errEnv, hskip, hstarted]

/-- DB.AddError keeps any error: with `db.Error = cur` it stores e itself (cur = nil) or `fmt.Errorf("%v; %w", cur, e)`,
    which `errors.Is`-matches exactly what e matches and still carries e -/
theorem C13_addError_keeps (atom : String → Bool) (cur : Option ErrV) (e : ErrV)
    (htr : atom "db.Config.TranslateError" = false) :
    ∃ r, hookAddError atom cur e = some r ∧ r.carries e = true ∧ (∀ s, r.is s = e.is s) ∧ (cur = none → r = e) := by
  cases cur with
  | none =>
    refine ⟨e, ?_, ?_, fun _ => rfl, fun _ => rfl⟩
    · simp [hookAddError, hookAddErrorWith, callsUnder, addErrorWrites, evalH, errEnv, htr]
    · cases e <;> simp [ErrV.carries]
  | some c =>
    refine ⟨.chain c e, ?_, ?_, fun _ => by simp [ErrV.is], fun h => by simp at h⟩
    · simp [hookAddError, hookAddErrorWith, callsUnder, addErrorWrites, evalH, errEnv, htr]
    · cases e <;> simp [ErrV.carries]

/-- MAIN (hook error ⇒ rollback): a hook returns e (`db.AddError(i.H(tx))`, C13_hooks_only_via_callMethod) with any
    earlier error state: afterwards db.Error is non-nil, so every later hook callback is disabled (`db.Error == nil`
    guard, C13_hook_guards) and the default transaction is rolled back, whatever e is -/
theorem C13_hook_error_rolls_back (atom : String → Bool) (cur : Option ErrV) (e : ErrV)
    (htr : atom "db.Config.TranslateError" = false)
    (hskip : atom "db.Config.SkipDefaultTransaction" = false) (hstarted : atom "ok" = true) :
    ∃ r, hookAddError atom cur e = some r ∧ txDecision atom (hookAddError atom cur e) = ["db.Rollback"] := by
  obtain ⟨r, hr, _⟩ := C13_addError_keeps atom cur e htr
  exact ⟨r, hr, by rw [hr]; exact (C13_any_error_rolls_back atom r hskip hstarted).1⟩

/-- nothing on the way from a hook to the end of the transaction looks at WHICH error it has, except the two known
    places that concern other errors (Begin's ErrInvalidTransaction, Parse's ErrUnsupportedDataType) -/
theorem C13_no_error_value_tests :
    hookPathErrTests =
      [("callbacks.go", "processor.Execute", "errors.Is(err, schema.ErrUnsupportedDataType)"),
       ("callbacks.go", "processor.Execute", "errors.Is(err, schema.ErrUnsupportedDataType)"),
       ("callbacks/transaction.go", "BeginTransaction", "tx.Error == gorm.ErrInvalidTransaction")] ∧
    addErrorReturns.map (·.call) = ["return db.Error"] := by
  decide

example : (ErrV.wrap (.sentinel "gorm.ErrRecordNotFound")).is "gorm.ErrRecordNotFound" = true := by decide
example : txDecision (fun a => a == "ok") (some (.join (.plain 1) (.sentinel "gorm.ErrRecordNotFound"))) = ["db.Rollback"] := by decide

/-! ## Round 3 — association GRAPHS (shared in-memory records) and the visit map

  `Gorm.VGraph.run` (Model/HookVisit.lean) transcribes loadOrStoreVisitMap, checkAssociationsSaved, saveAssociations and the
  pipeline order of the nested Creates; it is tied to the real code on generated graphs (suite `graphs`: recorded
  hook / statement log with statement identities vs `VGraph.run`).

  Repairs.  The three defects found here (F27 mixed record list, F28 the operation's own value is never registered,
  F29 the same new pointer twice in one list) have small repairs (fixes/F27…, F28…, F29….patch).  The model takes the
  presence of each repair as a parameter (`VFix`), the regenerated facts Gen.visitFilter / visitRoot / visitDistinct say
  which of them the tree under check carries (`genVisitFix`), and the `…_current_tree` theorems are stated so that the
  SAME statements hold on the unrepaired and on the repaired tree. -/

/-- loadOrStoreVisitMap over a record list: "loaded" iff EVERY element was registered before; afterwards all are -/
theorem C13_loadOrStore_spec (V es : List Nat) :
    (loadOrStore V es).1 = es.all (fun e => V.contains e) ∧
    ∀ x, x ∈ (loadOrStore V es).2 ↔ x ∈ es ∨ x ∈ V :=
  ⟨loadOrStore_loaded V es, fun x => loadOrStore_mem V es x⟩

/-- checkAssociationsSaved: with or without a visit map in the Settings, a non-empty record list is answered
    "saved" iff all its records are registered, and afterwards all of them ARE registered (the "no map yet" branch
    registers them too — the branch a seeded fault emptied) -/
theorem C13_checkSaved_spec (es : List Nat) (v : Option (List Nat)) (hne : es ≠ []) :
    (checkSaved es v).1 = es.all (fun e => (v.getD []).contains e) ∧
    (checkSaved es v).2.isSome = true ∧
    ∀ x, x ∈ (checkSaved es v).2.getD [] ↔ x ∈ es ∨ x ∈ v.getD [] :=
  ⟨checkSaved_loaded es v hne, checkSaved_isSome es v, fun x => checkSaved_mem es v x⟩

/-- the guard of saveAssociations, WHICHEVER repairs it carries (`B` = the records registered when it runs: the map's
    content, or -- F28 repaired, no map yet -- the statement's own value): afterwards every record of the list is
    registered; it skips only when all were; otherwise the list handed to the nested Create is a sub-list that covers
    every unregistered record and holds one; with the F27 repair it holds nothing else and nothing twice -/
theorem C13_guard_spec (fx : VFix) (own elems : List Nat) (v : Option (List Nat)) (hne : elems ≠ []) :
    let r := saveGuard fx own elems v
    let B := visitBase fx.root own v
    r.2.2.isSome = true ∧ (∀ x, x ∈ r.2.2.getD [] ↔ x ∈ elems ∨ x ∈ B) ∧
    (r.2.1 = true → ∀ e, e ∈ elems → e ∈ B) ∧
    (r.2.1 = false → (∀ x, x ∈ r.1 → x ∈ elems) ∧ (∀ x, x ∈ elems → x ∈ r.1 ∨ x ∈ B) ∧ (∃ e, e ∈ r.1 ∧ e ∉ B)) ∧
    (fx.filter = true → (∀ x, x ∈ r.1 → x ∉ B) ∧ r.1.Nodup) ∧
    (fx.filter = false → r.1 = elems) :=
  saveGuard_spec fx own elems v hne

/-- for EVERY finite association graph (any sharing, any cycles) and every combination of repairs the traversal
    terminates: fuel `size + 1` is never exhausted (induction on the number of unregistered records) -/
theorem C13_visit_terminates (fx : VFix) (g : VGraph) (roots existing : List Nat) :
    (g.run fx roots existing).ok = true :=
  visit_terminates fx g roots existing

/-- every record reachable from the operation's value through association fields is saved (its before-hooks fire)
    at least once -/
theorem C13_visit_complete (fx : VFix) (g : VGraph) (roots existing : List Nat) (n : Nat) :
    VReach g roots n → 1 ≤ saveCount n (g.run fx roots existing).log :=
  visit_complete fx g roots existing n

/-- nothing else is saved -/
theorem C13_visit_sound (fx : VFix) (g : VGraph) (roots existing : List Nat) (n : Nat)
    (hslots : g.nbefore ≤ g.nslots) :
    1 ≤ saveCount n (g.run fx roots existing).log → VReach g roots n :=
  visit_sound fx g roots existing n hslots

/-- the after-hooks of a record fire exactly as often as its before-hooks (failure-free run) -/
theorem C13_visit_balanced (fx : VFix) (g : VGraph) (roots existing : List Nat) (n : Nat) :
    afterCount n (g.run fx roots existing).log = saveCount n (g.run fx roots existing).log :=
  visit_balanced fx g roots existing n

/-- F27 (mixed record list), F28 (a record of the operation's own value is reachable again), F29 (the same new
    record twice in one list): the UNREPAIRED code (`{}` = all repairs absent) fires a record's hooks twice -/
theorem C13_visit_mixed_counterexample :
    saveCount 2 (visitG2.run {} [0] []).log = 2 ∧ (visitG2.run {} [0] []).clean = false := visit_mixed_counterexample
theorem C13_visit_backpointer_counterexample :
    saveCount 0 (visitG3.run {} [0] []).log = 2 ∧ (visitG3.run {} [0] []).clean = false :=
  visit_backpointer_counterexample
theorem C13_visit_duplicate_counterexample :
    saveCount 1 (visitG4.run {} [0] []).log = 2 ∧ (visitG4.run {} [0] []).clean = false :=
  visit_duplicate_counterexample

/-- EXACTLY ONCE per in-memory record, for every finite association graph on which none of the three listed patterns
    occurs (`clean`: every executed association record list was duplicate-free, disjoint from the registered records
    and from the operation's own value): each reachable record's before-hooks and after-hooks fire exactly once, every
    other record's never.  (Holds for every combination of repairs; `{}` is the pinned commit.) -/
theorem C13_visit_once_partial (fx : VFix) (g : VGraph) (roots existing : List Nat)
    (hr : roots.Nodup) (hc : (g.run fx roots existing).clean = true) (n : Nat) :
    (VReach g roots n →
      saveCount n (g.run fx roots existing).log = 1 ∧ afterCount n (g.run fx roots existing).log = 1) ∧
    (g.nbefore ≤ g.nslots → ¬ VReach g roots n → saveCount n (g.run fx roots existing).log = 0) := by
  constructor
  · intro h
    have h1 := visit_complete fx g roots existing n h
    have h2 := visit_at_most_once fx g roots existing hr hc n
    have h3 := visit_balanced fx g roots existing n
    omega
  · intro hs h
    refine Nat.eq_zero_of_not_pos (fun hpos => h (visit_sound fx g roots existing n hs hpos))

/-- non-vacuity: a diamond (root → {b, c}, b → c) is clean and c is saved once -/
example : (visitG1.run {} [0] []).clean = true ∧ saveCount 2 (visitG1.run {} [0] []).log = 1 := visit_diamond_example

/-- each repair removes ITS pattern for good: with the element-wise guard (F27) no nested Create ever receives a
    registered record; with the statement's own value registered at map creation (F28) none receives an unregistered
    record of the operation's value; with the element-wise guard or the pointer de-duplication (F29) none receives a
    record twice -- for every graph -/
theorem C13_visit_repairs (fx : VFix) (g : VGraph) (roots existing : List Nat) :
    (fx.filter = true → (g.run fx roots existing).cleanMixed = true) ∧
    (fx.root = true → (g.run fx roots existing).cleanRoot = true) ∧
    (fx.filter = true ∨ fx.distinct = true → (g.run fx roots existing).cleanDup = true) :=
  ⟨fun h => visit_cleanMixed fx h g roots existing, fun h => visit_cleanRoot fx h g roots existing,
    fun h => visit_cleanDup fx h g roots existing⟩

/-- FULL STRENGTH, F27 and F28 repaired (F29 is then repaired too): for EVERY finite association graph -- diamonds,
    back-pointers to the operation's own value, cycles, repeated pointers -- every record reachable from the operation's
    value fires its before-hooks and its after-hooks exactly once, and no other record fires any.  No hypothesis about
    the graph is left. -/
theorem C13_visit_once (fx : VFix) (hf : fx.filter = true) (hr : fx.root = true) (g : VGraph)
    (roots existing : List Nat) (hnd : roots.Nodup) (n : Nat) :
    (VReach g roots n →
      saveCount n (g.run fx roots existing).log = 1 ∧ afterCount n (g.run fx roots existing).log = 1) ∧
    (g.nbefore ≤ g.nslots → ¬ VReach g roots n → saveCount n (g.run fx roots existing).log = 0) :=
  C13_visit_once_partial fx g roots existing hnd
    (visit_clean_of_fix fx g roots existing (fun h => by simp [hf] at h) (fun h => by simp [hr] at h)
      (fun h => by simp [hf] at h)) n

/-- non-vacuity: the three former witnesses, fully repaired traversal -/
example : saveCount 2 (visitG2.run ⟨true, true, true⟩ [0] []).log = 1 ∧
    saveCount 0 (visitG3.run ⟨true, true, true⟩ [0] []).log = 1 ∧
    saveCount 1 (visitG4.run ⟨true, true, true⟩ [0] []).log = 1 := visit_witnesses_repaired

/-- the tree under check, whatever subset of the repairs it carries: exactly once on every graph, under the
    hypotheses of the patterns whose repair is MISSING only -/
theorem C13_visit_once_current_tree (g : VGraph) (roots existing : List Nat) (hnd : roots.Nodup)
    (h27 : visitFilter = false → (g.run genVisitFix roots existing).cleanMixed = true)
    (h28 : visitRoot = false → (g.run genVisitFix roots existing).cleanRoot = true)
    (h29 : visitFilter = false → visitDistinct = false → (g.run genVisitFix roots existing).cleanDup = true)
    (n : Nat) :
    (VReach g roots n →
      saveCount n (g.run genVisitFix roots existing).log = 1 ∧
      afterCount n (g.run genVisitFix roots existing).log = 1) ∧
    (g.nbefore ≤ g.nslots → ¬ VReach g roots n → saveCount n (g.run genVisitFix roots existing).log = 0) :=
  C13_visit_once_partial genVisitFix g roots existing hnd
    (visit_clean_of_fix genVisitFix g roots existing h27 h28 h29) n

/-- F27 on the tree under check: either the element-wise guard is there (regenerated: Gen.visitFilter) and no nested
    Create of any graph ever receives a registered record, or it is not and the listed witness fires record 2 twice -/
theorem C13_visit_mixed_current_tree :
    (visitFilter = true ∧ ∀ (g : VGraph) (roots existing : List Nat),
      (g.run genVisitFix roots existing).cleanMixed = true) ∨
    (visitFilter = false ∧ saveCount 2 (visitG2.run genVisitFix [0] []).log = 2) := by
  cases h : visitFilter with
  | true => exact Or.inl ⟨rfl, fun g roots existing => visit_cleanMixed genVisitFix h g roots existing⟩
  | false =>
    refine Or.inr ⟨rfl, ?_⟩
    have : genVisitFix = { filter := false, root := visitRoot, distinct := visitDistinct } := by
      unfold genVisitFix; rw [h]
    rw [this]
    exact visit_mixed_needs_filter _ _

/-- F28 on the tree under check: either the visit map is created with the statement's own value registered
    (Gen.visitRoot) and no nested Create of any graph ever receives an unregistered record of the operation's value, or
    it is not and the listed witness fires the root twice -/
theorem C13_visit_backpointer_current_tree :
    (visitRoot = true ∧ ∀ (g : VGraph) (roots existing : List Nat),
      (g.run genVisitFix roots existing).cleanRoot = true) ∨
    (visitRoot = false ∧ saveCount 0 (visitG3.run genVisitFix [0] []).log = 2) := by
  cases h : visitRoot with
  | true => exact Or.inl ⟨rfl, fun g roots existing => visit_cleanRoot genVisitFix h g roots existing⟩
  | false =>
    refine Or.inr ⟨rfl, ?_⟩
    have : genVisitFix = { filter := visitFilter, root := false, distinct := visitDistinct } := by
      unfold genVisitFix; rw [h]
    rw [this]
    exact visit_backpointer_needs_root _ _

/-- F29 on the tree under check: either the element-wise guard or the pointer de-duplication is there and no nested
    Create of any graph ever receives a record twice, or neither is and the listed witness fires record 1 twice -/
theorem C13_visit_duplicate_current_tree :
    ((visitFilter = true ∨ visitDistinct = true) ∧ ∀ (g : VGraph) (roots existing : List Nat),
      (g.run genVisitFix roots existing).cleanDup = true) ∨
    ((visitFilter = false ∧ visitDistinct = false) ∧ saveCount 1 (visitG4.run genVisitFix [0] []).log = 2) := by
  cases h : visitFilter with
  | true =>
    exact Or.inl ⟨Or.inl rfl, fun g roots existing => visit_cleanDup genVisitFix (Or.inl h) g roots existing⟩
  | false =>
    cases h' : visitDistinct with
    | true =>
      exact Or.inl ⟨Or.inr rfl, fun g roots existing => visit_cleanDup genVisitFix (Or.inr h') g roots existing⟩
    | false =>
      refine Or.inr ⟨⟨rfl, rfl⟩, ?_⟩
      have : genVisitFix = { filter := false, root := visitRoot, distinct := false } := by
        unfold genVisitFix; rw [h, h']
      rw [this]
      exact visit_duplicate_needs_filter_or_distinct _

/-- the repairs change NOTHING where the unrepaired code was right: on every graph on which the unrepaired traversal
    shows none of the three patterns, the traversal with any combination of repairs produces the identical event log
    -- the same nested Creates over the same record lists in the same order (hence the same INSERT statements and
    table contents) and the same hook invocations -/
theorem C13_visit_fix_conservative (fx : VFix) (g : VGraph) (roots existing : List Nat)
    (hclean : (g.run {} roots existing).clean = true) :
    (g.run fx roots existing).log = (g.run {} roots existing).log :=
  visit_fix_conservative fx g roots existing hclean

/-- ... and on EVERY graph the repaired traversal saves the same SET of records as the unrepaired one (the reachable
    ones): only the multiplicities differ -/
theorem C13_visit_fix_same_records (fx fx' : VFix) (g : VGraph) (roots existing : List Nat) (n : Nat)
    (hslots : g.nbefore ≤ g.nslots) :
    1 ≤ saveCount n (g.run fx roots existing).log ↔ 1 ≤ saveCount n (g.run fx' roots existing).log :=
  ⟨fun h => visit_complete fx' g roots existing n (visit_sound fx g roots existing n hslots h),
    fun h => visit_complete fx g roots existing n (visit_sound fx' g roots existing n hslots h)⟩

/-- regenerated: on the path of checkAssociationsSaved that stores a NEW visit map in the Settings, the records being
    saved are registered in that very map -/
theorem C13_visit_map_registered_before_stored :
    ∀ p ∈ checkSavedPaths, ∀ c ∈ p.calls, c.fn = "db.Set" →
      ∃ r ∈ p.calls, r.fn = "loadOrStoreVisitMap" ∧ r.args = [c.args.getD 1 "", checkSavedParams.getD 1 ""] := by
  decide

/-- regenerated: every path registers the records (the only exception: the Settings entry is not a *visitMap) -/
theorem C13_visit_every_path_registers :
    ∀ p ∈ checkSavedPaths,
      (∃ r ∈ p.calls, r.fn = "loadOrStoreVisitMap" ∧ r.args.getD 1 "" = checkSavedParams.getD 1 "") ∨
      (false, "v, ok := visit.(*visitMap); ok") ∈ p.conds := by
  decide

/-- regenerated: "already saved" is answered only on the path where a map was found and loadOrStoreVisitMap said so
    -- or, F28 repaired, by loadOrStoreVisitMap on the map that was just created -/
theorem C13_visit_skip_only_when_loaded :
    ∀ p ∈ checkSavedPaths, p.ret = "false" ∨
      (p.ret = "true" ∧ (true, "loadOrStoreVisitMap(v, values)") ∈ p.conds ∧
        (true, "visit, ok := db.Get(visitMapStoreKey); ok") ∈ p.conds) ∨
      (visitRoot = true ∧ p.ret = "loadOrStoreVisitMap(&vistMap, values)" ∧
        (false, "visit, ok := db.Get(visitMapStoreKey); ok") ∈ p.conds) := by
  decide

/-- regenerated: saveAssociations consults the guard first, on its own record list (F27 repaired: element by element,
    keeping the unsaved ones), hands the Settings (hence the visit map) to the nested handle before the nested Create
    of exactly those records (F29 repaired: de-duplicated by pointer); no other record-writing call in
    callbacks/associations.go (the join-table rows apart) -/
theorem C13_assoc_creates_guarded :
    saveAssociationsStmts =
      (if visitFilter then
        [("guard-each", "rValues.Kind() == reflect.Slice: db, rValues.Index(i) => keep; rValues = unsaved; rValues.Len() == 0 => return nil")]
       else []) ++
      [("guard", "db, rValues => return nil"),
       ("values-def", if visitDistinct then "distinctPointers(rValues).Interface()" else "rValues.Interface()"),
       ("settings-copy", "db.Statement.Settings -> tx.Statement.Settings"), ("create", "tx.Create(values)")] ∧
    assocWriteCalls = [("SaveAfterAssociations", "Create(joins.Interface())"), ("saveAssociations", "Create(values)")] := by
  decide

/-- regenerated: the repair flags are not free-floating -- each is tied to the raw facts about the same code: the
    calls of checkAssociationsSaved inside saveAssociations (whole list / element inside the loop, kept when unsaved),
    and the map-creating path of checkAssociationsSaved (own value registered before the look-up whose answer is
    returned, vs. the constant false) -/
theorem C13_visit_fix_flags :
    visitGuardCalls =
      (if visitFilter then [("rValues.Index(i)", true, true)] else []) ++ [("rValues", false, false)] ∧
    (visitRoot = true ↔
      ∃ p ∈ checkSavedPaths, (∃ c ∈ p.calls, c.fn = "db.Set" ∧
        ⟨"loadOrStoreVisitMap", [c.args.getD 1 "", "db.Statement.ReflectValue"]⟩ ∈ p.calls) ∧
        p.ret = "loadOrStoreVisitMap(&vistMap, values)") ∧
    (visitRoot = false ↔ ∀ p ∈ checkSavedPaths, (∃ c ∈ p.calls, c.fn = "db.Set") → p.ret = "false") := by
  decide

/-! ## Round 5: the element register `Statement.CurDestIndex` — which record do `Statement.SetColumn` /
    `Statement.Changed` address while a hook runs?  (Model/HookWalk.lean; callbacks/callmethod.go, statement.go) -/

/-- MAIN (every hook addresses its own record): when the slice arm of `callMethod` rewinds the register before the loop
    and advances it after every completed iteration, then in EVERY walk over the same Statement -- however many walks
    preceded it (before-hooks, after-hooks, further operations through a kept handle), whatever the slices' lengths and
    addressability, whatever the register held at the start -- the k-th closure invocation runs with
    `CurDestIndex = k = the element the hooks are called for`, an index inside the slice. -/
theorem C13_walk_addresses_own_element (c : WalkCfg) (hr : c.rewind = true) (ha : c.advance = true)
    (slices : List (List Bool)) (cur : Nat) :
    walksAligned slices (walks c slices cur) := by
  induction slices generalizing cur with
  | nil => simp [walks, walksAligned]
  | cons a rest ih =>
    simp only [walks, walksAligned]
    refine ⟨?_, ih _⟩
    intro k hk
    simp only [walk, hr, ha, if_true] at hk
    have := walkLoop_aligned a 0 k hk
    omega

/-- the walk with the register is the walk of `Gorm.callMethod` (C13_once_per_record / C13_invalid_value_stops speak about
    the same invocations): same elements in the same order, ErrInvalidValue at the first non-addressable element -/
theorem C13_walk_refines_callMethod (c : WalkCfg) (addr : List Bool) (cur : Nat) :
    callMethod false (.slice addr) =
      (walk c addr cur).1.map (fun k => CallOut.call k.elem) ++ (if addr.all id then [] else [CallOut.invalidValue]) := by
  simp only [callMethod, Bool.false_eq_true, if_false, walk]
  exact walkLoop_calls _ _ _ _

/-- values set by hooks land in the hook's own record: if the hooks of element i call `SetColumn(col, f i)`, then after a
    walk over n addressable records -- with any register value left behind by earlier walks -- no hook panicked and the
    column of record i holds f i, for every i (element i gets value i) -/
theorem C13_setcolumn_per_record {α : Type} (c : WalkCfg) (hr : c.rewind = true) (ha : c.advance = true)
    (f : Nat → α) (vals : List α) (cur : Nat) :
    ∃ r, walkSet f (walk c (List.replicate vals.length true) cur).1 vals = some r ∧ r.length = vals.length ∧
      ∀ i, i < vals.length → r[i]? = some (f i) := by
  obtain ⟨r, h1, h2, h3, _⟩ := walkSet_loop f vals.length 0 vals (by omega)
  refine ⟨r, ?_, h2, fun i hi => h3 i (by omega) (by omega)⟩
  simpa only [walk, hr, ha, if_true] using h1

/-- COUNTEREXAMPLE CLASS (no rewind): without the rewind the first hook of the SECOND walk over n >= 1 records runs with
    `CurDestIndex = n` -- one past the end: SetColumn / Changed panic ("reflect: slice index out of range") -/
theorem C13_walk_without_rewind_overruns (n : Nat) (vals : List String) (hv : vals.length = n + 1) :
    ∃ w1 w2 k, walks ⟨false, true⟩ [List.replicate (n + 1) true, List.replicate (n + 1) true] 0 = [w1, w2] ∧
      w2.head? = some k ∧ k.elem = 0 ∧ k.cur = n + 1 ∧ walkSet (fun i => toString i) w2 vals = none := by
  refine ⟨_, _, ⟨0, n + 1⟩, rfl, ?_, rfl, rfl, ?_⟩
  · simp only [walk, Bool.false_eq_true, if_false]
    rw [walkLoop_final]
    simp [List.replicate_succ, walkLoop]
  · simp only [walk, Bool.false_eq_true, if_false]
    rw [walkLoop_final]
    simp [List.replicate_succ, walkLoop, walkSet, setColumnAt, hv]

/-- … and a concrete instance of it (two records, before-hook walk then after-hook walk), next to the fresh-Statement
    single walk that keeps gorm's own tests green without the rewind -/
theorem C13_walk_without_rewind_counterexample :
    walks ⟨false, true⟩ [[true, true], [true, true]] 0 = [[⟨0, 0⟩, ⟨1, 1⟩], [⟨0, 2⟩, ⟨1, 3⟩]] ∧
    walkSet (fun i => i + 10) (walks ⟨false, true⟩ [[true, true], [true, true]] 0)[1]! [0, 0] = none ∧
    walkAligned 2 (walk ⟨false, true⟩ [true, true] 0).1 := by
  decide

/-- COUNTEREXAMPLE (no advance): every hook writes into record 0 -- no panic, but record 1 never receives its value -/
theorem C13_walk_without_advance_counterexample :
    walkSet (fun i => i + 10) (walk ⟨true, false⟩ [true, true] 0).1 [0, 0] = some [11, 0] := by
  decide

/-- REGENERATED (the tree under check): the slice arm of `callMethod` is exactly rewind; loop { addressable ? call :
    (ErrInvalidValue, return); advance }, and `CurDestIndex` occurs nowhere else than: that assignment, that increment,
    and as the index of `stmt.ReflectValue.Index(…)` in Statement.SetColumn and Statement.Changed -/
theorem C13_walk_current_tree_shape :
    cmSliceArm = [(0, "db.Statement.CurDestIndex = 0"),
      (0, "for i := 0; i < db.Statement.ReflectValue.Len(); i++"),
      (1, "if value := reflect.Indirect(db.Statement.ReflectValue.Index(i)); value.CanAddr()"),
      (2, "fc(value.Addr().Interface(), tx)"),
      (1, "else"),
      (2, "db.AddError(gorm.ErrInvalidValue)"),
      (2, "return"),
      (1, "db.Statement.CurDestIndex++")] ∧
    cmRewind = true ∧ cmAdvance = true ∧ cmLoopShape = true ∧
    curDestUses = [("callbacks/callmethod.go", "callMethod", "db.Statement|assign:=0"),
      ("callbacks/callmethod.go", "callMethod", "db.Statement|incdec:++"),
      ("statement.go", "Statement.Changed", "stmt|index:stmt.ReflectValue"),
      ("statement.go", "Statement.SetColumn", "stmt|index:stmt.ReflectValue")] := by
  decide

/-- hence, for the tree under check: in every walk of every history each hook addresses its own record -/
theorem C13_walk_current_tree (slices : List (List Bool)) (cur : Nat) :
    walksAligned slices (walks genWalkCfg slices cur) :=
  C13_walk_addresses_own_element genWalkCfg (by decide) (by decide) slices cur

example : walks genWalkCfg [[true, true, true], [true, true, true], [true, true]] 0 =
    [[⟨0, 0⟩, ⟨1, 1⟩, ⟨2, 2⟩], [⟨0, 0⟩, ⟨1, 1⟩, ⟨2, 2⟩], [⟨0, 0⟩, ⟨1, 1⟩]] := by decide
example : walkSet (fun i => i + 10) (walk genWalkCfg [true, true, true] 7).1 [0, 0, 0] = some [10, 11, 12] := by decide

/-! ## Round 6: nested operations of the association-saving callbacks keep the operation's SkipHooks flag

  The records of a custom many2many JOIN MODEL (`db.SetupJoinTable`) are created by the nested
  `….Create(joins.Interface())` of `SaveAfterAssociations`; they are "affected in-memory records" whose hooks must fire
  exactly when the enclosing operation runs hooks.  `Gen.assocNestedOps` / `Gen.assocSessionLits` are regenerated from
  callbacks/associations.go; the harness suite `joinmodel` (harness/c13_r6.go) judges the behaviour end to end. -/

/-- general: a chain all of whose SkipHooks fields pass the statement's flag is faithful — whatever else it sets -/
theorem C13_nested_pass_flag_faithful (fields : List (String × String)) (h : skipFieldsPassFlag fields = true) (b : Bool) :
    nestedSkipHooks b fields = some b := by
  induction fields with
  | nil => rfl
  | cons f rest ih =>
    obtain ⟨k, e⟩ := f
    simp only [skipFieldsPassFlag, List.all_cons, Bool.and_eq_true] at h
    have ih' := ih (by simpa [skipFieldsPassFlag] using h.2)
    simp only [nestedSkipHooks, ih']
    by_cases hk : k = "SkipHooks"
    · have h1 := h.1
      simp only [hk, bne_self_eq_false, Bool.false_or, Bool.or_eq_true, beq_iff_eq] at h1
      rcases h1 with h1 | h1
      · simp [hk, h1, skipExprVal]
      · subst h1
        simp [hk, skipExprVal]
    · simp [hk]

/-- a constant `SkipHooks: true` in the chain (the "link rows are plumbing" change) is NOT faithful: the nested records'
    hooks are silent although the operation runs hooks -/
theorem C13_nested_constant_skip_counterexample :
    nestedSkipHooks false [("NewDB", "true"), ("SkipHooks", "true"), ("DisableNestedTransaction", "true")] = some true := by
  decide

/-- the tree under check: the join rows are created by exactly one nested Create in SaveAfterAssociations, its error is
    handed to db.AddError, it disables the nested transaction (stays in the operation's transaction) -/
theorem C13_join_rows_create_site :
    (assocNestedOps.filter fun o => o.2.2.1 == "joins.Interface()").map (fun o => (o.1, o.2.1, o.2.2.2.2)) =
        [("SaveAfterAssociations", "Create", true)] ∧
    ∀ o ∈ assocNestedOps, o.2.2.1 = "joins.Interface()" → ("DisableNestedTransaction", "true") ∈ o.2.2.2.1 := by
  decide

/-- the tree under check: every Session literal of callbacks/associations.go passes the statement's SkipHooks flag -/
theorem C13_assoc_sessions_pass_flag :
    (∀ o ∈ assocNestedOps, skipFieldsPassFlag o.2.2.2.1 = true) ∧
    (∀ l ∈ assocSessionLits, skipFieldsPassFlag l.2 = true) := by
  decide

/-- hence, for the tree under check: every nested operation issued by the association-saving callbacks (in particular
    the creation of the join-model records) runs hooks iff the enclosing operation does -/
theorem C13_nested_ops_current_tree (b : Bool) :
    ∀ o ∈ assocNestedOps, nestedSkipHooks b o.2.2.2.1 = some b := fun o ho =>
  C13_nested_pass_flag_faithful o.2.2.2.1 (C13_assoc_sessions_pass_flag.1 o ho) b

/-- the tree under check: NO Session literal of association.go or callbacks/*.go (association saves, association mode,
    delete-with-associations, preload, callMethod) switches hooks off by a constant — every SkipHooks field passes the
    statement's own flag, so each of these derived statements runs hooks iff the enclosing operation does -/
theorem C13_callback_sessions_pass_flag :
    (∀ l ∈ callbackSessionLits, skipFieldsPassFlag l.2.2 = true) ∧
    ∀ l ∈ callbackSessionLits, ∀ b, nestedSkipHooks b l.2.2 = some b :=
  have h : ∀ l ∈ callbackSessionLits, skipFieldsPassFlag l.2.2 = true := by decide
  ⟨h, fun l hl b => C13_nested_pass_flag_faithful l.2.2 (h l hl) b⟩

end Gorm
