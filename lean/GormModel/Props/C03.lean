/-
  C03 — what Create stores is what queries load back: the conversion core (`field.Set` ∘ load ∘ store ∘
  `field.ValueOf`), the primary-key back-fill after the INSERT and the `CreateInBatches` slicing.
-/
import GormModel.Model.Scan
import GormModel.Lemmas.Scan
namespace Gorm
open Gorm.Scan

/-- float32-exact patterns are never NaN -/
private theorem f32exact_not_nan (b : Nat) (h : isF32Exact b = true) : isNaN b = false := by
  unfold isF32Exact at h
  unfold isNaN
  generalize b / 2 ^ 52 % 2048 = e at *
  generalize b % 2 ^ 52 = m at *
  simp only [Bool.or_eq_true, Bool.and_eq_true, beq_iff_eq, decide_eq_true_eq] at h
  rcases h with ⟨he, _⟩ | ⟨⟨h1, h2⟩, _⟩
  · simp [he]
  · have : e ≠ 2047 := by omega
    simp [this]

/-- ROUND TRIP, every field kind (bool; signed/unsigned 8–64; float32/64; string; []byte; time.Time; a pointer
    to each; defined types over each), ALL representable values: the value `field.ValueOf` hands to the INSERT,
    stored and loaded back through the pooled `**T` scan destination and `field.Set` into a FRESH struct, is the
    original field value — in particular no arm truncates, re-signs, zeroes or nils a representable value. -/
theorem C03_roundtrip_kind (k : FKind) (fv : FVal) (h : representable k fv = true) :
    roundTrip k fv = .ok (.ok fv) := by
  obtain ⟨base, ptr, named, tu⟩ := k
  cases fv with
  | none =>
    cases ptr <;> cases named <;> cases base <;>
      simp_all [representable, roundTrip, valueOf, store, load, setField, setPP, setPtr, hasPPArm,
        FKind.zero, Base.zero, Base.ty]
  | some v =>
    cases base with
    | bool =>
      cases v <;> simp [representable, repVal] at h
      rename_i b
      cases ptr <;> cases named <;> cases b <;>
        simp_all [roundTrip, valueOf, store, storeVal, load, setField, setPP, setPtr, setVal, hasPPArm, fallbackVal,
          FKind.zero, Base.zero, Base.ty, Val.ty]
    | int w =>
      cases v <;> simp [representable, repVal] at h
      rename_i t n
      obtain ⟨⟨rfl, h1⟩, h2⟩ := h
      have hw := wrapS_id w n h1 h2
      have h64 : wrapS .w64 n = n := wrapS_id .w64 n (by have := half_le_half64 w; omega) (by have := half_le_half64 w; omega)
      have hu : (sTy w).isUnsigned = false := by cases w <;> rfl
      cases ptr <;> cases named <;> cases w <;>
        simp_all [roundTrip, valueOf, store, storeVal, load, setField, setPP, setPtr, setVal, hasPPArm, fallbackVal,
          FKind.zero, Base.zero, Base.ty, Val.ty, sTy]
    | uint w =>
      cases v <;> simp [representable, repVal] at h
      rename_i t n
      obtain ⟨⟨⟨rfl, h0⟩, h1⟩, h2⟩ := h
      have hw := wrapU_id w n h0 h1
      have h63 : ¬ (9223372036854775808 ≤ n) := by omega
      have hu : (uTy w).isUnsigned = true := by cases w <;> rfl
      have harm : ∀ tu, hasPPArm { base := .uint w, ptr := false, named := false, tu := tu } false (uTy w) = true := by
        intro tu; cases w <;> rfl
      have harm2 : ∀ p tu, hasPPArm { base := .uint w, ptr := p, named := false, tu := tu } true (uTy w) = false := by
        intro p tu; rfl
      have harm3 : ∀ n' tu, hasPPArm { base := .uint w, ptr := true, named := n', tu := tu } false (uTy w) = false := by
        intro n' tu; cases n' <;> rfl
      have harm4 : ∀ p n' tu, hasPPArm { base := .uint w, ptr := p, named := n', tu := tu } true (uTy w) = false := by
        intro p n' tu; rfl
      have hl : (0 ≤ n ∧ n < w.pow) := ⟨h0, h1⟩
      clear h0 h1 h2
      cases ptr <;> cases named <;>
        simp [roundTrip, valueOf, store, storeVal, load, setField, setPP, setPtr, setVal, fallbackVal,
          FKind.zero, Base.zero, Base.ty, Val.ty, hw, h63, hu, harm, harm2, harm3, harm4, hl]
    | float is32 =>
      cases is32 with
      | true =>
        cases v <;> simp [representable, repVal] at h
        rename_i t b
        obtain ⟨⟨rfl, hb⟩, hz⟩ := h
        have hn := f32exact_not_nan b hb
        cases ptr <;> cases named <;>
          simp_all [roundTrip, valueOf, store, storeVal, load, setField, setPP, setPtr, setVal, hasPPArm, fallbackVal,
            setFloat, FKind.zero, Base.zero, Base.ty, Val.ty]
      | false =>
        cases v <;> simp [representable, repVal] at h
        rename_i t b
        obtain ⟨⟨rfl, hb⟩, hz⟩ := h
        cases ptr <;> cases named <;>
          simp_all [roundTrip, valueOf, store, storeVal, load, setField, setPP, setPtr, setVal, hasPPArm, fallbackVal,
            setFloat, FKind.zero, Base.zero, Base.ty, Val.ty]
    | string =>
      cases v <;> simp [representable, repVal] at h
      cases ptr <;> cases named <;>
        simp [roundTrip, valueOf, store, storeVal, load, setField, setPP, setPtr, setVal, hasPPArm, fallbackVal,
          FKind.zero, Base.zero, Base.ty, Val.ty]
    | bytes =>
      cases v <;> simp [representable, repVal] at h
      rename_i s
      cases s <;> cases ptr <;> cases named <;>
        simp_all [roundTrip, valueOf, store, storeVal, load, setField, setPP, setPtr, setVal, hasPPArm, fallbackVal,
          FKind.zero, Base.zero, Base.ty, Val.ty]
    | time =>
      cases v <;> simp [representable, repVal] at h
      cases ptr <;> cases named <;>
        simp_all [roundTrip, valueOf, store, storeVal, load, setField, setPP, setPtr, setVal, hasPPArm, fallbackVal,
          FKind.zero, Base.zero, Base.ty, Val.ty, convertTo]

/-- what `SetInt`/`SetUint` leave in an N-bit field always fits N bits, whatever 64-bit value arrives, and is the
    value itself whenever that fits (no arm can store an out-of-width integer) -/
theorem C03_set_width (w : W) (x : Int) :
    (-w.half ≤ wrapS w x ∧ wrapS w x < w.half) ∧ (0 ≤ wrapU w x ∧ wrapU w x < w.pow) ∧
    (-w.half ≤ x → x < w.half → wrapS w x = x) ∧ (0 ≤ x → x < w.pow → wrapU w x = x) :=
  ⟨wrapS_range w x, wrapU_range w x, wrapS_id w x, wrapU_id w x⟩

/-- NULL into a fresh destination: every kind ends with its zero value (nil for pointers and []byte), whether
    the arm keeps the field (`**T` nil ⇒ untouched) or zeroes it (fallbackSetter) -/
theorem C03_null_fresh (k : FKind) : (load k .null).map (setField k k.zero) = .ok (.ok k.zero) := by
  obtain ⟨base, ptr, named, tu⟩ := k
  cases ptr <;> cases named <;> cases base <;>
    simp [load, setField, setPP, setPtr, hasPPArm, FKind.zero, Base.zero, Base.ty, Except.map]

/-- BACK-FILL WITH RETURNING: for every table state, every slice (any mix of zero and preset keys), every batch
    size > 0, `CreateInBatches` leaves in element i exactly the key of the i-th inserted row, and batching does
    not change which rows are written. -/
theorem C03_backfill_returning (m : Int) (ks : List Key) (b : Nat) (hb : 0 < b) :
    (createInBatches true m ks b).1 = (createInBatches true m ks b).2.1 ∧
    (createInBatches true m ks b).2.1 = (dbInsert m ks).1 := by
  unfold createInBatches
  have hf : (batchSlices ks b).flatten = ks := by
    have := batchBounds_flatten ks b hb ks.length 0 (by omega)
    simpa [batchSlices] using this
  have := createBatchesAux_spec true (batchSlices ks b) m (fun s _ m' _ => (createSlice_returning m' s).1)
  rw [hf] at this
  rw [this.1, this.2]
  exact ⟨rfl, rfl⟩

/-- … element-wise form of the RETURNING scan (scan.go `ScanUpdate`): row j goes to element j -/
theorem C03_returning_row_to_element (ks rows : List Key) (i : Nat) (h : i < rows.length) (h2 : i < ks.length) :
    (scanUpdate ks rows)[i]? = rows[i]? := scanUpdate_get ks rows i h h2

/-- BACK-FILL FROM LastInsertId (no RETURNING, SQLite-like reversed loop): the same conclusion provided the
    batch does NOT mix zero-key and preset-key elements (negation of finding F9's pattern), the table's ids are
    positive and the database assigns consecutive ids. -/
theorem C03_backfill_lastid_partial (m : Int) (hm : 0 ≤ m) (ks : List Key) (b : Nat) (hb : 0 < b)
    (hmix : ¬ Mixed ks) :
    (createInBatches false m ks b).1 = (createInBatches false m ks b).2.1 ∧
    (createInBatches false m ks b).2.1 = (dbInsert m ks).1 := by
  unfold createInBatches
  have hf : (batchSlices ks b).flatten = ks := by
    have := batchBounds_flatten ks b hb ks.length 0 (by omega)
    simpa [batchSlices] using this
  have hsub : ∀ s ∈ batchSlices ks b, ∀ x ∈ s, x ∈ ks := by
    intro s hs x hx
    rw [← hf]
    exact List.mem_flatten.mpr ⟨s, hs, hx⟩
  have hslice : ∀ s ∈ batchSlices ks b, AllZero s ∨ AllPreset s := by
    intro s hs
    rcases not_mixed ks hmix with hz | hp
    · exact Or.inl (fun x hx => hz x (hsub s hs x hx))
    · exact Or.inr (fun x hx => hp x (hsub s hs x hx))
  have := createBatchesAux_spec false (batchSlices ks b) m
    (fun s hs m' hm' => (createSlice_lastid m' s (Int.le_trans hm hm') (hslice s hs)).1)
  rw [hf] at this
  rw [this.1, this.2]
  exact ⟨rfl, rfl⟩

/-- FINDING F9 (kernel-checked witness): no RETURNING, empty table, `Create(&[]U{{}, {ID:100}, {}})`: rows get
    ids 1,100,101 but the records in memory end up with 100,100,101 — record 0 carries the key of record 1's row. -/
theorem C03_backfill_mixed_counterexample :
    createSlice false 0 [0, 100, 0] = ([100, 100, 101], [1, 100, 101], 101) ∧ Mixed [0, 100, 0] := by
  decide

/-- CREATE FROM A SLICE OF MAPS, no RETURNING: every map receives the key of its own row (rows get m+1 … m+n) and
    the caller's slice keeps its length — the negation of finding F18's pattern (RETURNING-capable dialector) -/
theorem C03_maps_backfill_partial (returning ptrDest : Bool) (m : Int) (n : Nat) (h : returning = false) :
    createMaps returning ptrDest m n = some ((up (m + 1) n).map some, n) := by
  subst h
  simp only [createMaps, backfillMaps, Bool.false_eq_true, if_false, if_true, List.length_replicate]
  rw [backfillMaps_go_present]
  have e : m + (n : Int) - ((n : Int) - 1) = m + 1 := by omega
  rw [e]

/-- FINDING F18 (kernel-checked witness): with RETURNING, `Create(&[]map{…}{{…},{…}})` leaves both maps without
    a key and the caller's slice with 4 elements; by value the call fails -/
theorem C03_maps_returning_counterexample :
    createMaps true true 0 2 = some ([none, none], 4) ∧ createMaps true false 0 2 = none := by
  decide

/-- dialects whose LastInsertId is the FIRST generated id (forward loop, create.go:170): all-zero batches -/
theorem C03_backfill_forward (m : Int) (ks : List Key) (hz : AllZero ks) :
    backfillFwd 1 ks (m + 1) = (dbInsert m ks).1 := by
  rw [backfillFwd_zero _ _ hz, dbInsert_zero _ _ hz]

/-- `CreateInBatches` slices: concatenated in order they are the input, none is empty, none exceeds the batch
    size — for every slice and every batch size > 0 (nothing dropped, duplicated or reordered; the last partial
    batch included). -/
theorem C03_batches_partition {α : Type} (l : List α) (b : Nat) (hb : 0 < b) :
    (batchSlices l b).flatten = l ∧ ∀ s ∈ batchSlices l b, 0 < s.length ∧ s.length ≤ b := by
  constructor
  · have := batchBounds_flatten l b hb l.length 0 (by omega)
    simpa [batchSlices] using this
  · intro s hs
    simp only [batchSlices, List.mem_map] at hs
    obtain ⟨p, hp, rfl⟩ := hs
    have := batchBounds_sizes l.length b hb l.length 0 p hp
    simp only [List.length_take, List.length_drop]
    omega

/-! ### column ↔ field resolution (schema.go registration loop + `LookUpField`), pooled scan holders, DO NOTHING skip -/

/-- COLUMN → FIELD, every schema: for ANY list of parsed fields — any Go names and column names (also a column that is
    spelled like the Go name of another field), embedded members at any depth, permission and `-` tags, several
    fields claiming one column — a name that is a column of some field is resolved by `LookUpField` to a field that
    HAS this column; a field that merely carries that Go name is never returned. -/
theorem C03_lookup_column_owner {α : Type} [DecidableEq α] (fs : List (PField α)) (c : α) (i : Nat)
    (hcol : ∃ (j : Nat) (f : PField α), fs[j]? = some f ∧ f.dbName = some c)
    (h : lookUpField (parseReg fs) c = some i) : ∃ f, fs[i]? = some f ∧ f.dbName = some c := by
  obtain ⟨hA, hB⟩ := parseReg_inv fs
  obtain ⟨j, f, hj, hc⟩ := hcol
  have hjl : j < fs.length := by
    rcases Nat.lt_or_ge j fs.length with h' | h'
    · exact h'
    · rw [List.getElem?_eq_none h'] at hj; cases hj
  have hs := hB j f c hjl hj hc
  cases he : assoc c (parseReg fs).byDB with
  | none => rw [he] at hs; cases hs
  | some e =>
    simp only [lookUpField, he, Option.some.injEq] at h
    obtain ⟨_, h2, h3⟩ := hA c e he
    exact ⟨e.2, by rw [← h]; exact h2, h3⟩

/-- … and when no two fields share a column (the schemas the round-trip property speaks about), EVERY field is found
    under its own column, whatever the Go names of the other fields are: the scan of a result set puts column `c`
    into exactly the field that Create wrote to column `c`. -/
theorem C03_lookup_distinct_columns {α : Type} [DecidableEq α] (fs : List (PField α))
    (hd : ∀ (i j : Nat) (f g : PField α), fs[i]? = some f → fs[j]? = some g → f.dbName = g.dbName → f.dbName ≠ none → i = j)
    (i : Nat) (f : PField α) (c : α) (hf : fs[i]? = some f) (hc : f.dbName = some c) :
    lookUpField (parseReg fs) c = some i := by
  obtain ⟨hA, hB⟩ := parseReg_inv fs
  have hil : i < fs.length := by
    rcases Nat.lt_or_ge i fs.length with h' | h'
    · exact h'
    · rw [List.getElem?_eq_none h'] at hf; cases hf
  have hs := hB i f c hil hf hc
  cases he : assoc c (parseReg fs).byDB with
  | none => rw [he] at hs; cases hs
  | some e =>
    obtain ⟨_, h2, h3⟩ := hA c e he
    have : e.1 = i := hd e.1 i e.2 f h2 hf (by rw [h3, hc]) (by rw [h3]; simp)
    simp [lookUpField, he, this]

/-- non-vacuity / the precedence matters: `Name string column:DisplayName` next to `LegacyName string column:Name`
    (names 1 = "Name", 2 = "DisplayName", 3 = "LegacyName"): column "Name" is field 1 (LegacyName) although the Go-name
    map knows "Name" as field 0 -/
example : lookUpField (parseReg [⟨1, some 2, 1, true, false⟩, ⟨3, some 1, 1, true, false⟩]) (1 : Nat) = some 1 ∧
    (assoc (1 : Nat) (parseReg [⟨1, some 2, 1, true, false⟩, ⟨3, some 1, 1, true, false⟩]).byName).map (·.1) = some 0 := by
  decide

/-- POOLED HOLDERS: with the holder re-instantiated from the prototype after every row (field.go:970-972), each
    record receives its own document decoded into a FRESH receiver — for every Scan, however incremental (`merge`
    arbitrary), every prototype and every number of rows: nothing of row i survives into row i+1. -/
theorem C03_pool_rows_independent {σ δ : Type} (merge : σ → δ → σ) (proto : σ) (ds : List δ) :
    scanLoop merge proto true proto ds = ds.map (merge proto) := by
  rw [scanLoop_renew]
  cases ds <;> rfl

/-- … and the re-instantiation is needed: without it an incremental Scan (NULL ignored, absent JSON members kept)
    hands later rows the members of earlier ones -/
theorem C03_pool_renew_needed :
    scanLoop mergeDoc [0, 0] false [0, 0] [some [some 7, some 8], some [none, some 1], none] = [[7, 8], [7, 1], [7, 1]] ∧
    [some [some 7, some 8], some [none, some 1], none].map (mergeDoc [0, 0]) = [[7, 8], [0, 1], [0, 0]] := by
  decide

/-- RETURNING + `ON CONFLICT DO NOTHING` (scan.go skip heuristic): when no element carries a preset key nothing is
    skipped — the scan is the plain row j → element j assignment of `C03_returning_row_to_element` -/
theorem C03_conflict_skip_zero_keys (ks rows : List Key) (hz : AllZero ks) : scanUpdateDN ks rows = scanUpdate ks rows := by
  induction ks generalizing rows with
  | nil => cases rows <;> rfl
  | cons k ks ih =>
    have hk : k = 0 := hz k (by simp)
    have hr : AllZero ks := fun x hx => hz x (by simp [hx])
    cases rows with
    | nil => rfl
    | cons r rows => simp [scanUpdateDN, scanUpdate, hk, ih rows hr]

private theorem scanUpdateDN_nil (ks : List Key) : scanUpdateDN ks [] = ks := by cases ks <;> rfl

/-- RETURNING + `ON CONFLICT DO NOTHING`, the negation of finding F21's pattern: `elems` = (key before Create, key of
    the row that stores the element — `none` when the element conflicted and was not stored).  When exactly the
    zero-key elements are stored (every preset-key element conflicts), the skip heuristic hands every stored element
    the key of ITS row and leaves the others alone — for every batch. -/
theorem C03_conflict_skip_partial (elems : List (Key × Option Key))
    (h : ∀ e ∈ elems, (e.1 = 0 ↔ e.2.isSome = true)) :
    scanUpdateDN (elems.map (·.1)) (elems.filterMap (·.2)) = elems.map (fun e => e.2.getD e.1) := by
  induction elems with
  | nil => rfl
  | cons e es ih =>
    have ih' := ih (fun x hx => h x (by simp [hx]))
    obtain ⟨k, r⟩ := e
    have he := h (k, r) (by simp)
    cases r with
    | none =>
      have hk : k ≠ 0 := by intro h0; have := he.mp h0; simp at this
      simp only [List.map_cons, List.filterMap_cons, Option.getD_none]
      cases hr : es.filterMap (·.2) with
      | nil => rw [hr] at ih'; rw [scanUpdateDN_nil] at ih' ⊢; rw [← ih']
      | cons r' rows' => rw [hr] at ih'; simp [scanUpdateDN, hk, ih']
    | some x =>
      have hk : k = 0 := he.mpr rfl
      simp [scanUpdateDN, hk, ih']

/-- FINDING F21 (kernel-checked witness): RETURNING + DO NOTHING, empty table, `Create(&[]U{{ID:100}, {}})`: both
    rows are inserted and returned (100, 101); element 0 is skipped for its preset key and element 1 receives row 0's
    key — the record stored in row 101 carries key 100. -/
theorem C03_conflict_skip_counterexample :
    (dbInsert 0 [100, 0]).1 = [100, 101] ∧ scanUpdateDN [100, 0] (dbInsert 0 [100, 0]).1 = [100, 100] := by
  decide

/-- non-vacuity: representable values exist at the boundaries; the partial theorem's hypothesis is satisfiable
    by non-trivial batches -/
example : representable { base := .int .w8 } (some (.int .i8 (-128))) = true := by decide
example : representable { base := .uint .w64, ptr := true } (some (.int .u64 9223372036854775807)) = true := by decide
example : ¬ Mixed [0, 0, 0] ∧ ¬ Mixed [7, 9] := by decide
example : ∀ e ∈ [((0 : Key), some (5 : Key)), (9, none), (0, some 6)], (e.1 = 0 ↔ e.2.isSome = true) := by decide
/-- and out-of-width values are really changed by the setter (the hypothesis is needed) -/
example : setField { base := .int .w8 } none (.val false (.int .i64 300)) = .ok (some (.int .i8 44)) := by rfl

end Gorm
