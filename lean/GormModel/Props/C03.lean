/-
  C03 — what Create stores is what queries load back: the conversion core (`field.Set` ∘ load ∘ store ∘
  `field.ValueOf`), the primary-key back-fill after the INSERT and the `CreateInBatches` slicing.
-/
import GormModel.Model.Scan
import GormModel.Lemmas.Scan
import GormModel.Model.SchemaAttrs
import GormModel.Lemmas.SchemaAttrs
import GormModel.Model.Serializer
import GormModel.Gen.BackfillFacts
import GormModel.Gen.SchemaDeclFacts
import GormModel.Gen.QueryDestKeyFacts
import GormModel.Model.DestKey
namespace Gorm
open Gorm.Scan

/-- float32-exact patterns are never NaN -/
private theorem f32exact_not_nan (b : Nat) (h : isF32Exact b = true) : isNaN b = false := by
  unfold isF32Exact at h
  unfold isNaN
  generalize b / 2 ^ 52 % 2048 = e at *
  generalize b % 2 ^ 52 = m at *
  simp only [Bool.or_eq_true, Bool.and_eq_true, beq_iff_eq, decide_eq_true_eq] at h
  rcases h with ⟨he, _⟩ | ⟨⟨h1, h2⟩, _⟩
  · simp [he]
  · have : e ≠ 2047 := by omega
    simp [this]

/-- ROUND TRIP, every field kind (bool; signed/unsigned 8–64; float32/64; string; []byte; time.Time; a pointer
    to each; defined types over each), ALL representable values: the value `field.ValueOf` hands to the INSERT,
    stored and loaded back through the pooled `**T` scan destination and `field.Set` into a FRESH struct, is the
    original field value — in particular no arm truncates, re-signs, zeroes or nils a representable value. -/
theorem C03_roundtrip_kind (k : FKind) (fv : FVal) (h : representable k fv = true) :
    roundTrip k fv = .ok (.ok fv) := by
  obtain ⟨base, ptr, named, tu⟩ := k
  cases fv with
  | none =>
    cases ptr <;> cases named <;> cases base <;>
      simp_all [representable, roundTrip, valueOf, store, load, setField, setPP, setPtr, hasPPArm,
        FKind.zero, Base.zero, Base.ty]
  | some v =>
    cases base with
    | bool =>
      cases v <;> simp [representable, repVal] at h
      rename_i b
      cases ptr <;> cases named <;> cases b <;>
        simp_all [roundTrip, valueOf, store, storeVal, load, setField, setPP, setPtr, setVal, hasPPArm, fallbackVal,
          FKind.zero, Base.zero, Base.ty, Val.ty]
    | int w =>
      cases v <;> simp [representable, repVal] at h
      rename_i t n
      obtain ⟨⟨rfl, h1⟩, h2⟩ := h
      have hw := wrapS_id w n h1 h2
      have h64 : wrapS .w64 n = n := wrapS_id .w64 n (by have := half_le_half64 w; omega) (by have := half_le_half64 w; omega)
      have hu : (sTy w).isUnsigned = false := by cases w <;> rfl
      cases ptr <;> cases named <;> cases w <;>
        simp_all [roundTrip, valueOf, store, storeVal, load, setField, setPP, setPtr, setVal, hasPPArm, fallbackVal,
          FKind.zero, Base.zero, Base.ty, Val.ty, sTy]
    | uint w =>
      cases v <;> simp [representable, repVal] at h
      rename_i t n
      obtain ⟨⟨⟨rfl, h0⟩, h1⟩, h2⟩ := h
      have hw := wrapU_id w n h0 h1
      have h63 : ¬ (9223372036854775808 ≤ n) := by omega
      have hu : (uTy w).isUnsigned = true := by cases w <;> rfl
      have harm : ∀ tu, hasPPArm { base := .uint w, ptr := false, named := false, tu := tu } false (uTy w) = true := by
        intro tu; cases w <;> rfl
      have harm2 : ∀ p tu, hasPPArm { base := .uint w, ptr := p, named := false, tu := tu } true (uTy w) = false := by
        intro p tu; rfl
      have harm3 : ∀ n' tu, hasPPArm { base := .uint w, ptr := true, named := n', tu := tu } false (uTy w) = false := by
        intro n' tu; cases n' <;> rfl
      have harm4 : ∀ p n' tu, hasPPArm { base := .uint w, ptr := p, named := n', tu := tu } true (uTy w) = false := by
        intro p n' tu; rfl
      have hl : (0 ≤ n ∧ n < w.pow) := ⟨h0, h1⟩
      clear h0 h1 h2
      cases ptr <;> cases named <;>
        simp [roundTrip, valueOf, store, storeVal, load, setField, setPP, setPtr, setVal, fallbackVal,
          FKind.zero, Base.zero, Base.ty, Val.ty, hw, h63, hu, harm, harm2, harm3, harm4, hl]
    | float is32 =>
      cases is32 with
      | true =>
        cases v <;> simp [representable, repVal] at h
        rename_i t b
        obtain ⟨⟨rfl, hb⟩, hz⟩ := h
        have hn := f32exact_not_nan b hb
        cases ptr <;> cases named <;>
          simp_all [roundTrip, valueOf, store, storeVal, load, setField, setPP, setPtr, setVal, hasPPArm, fallbackVal,
            setFloat, FKind.zero, Base.zero, Base.ty, Val.ty]
      | false =>
        cases v <;> simp [representable, repVal] at h
        rename_i t b
        obtain ⟨⟨rfl, hb⟩, hz⟩ := h
        cases ptr <;> cases named <;>
          simp_all [roundTrip, valueOf, store, storeVal, load, setField, setPP, setPtr, setVal, hasPPArm, fallbackVal,
            setFloat, FKind.zero, Base.zero, Base.ty, Val.ty]
    | string =>
      cases v <;> simp [representable, repVal] at h
      cases ptr <;> cases named <;>
        simp [roundTrip, valueOf, store, storeVal, load, setField, setPP, setPtr, setVal, hasPPArm, fallbackVal,
          FKind.zero, Base.zero, Base.ty, Val.ty]
    | bytes =>
      cases v <;> simp [representable, repVal] at h
      rename_i s
      cases s <;> cases ptr <;> cases named <;>
        simp_all [roundTrip, valueOf, store, storeVal, load, setField, setPP, setPtr, setVal, hasPPArm, fallbackVal,
          FKind.zero, Base.zero, Base.ty, Val.ty]
    | time =>
      cases v <;> simp [representable, repVal] at h
      cases ptr <;> cases named <;>
        simp_all [roundTrip, valueOf, store, storeVal, load, setField, setPP, setPtr, setVal, hasPPArm, fallbackVal,
          FKind.zero, Base.zero, Base.ty, Val.ty, convertTo]

/-- what `SetInt`/`SetUint` leave in an N-bit field always fits N bits, whatever 64-bit value arrives, and is the
    value itself whenever that fits (no arm can store an out-of-width integer) -/
theorem C03_set_width (w : W) (x : Int) :
    (-w.half ≤ wrapS w x ∧ wrapS w x < w.half) ∧ (0 ≤ wrapU w x ∧ wrapU w x < w.pow) ∧
    (-w.half ≤ x → x < w.half → wrapS w x = x) ∧ (0 ≤ x → x < w.pow → wrapU w x = x) :=
  ⟨wrapS_range w x, wrapU_range w x, wrapS_id w x, wrapU_id w x⟩

/-- NULL into a fresh destination: every kind ends with its zero value (nil for pointers and []byte), whether
    the arm keeps the field (`**T` nil ⇒ untouched) or zeroes it (fallbackSetter) -/
theorem C03_null_fresh (k : FKind) : (load k .null).map (setField k k.zero) = .ok (.ok k.zero) := by
  obtain ⟨base, ptr, named, tu⟩ := k
  cases ptr <;> cases named <;> cases base <;>
    simp [load, setField, setPP, setPtr, hasPPArm, FKind.zero, Base.zero, Base.ty, Except.map]

/-- BACK-FILL WITH RETURNING: for every table state, every slice (any mix of zero and preset keys), every batch
    size > 0, `CreateInBatches` leaves in element i exactly the key of the i-th inserted row, and batching does
    not change which rows are written. -/
theorem C03_backfill_returning (m : Int) (ks : List Key) (b : Nat) (hb : 0 < b) :
    (createInBatches true m ks b).1 = (createInBatches true m ks b).2.1 ∧
    (createInBatches true m ks b).2.1 = (dbInsert m ks).1 := by
  unfold createInBatches
  have hf : (batchSlices ks b).flatten = ks := by
    have := batchBounds_flatten ks b hb ks.length 0 (by omega)
    simpa [batchSlices] using this
  have := createBatchesAux_spec true (batchSlices ks b) m (fun s _ m' _ => (createSlice_returning m' s).1)
  rw [hf] at this
  rw [this.1, this.2]
  exact ⟨rfl, rfl⟩

/-- … element-wise form of the RETURNING scan (scan.go `ScanUpdate`): row j goes to element j -/
theorem C03_returning_row_to_element (ks rows : List Key) (i : Nat) (h : i < rows.length) (h2 : i < ks.length) :
    (scanUpdate ks rows)[i]? = rows[i]? := scanUpdate_get ks rows i h h2

/-- BACK-FILL FROM LastInsertId (no RETURNING, SQLite-like reversed loop): the same conclusion provided the
    batch does NOT mix zero-key and preset-key elements (negation of finding F9's pattern), the table's ids are
    positive and the database assigns consecutive ids. -/
theorem C03_backfill_lastid_partial (m : Int) (hm : 0 ≤ m) (ks : List Key) (b : Nat) (hb : 0 < b)
    (hmix : ¬ Mixed ks) :
    (createInBatches false m ks b).1 = (createInBatches false m ks b).2.1 ∧
    (createInBatches false m ks b).2.1 = (dbInsert m ks).1 := by
  unfold createInBatches
  have hf : (batchSlices ks b).flatten = ks := by
    have := batchBounds_flatten ks b hb ks.length 0 (by omega)
    simpa [batchSlices] using this
  have hsub : ∀ s ∈ batchSlices ks b, ∀ x ∈ s, x ∈ ks := by
    intro s hs x hx
    rw [← hf]
    exact List.mem_flatten.mpr ⟨s, hs, hx⟩
  have hslice : ∀ s ∈ batchSlices ks b, AllZero s ∨ AllPreset s := by
    intro s hs
    rcases not_mixed ks hmix with hz | hp
    · exact Or.inl (fun x hx => hz x (hsub s hs x hx))
    · exact Or.inr (fun x hx => hp x (hsub s hs x hx))
  have := createBatchesAux_spec false (batchSlices ks b) m
    (fun s hs m' hm' => (createSlice_lastid m' s (Int.le_trans hm hm') (hslice s hs)).1)
  rw [hf] at this
  rw [this.1, this.2]
  exact ⟨rfl, rfl⟩

/-- FINDING F9 (kernel-checked witness): no RETURNING, empty table, `Create(&[]U{{}, {ID:100}, {}})`: rows get
    ids 1,100,101 but the records in memory end up with 100,100,101 — record 0 carries the key of record 1's row. -/
theorem C03_backfill_mixed_counterexample :
    createSlice false 0 [0, 100, 0] = ([100, 100, 101], [1, 100, 101], 101) ∧ Mixed [0, 100, 0] := by
  decide

/-- CREATE FROM A SLICE OF MAPS WITHOUT KEY ENTRIES, no RETURNING: every map receives the key of its own row (rows get
    m+1 … m+n) and the caller's slice keeps its length — the negation of finding F18's pattern (RETURNING-capable
    dialector); holds for the unrepaired and for the repaired map loop (`skipPreset` arbitrary) -/
theorem C03_maps_backfill_partial (skipPreset returning ptrDest : Bool) (m : Int) (n : Nat) (h : returning = false) :
    createMaps skipPreset returning ptrDest m n = some ((up (m + 1) n).map some, n) := by
  subst h
  simp only [createMaps, backfillMaps, Bool.false_eq_true, if_false, if_true, List.length_replicate]
  rw [backfillMaps_go_present]
  have e : m + (n : Int) - ((n : Int) - 1) = m + 1 := by omega
  rw [e]

/-- FINDING F18 (kernel-checked witness): with RETURNING, `Create(&[]map{…}{{…},{…}})` leaves both maps without
    a key and the caller's slice with 4 elements; by value the call fails -/
theorem C03_maps_returning_counterexample :
    (∀ skipPreset, createMaps skipPreset true true 0 2 = some ([none, none], 4)) ∧
    (∀ skipPreset, createMaps skipPreset true false 0 2 = none) := by
  decide

/-- dialects whose LastInsertId is the FIRST generated id (forward loop, create.go:170): all-zero batches -/
theorem C03_backfill_forward (m : Int) (ks : List Key) (hz : AllZero ks) :
    backfillFwd 1 ks (m + 1) = (dbInsert m ks).1 := by
  rw [backfillFwd_zero _ _ hz, dbInsert_zero _ _ hz]

/-- `CreateInBatches` slices: concatenated in order they are the input, none is empty, none exceeds the batch
    size — for every slice and every batch size > 0 (nothing dropped, duplicated or reordered; the last partial
    batch included). -/
theorem C03_batches_partition {α : Type} (l : List α) (b : Nat) (hb : 0 < b) :
    (batchSlices l b).flatten = l ∧ ∀ s ∈ batchSlices l b, 0 < s.length ∧ s.length ≤ b := by
  constructor
  · have := batchBounds_flatten l b hb l.length 0 (by omega)
    simpa [batchSlices] using this
  · intro s hs
    simp only [batchSlices, List.mem_map] at hs
    obtain ⟨p, hp, rfl⟩ := hs
    have := batchBounds_sizes l.length b hb l.length 0 p hp
    simp only [List.length_take, List.length_drop]
    omega

/-! ### column ↔ field resolution (schema.go registration loop + `LookUpField`), pooled scan holders, DO NOTHING skip -/

/-- COLUMN → FIELD, every schema: for ANY list of parsed fields — any Go names and column names (also a column that is
    spelled like the Go name of another field), embedded members at any depth, permission and `-` tags, several
    fields claiming one column — a name that is a column of some field is resolved by `LookUpField` to a field that
    HAS this column; a field that merely carries that Go name is never returned. -/
theorem C03_lookup_column_owner {α : Type} [DecidableEq α] (fs : List (PField α)) (c : α) (i : Nat)
    (hcol : ∃ (j : Nat) (f : PField α), fs[j]? = some f ∧ f.dbName = some c)
    (h : lookUpField (parseReg fs) c = some i) : ∃ f, fs[i]? = some f ∧ f.dbName = some c := by
  obtain ⟨hA, hB⟩ := parseReg_inv fs
  obtain ⟨j, f, hj, hc⟩ := hcol
  have hjl : j < fs.length := by
    rcases Nat.lt_or_ge j fs.length with h' | h'
    · exact h'
    · rw [List.getElem?_eq_none h'] at hj; cases hj
  have hs := hB j f c hjl hj hc
  cases he : assoc c (parseReg fs).byDB with
  | none => rw [he] at hs; cases hs
  | some e =>
    simp only [lookUpField, he, Option.some.injEq] at h
    obtain ⟨_, h2, h3⟩ := hA c e he
    exact ⟨e.2, by rw [← h]; exact h2, h3⟩

/-- … and when no two fields share a column (the schemas the round-trip property speaks about), EVERY field is found
    under its own column, whatever the Go names of the other fields are: the scan of a result set puts column `c`
    into exactly the field that Create wrote to column `c`. -/
theorem C03_lookup_distinct_columns {α : Type} [DecidableEq α] (fs : List (PField α))
    (hd : ∀ (i j : Nat) (f g : PField α), fs[i]? = some f → fs[j]? = some g → f.dbName = g.dbName → f.dbName ≠ none → i = j)
    (i : Nat) (f : PField α) (c : α) (hf : fs[i]? = some f) (hc : f.dbName = some c) :
    lookUpField (parseReg fs) c = some i := by
  obtain ⟨hA, hB⟩ := parseReg_inv fs
  have hil : i < fs.length := by
    rcases Nat.lt_or_ge i fs.length with h' | h'
    · exact h'
    · rw [List.getElem?_eq_none h'] at hf; cases hf
  have hs := hB i f c hil hf hc
  cases he : assoc c (parseReg fs).byDB with
  | none => rw [he] at hs; cases hs
  | some e =>
    obtain ⟨_, h2, h3⟩ := hA c e he
    have : e.1 = i := hd e.1 i e.2 f h2 hf (by rw [h3, hc]) (by rw [h3]; simp)
    simp [lookUpField, he, this]

/-- non-vacuity / the precedence matters: `Name string column:DisplayName` next to `LegacyName string column:Name`
    (names 1 = "Name", 2 = "DisplayName", 3 = "LegacyName"): column "Name" is field 1 (LegacyName) although the Go-name
    map knows "Name" as field 0 -/
example : lookUpField (parseReg [⟨1, some 2, 1, true, false⟩, ⟨3, some 1, 1, true, false⟩]) (1 : Nat) = some 1 ∧
    (assoc (1 : Nat) (parseReg [⟨1, some 2, 1, true, false⟩, ⟨3, some 1, 1, true, false⟩]).byName).map (·.1) = some 0 := by
  decide

/-- POOLED HOLDERS: with the holder re-instantiated from the prototype after every row (field.go:970-972), each
    record receives its own document decoded into a FRESH receiver — for every Scan, however incremental (`merge`
    arbitrary), every prototype and every number of rows: nothing of row i survives into row i+1. -/
theorem C03_pool_rows_independent {σ δ : Type} (merge : σ → δ → σ) (proto : σ) (ds : List δ) :
    scanLoop merge proto true proto ds = ds.map (merge proto) := by
  rw [scanLoop_renew]
  cases ds <;> rfl

/-- … and the re-instantiation is needed: without it an incremental Scan (NULL ignored, absent JSON members kept)
    hands later rows the members of earlier ones -/
theorem C03_pool_renew_needed :
    scanLoop mergeDoc [0, 0] false [0, 0] [some [some 7, some 8], some [none, some 1], none] = [[7, 8], [7, 1], [7, 1]] ∧
    [some [some 7, some 8], some [none, some 1], none].map (mergeDoc [0, 0]) = [[7, 8], [0, 1], [0, 0]] := by
  decide

/-- RETURNING + `ON CONFLICT DO NOTHING` (scan.go skip heuristic): when no element carries a preset key nothing is
    skipped — the scan is the plain row j → element j assignment of `C03_returning_row_to_element` -/
theorem C03_conflict_skip_zero_keys (ks rows : List Key) (hz : AllZero ks) : scanUpdateDN ks rows = scanUpdate ks rows := by
  induction ks generalizing rows with
  | nil => cases rows <;> rfl
  | cons k ks ih =>
    have hk : k = 0 := hz k (by simp)
    have hr : AllZero ks := fun x hx => hz x (by simp [hx])
    cases rows with
    | nil => rfl
    | cons r rows => simp [scanUpdateDN, scanUpdate, hk, ih rows hr]

private theorem scanUpdateDN_nil (ks : List Key) : scanUpdateDN ks [] = ks := by cases ks <;> rfl

/-- RETURNING + `ON CONFLICT DO NOTHING`, the negation of finding F21's pattern: `elems` = (key before Create, key of
    the row that stores the element — `none` when the element conflicted and was not stored).  When exactly the
    zero-key elements are stored (every preset-key element conflicts), the skip heuristic hands every stored element
    the key of ITS row and leaves the others alone — for every batch. -/
theorem C03_conflict_skip_partial (elems : List (Key × Option Key))
    (h : ∀ e ∈ elems, (e.1 = 0 ↔ e.2.isSome = true)) :
    scanUpdateDN (elems.map (·.1)) (elems.filterMap (·.2)) = elems.map (fun e => e.2.getD e.1) := by
  induction elems with
  | nil => rfl
  | cons e es ih =>
    have ih' := ih (fun x hx => h x (by simp [hx]))
    obtain ⟨k, r⟩ := e
    have he := h (k, r) (by simp)
    cases r with
    | none =>
      have hk : k ≠ 0 := by intro h0; have := he.mp h0; simp at this
      simp only [List.map_cons, List.filterMap_cons, Option.getD_none]
      cases hr : es.filterMap (·.2) with
      | nil => rw [hr] at ih'; rw [scanUpdateDN_nil] at ih' ⊢; rw [← ih']
      | cons r' rows' => rw [hr] at ih'; simp [scanUpdateDN, hk, ih']
    | some x =>
      have hk : k = 0 := he.mpr rfl
      simp [scanUpdateDN, hk, ih']

/-- FINDING F21 (kernel-checked witness): RETURNING + DO NOTHING, empty table, `Create(&[]U{{ID:100}, {}})`: both
    rows are inserted and returned (100, 101); element 0 is skipped for its preset key and element 1 receives row 0's
    key — the record stored in row 101 carries key 100. -/
theorem C03_conflict_skip_counterexample :
    (dbInsert 0 [100, 0]).1 = [100, 101] ∧ scanUpdateDN [100, 0] (dbInsert 0 [100, 0]).1 = [100, 100] := by
  decide

/-! ### embedded structs: which field owns a column (shallowest wins), anonymous = named; database-generated defaults -/

/-- SHALLOWEST WINS, every list of parsed fields: the field that owns column `c` after the registration loop of
    `ParseWithSpecialTableName` (`FieldsByDBName[c]`, the field Create reads and Scan writes) has this column, and against
    EVERY permitted field `g` claiming the same column it is strictly shallower (shorter `BindNames`), or equally deep
    and declared no later — Go's selector rule with gorm's "first appear" tie-break.  In particular an outer field is
    never shadowed by a member of an embedded struct, in either declaration order. -/
theorem C03_owner_shallowest {α : Type} [DecidableEq α] (fs : List (PField α)) (c : α) (e : Ent α)
    (h : assoc c (parseReg fs).byDB = some e) :
    (fs[e.1]? = some e.2 ∧ e.2.dbName = some c) ∧
    ∀ (j : Nat) (g : PField α), fs[j]? = some g → g.dbName = some c → g.perm = true →
      e.2.depth < g.depth ∨ (e.2.depth = g.depth ∧ e.1 ≤ j) := by
  obtain ⟨hA, _⟩ := parseReg_inv fs
  have hC := parseReg_invC fs
  refine ⟨⟨(hA c e h).2.1, (hA c e h).2.2⟩, fun j g hg hc hp => ?_⟩
  have hjl : j < fs.length := by
    rcases Nat.lt_or_ge j fs.length with h' | h'
    · exact h'
    · rw [List.getElem?_eq_none h'] at hg; cases hg
  exact hC c e h j g hjl hg hc hp

/-- the `depth` the registration loop compares IS the length of the Go selector path (`BindNames`) of the flattened
    field, at every nesting level, for anonymous and named embedding alike -/
theorem flattenE_depth (t : EDecl) : ∀ (path : List String) (pfx : String), ∀ pf ∈ flattenE path pfx t, pf.2.depth = pf.1.length := by
  induction t with
  | nil => intro path pfx pf h; simp [flattenE] at h
  | field n col perm next ih =>
    intro path pfx pf h
    simp only [flattenE, List.mem_cons] at h
    rcases h with rfl | h
    · simp
    · exact ih path pfx pf h
  | embed n a p kids next ihk ihn =>
    intro path pfx pf h
    simp only [flattenE, List.mem_append] at h
    rcases h with h | h
    · exact ihk _ _ pf h
    · exact ihn _ _ pf h

/-- ANONYMOUS = NAMED: whether a struct is embedded as a Go anonymous field or as a named field with the `embedded` tag
    changes nothing in the flattened field list (paths, columns, depths) — hence nothing in column ownership -/
theorem C03_embed_anonymous_like_named (t : EDecl) (b : Bool) :
    ∀ (path : List String) (pfx : String), flattenE path pfx (t.setAnon b) = flattenE path pfx t := by
  induction t with
  | nil => intro _ _; rfl
  | field n col perm next ih => intro path pfx; simp [EDecl.setAnon, flattenE, ih]
  | embed n a p kids next ihk ihn => intro path pfx; simp [EDecl.setAnon, flattenE, ihk, ihn]

theorem C03_embed_owners_anonymous_like_named (t : EDecl) (b : Bool) : embedOwners (t.setAnon b) = embedOwners t := by
  unfold embedOwners
  rw [C03_embed_anonymous_like_named]

/-- EMBEDDING TREES: for every struct declaration (any nesting depth, anonymous / named / pointer embedding, prefixes),
    the flattened field that owns column `c` sits on a selector path that is strictly shorter than the path of every
    other permitted field with this column, or equally long and declared earlier. -/
theorem C03_embed_owner_shallowest (t : EDecl) (c : String) (e : Ent String)
    (h : assoc c (parseReg ((flattenE [] "" t).map (·.2))).byDB = some e) :
    ∃ p, (flattenE [] "" t)[e.1]? = some (p, e.2) ∧ e.2.dbName = some c ∧
      ∀ (j : Nat) (q : List String) (g : PField String), (flattenE [] "" t)[j]? = some (q, g) → g.dbName = some c → g.perm = true →
        p.length < q.length ∨ (p.length = q.length ∧ e.1 ≤ j) := by
  obtain ⟨⟨h1, h2⟩, h3⟩ := C03_owner_shallowest _ c e h
  rw [List.getElem?_map] at h1
  cases hp : (flattenE [] "" t)[e.1]? with
  | none => rw [hp] at h1; cases h1
  | some pf =>
    rw [hp] at h1
    simp only [Option.map_some, Option.some.injEq] at h1
    obtain ⟨p, f⟩ := pf
    simp only at h1
    subst h1
    refine ⟨p, rfl, h2, fun j q g hj hc hperm => ?_⟩
    have hd1 := flattenE_depth t [] "" (p, e.2) (List.mem_of_getElem? hp)
    have hd2 := flattenE_depth t [] "" (q, g) (List.mem_of_getElem? hj)
    have := h3 j g (by rw [List.getElem?_map, hj]; rfl) hc hperm
    simp only at hd1 hd2
    omega

/-- the schema of the classic shadowing declaration `type Doc struct { Audit; ID uint; Name string }` with
    `type Audit struct { Name, Note string }`: column `name` belongs to `Doc.Name` (path of length 1), declared AFTER the
    embedded `Audit.Name` (length 2) — and the same with the outer field declared first -/
example : embedOwners (.embed "Audit" true "" (.field "Name" (some "name") true (.field "Note" (some "note") true .nil))
      (.field "ID" (some "id") true (.field "Name" (some "name") true .nil))) =
    [("name", ["Name"]), ("note", ["Audit", "Note"]), ("id", ["ID"])] := by decide
example : embedOwners (.field "Name" (some "name") true
      (.embed "Audit" true "" (.field "Name" (some "name") true (.field "Note" (some "note") true .nil)) .nil)) =
    [("name", ["Name"]), ("note", ["Audit", "Note"])] := by decide

private theorem memAfter_go (ret : List String) (cs : List CCol) :
    ∀ (vs : List Int) (gen : Nat → Int) (i : Nat), (∀ c ∈ cs, c.dk.isDB = true → ret.contains c.name = true) →
      memAfter.go ret cs vs (rowOf.go gen cs vs i) = rowOf.go gen cs vs i := by
  induction cs with
  | nil => intro _ _ _ _; rfl
  | cons c cs ih =>
    intro vs gen i hall
    have hrest := ih vs.tail gen (i + 1) (fun x hx => hall x (List.mem_cons_of_mem _ hx))
    simp only [memAfter.go, rowOf.go, List.headD_cons, List.tail_cons]
    rw [hrest]
    congr 1
    by_cases hr : ret.contains c.name = true
    · rw [if_pos hr]
    · rw [if_neg hr]
      cases hk : c.dk with
      | none => simp [sentVal, hk]
      | lit d => simp [sentVal, hk]
      | db => exact absurd (hall c (List.mem_cons_self) (by simp [hk, DefKind.isDB])) hr
      | autoPk => exact absurd (hall c (List.mem_cons_self) (by simp [hk, DefKind.isDB])) hr

private theorem mem_fieldsWithDefaultDB (cols : List CCol) (c : CCol) (hc : c ∈ cols) (hd : c.dk.isDB = true) :
    c.name ∈ fieldsWithDefaultDB cols := by
  unfold fieldsWithDefaultDB
  simp only [List.map_append, List.mem_append, List.mem_map, List.mem_filter]
  cases hk : c.dk with
  | none => simp [hk, DefKind.isDB] at hd
  | lit d => simp [hk, DefKind.isDB] at hd
  | db => exact Or.inl ⟨c, ⟨hc, by simp [hk]⟩, rfl⟩
  | autoPk => exact Or.inr ⟨c, ⟨hc, by simp [hk]⟩, rfl⟩

/-- DATABASE-GENERATED DEFAULTS ARE ASKED BACK FOR EVERY KEY SHAPE: with a RETURNING-capable dialector the INSERT asks
    back every column whose value the database may generate — whatever the primary key is (generated, assigned by the
    application, composite, absent: the key does not occur in the condition). -/
theorem C03_defaults_returned_every_key_shape (cols : List CCol) (c : CCol) (hc : c ∈ cols) (hd : c.dk.isDB = true) :
    ∃ l, returningCols true cols = some l ∧ c.name ∈ l := by
  have hm := mem_fieldsWithDefaultDB cols c hc hd
  refine ⟨fieldsWithDefaultDB cols, ?_, hm⟩
  unfold returningCols
  cases hl : fieldsWithDefaultDB cols with
  | nil => rw [hl] at hm; cases hm
  | cons x xs => simp

/-- … and so, after Create through a RETURNING-capable dialector, the in-memory record EQUALS the row that stores it in
    every column — sent values, literal defaults substituted by gorm, and values generated by the database (`gen`
    arbitrary, e.g. a random expression that differs per row) — for every schema and every record. -/
theorem C03_create_mem_eq_row_returning (cols : List CCol) (gen : Nat → Int) (r : CRec) :
    memAfter true cols gen r = rowOf cols gen r := by
  unfold memAfter rowOf
  apply memAfter_go
  intro c hc hd
  obtain ⟨l, hl, hm⟩ := C03_defaults_returned_every_key_shape cols c hc hd
  simp [hl, hm]

/-- LATITUDE, stated: without RETURNING gorm has no channel to learn a database-generated non-key value — the record
    keeps its zero while the row holds the generated value (model `Item{Code string pk; Rank int default:(abs(-7))}`) -/
theorem C03_defaults_need_returning :
    memAfter false [⟨"code", .none⟩, ⟨"rank", .db⟩] (fun _ => 7) [5, 0] = [5, 0] ∧
    rowOf [⟨"code", .none⟩, ⟨"rank", .db⟩] (fun _ => 7) [5, 0] = [5, 7] ∧
    memAfter true [⟨"code", .none⟩, ⟨"rank", .db⟩] (fun _ => 7) [5, 0] = [5, 7] := by decide

/-- GENERATED NON-INTEGER KEYS without RETURNING, the negation of finding F25's pattern: the LastInsertId back-fill of a
    single record (create.go:182-186, guarded only by `PrioritizedPrimaryField.HasDefaultValue`) hands a zero-key record
    the key of its row whenever the key the database generated for the row IS the insert id the driver reports (an
    auto-increment integer key); preset keys are kept. -/
theorem C03_backfill_generated_key_partial (k rowKey lastId : Int) (h : if k = 0 then rowKey = lastId else rowKey = k) :
    backfillOne k lastId = rowKey := by
  unfold backfillOne
  by_cases hk : k = 0
  · rw [if_pos hk] at h ⊢; exact h.symm
  · rw [if_neg hk] at h ⊢; exact h.symm

/-- FINDING F25 (kernel-checked witness, the UNREPAIRED guard: `guardKind = false`): no RETURNING, the key is a string
    produced by a DB expression (row key 465751923; `hasDefault`, not auto-increment, not an integer type), the driver
    reports insert id 1 (SQLite's rowid): the guard passes on `HasDefaultValue` alone and the record receives key 1 — not
    the key of the row that stores it. -/
theorem C03_backfill_generated_key_counterexample :
    backfillGuard false true false false = true ∧
    createBackfill false true true false false 1 [0] ⟨1, some 1⟩ = [1] ∧ backfillOne 0 1 = 1 ∧ (1 : Int) ≠ 465751923 := by decide

/-- GENERATED NON-INTEGER KEYS without RETURNING, FULL STRENGTH for the repaired guard (`guardKind = true`, create.go asks for
    `AutoIncrement` or an integer data type): for a key the insert id cannot stand for, the back-fill writes NOTHING —
    whatever the driver reports, for every slice, loop direction and increment.  So (second part) with `rowKeys` the keys
    of the rows that store the records (a preset key is stored as is), every record carries either the key of its row or
    the untouched zero (without RETURNING gorm has no channel to learn a generated non-integer key — the stated
    latitude); it never carries another value. -/
theorem C03_backfill_generated_key (reversed hasDefault : Bool) (inc : Int) (ks : List Key) (r : ExecResult) :
    createBackfill true reversed hasDefault false false inc ks r = ks ∧
    ∀ (rowKeys : List Key), (∀ (i : Nat) (k : Key), ks[i]? = some k → k ≠ 0 → rowKeys[i]? = some k) →
      ∀ (i : Nat) (k : Key), (createBackfill true reversed hasDefault false false inc ks r)[i]? = some k →
        k = 0 ∨ rowKeys[i]? = some k := by
  have e : createBackfill true reversed hasDefault false false inc ks r = ks := by
    have hg : backfillGuard true hasDefault false false = false := by cases hasDefault <;> rfl
    rw [createBackfill, hg, createBackfillSlice]
    split
    · rfl
    · split
      · rfl
      · split
        · rfl
        · simp
  refine ⟨e, fun rowKeys hrows i k hk => ?_⟩
  rw [e] at hk
  by_cases h0 : k = 0
  · exact Or.inl h0
  · exact Or.inr (hrows i k hk h0)

/-- … and the repaired guard changes nothing for the keys the insert id DOES stand for (auto-increment, or integer data
    type): there both guards are the old `HasDefaultValue` test, so the theorems above about `createSlice` /
    `createInBatches` (stated for an auto-increment integer key) hold on either tree. -/
theorem C03_backfill_guard_id_keys (guardKind hasDefault autoInc intType : Bool) (h : autoInc = true ∨ intType = true) :
    backfillGuard guardKind hasDefault autoInc intType = hasDefault := by
  rcases h with h | h <;> subst h <;> cases guardKind <;> cases hasDefault <;> simp [backfillGuard]

/-- the guard of the tree that is being verified (regenerated fact `Gen.backfillGuardsKeyKind`, extract/gen_c03.go): EITHER
    it asks for a key the insert id can stand for and the full-strength theorem holds for it, OR it is the guard that tests
    `HasDefaultValue` only and the listed witness of F25 receives insert id 1. -/
theorem C03_backfill_generated_key_current_tree :
    (Gen.backfillGuardsKeyKind = true ∧
      ∀ (reversed hasDefault : Bool) (inc : Int) (ks : List Key) (r : ExecResult),
        createBackfill Gen.backfillGuardsKeyKind reversed hasDefault false false inc ks r = ks) ∨
    (Gen.backfillGuardsKeyKind = false ∧
      createBackfill Gen.backfillGuardsKeyKind true true false false 1 [0] ⟨1, some 1⟩ = [1]) := by
  cases hg : Gen.backfillGuardsKeyKind with
  | true => exact Or.inl ⟨rfl, fun rev hd inc ks r => (C03_backfill_generated_key rev hd inc ks r).1⟩
  | false => exact Or.inr ⟨rfl, by decide⟩

/-- FINDING F26 (kernel-checked witness, the UNREPAIRED map loop: `skipPreset = false`): no RETURNING,
    `Create(&[]map{{"id":100001,…},{"id":100011,…}})` through a model with an auto-increment key: the rows keep the preset
    keys (100001, 100011), LastInsertId is 100011, and the map loop (create.go:128-147) hands out 100010, 100011 — map 0
    carries a key that is not its row's. -/
theorem C03_maps_preset_keys_counterexample :
    (dbInsert 0 [100001, 100011]).1 = [100001, 100011] ∧ lastRowId (dbInsert 0 [100001, 100011]).1 = some 100011 ∧
    backfillMaps false true [some 100001, some 100011] 100011 = [some 100010, some 100011] ∧
    (createMapsKeys false 0 [100001, 100011]).1 = [some 100010, some 100011] := by decide

/-- CREATE FROM A SLICE OF MAPS, no RETURNING, FULL STRENGTH for the repaired map loop (`skipPreset = true`): for every table
    state and every batch of maps that does not mix maps with and without a key (the mix is finding F9's pattern: the
    LastInsertId arithmetic itself) — in particular maps that ALL carry preset keys, the former pattern of F26 — every map
    carries the key of the row that stores it afterwards. -/
theorem C03_maps_backfill (m : Int) (hm : 0 ≤ m) (ks : List Key) (hmix : ¬ Mixed ks) :
    (createMapsKeys true m ks).1 = (createMapsKeys true m ks).2.1.map some ∧
    (createMapsKeys true m ks).2.1 = (dbInsert m ks).1 := by
  have h2 : (createMapsKeys true m ks).2.1 = (dbInsert m ks).1 := by simp [createMapsKeys]
  exact ⟨by rw [h2]; exact createMapsKeys_uniform m ks hm (not_mixed ks hmix), h2⟩

/-- the map loop of the tree that is being verified (regenerated fact `Gen.backfillMapsSkipPreset`): EITHER it leaves maps
    that carry a key alone and the full-strength theorem holds for it, OR it writes into every map and the listed witness
    of F26 ends with 100010 in the map whose row has key 100001. -/
theorem C03_maps_preset_keys_current_tree :
    (Gen.backfillMapsSkipPreset = true ∧
      ∀ (m : Int), 0 ≤ m → ∀ (ks : List Key), ¬ Mixed ks →
        (createMapsKeys Gen.backfillMapsSkipPreset m ks).1 = (dbInsert m ks).1.map some) ∨
    (Gen.backfillMapsSkipPreset = false ∧
      (createMapsKeys Gen.backfillMapsSkipPreset 0 [100001, 100011]).1 = [some 100010, some 100011] ∧
      (dbInsert 0 [100001, 100011]).1 = [100001, 100011]) := by
  cases hg : Gen.backfillMapsSkipPreset with
  | true => exact Or.inl ⟨rfl, fun m hm ks hmix => by rw [(C03_maps_backfill m hm ks hmix).1, (C03_maps_backfill m hm ks hmix).2]⟩
  | false => exact Or.inr ⟨rfl, by decide⟩

/-- the back-fill code the two facts are about was found by the extractor (they are not about nothing) -/
theorem C03_backfill_facts_found : Gen.backfillCreateFound = true ∧ Gen.backfillMapsLoopFound = true := by decide

/-! ### round 4: FIELD DECLARATIONS → the schema attributes the create path depends on (Model.SchemaAttrs:
    ParseTagSetting, ParseField, the schema-level steps of ParseWithSpecialTableName, Create's RETURNING / INSERT lists) -/

section Declarations
open Gorm.Attrs

/-- DATABASE DEFAULTS ARE ASKED BACK, WHATEVER THE WRITE PERMISSION.  For EVERY struct declaration (any tags, any
    embedding): a parsed field that is backed by a column, has a default and whose default gorm cannot turn into a Go
    value (`default:(expr)`, `default:null`, `autoIncrement`, …) is a member of `Schema.FieldsWithDefaultDBValue`, and its
    column is in the RETURNING list Create builds when the dialector supports RETURNING.  Nothing is assumed about
    `Creatable` / `Updatable` / `Readable`: a read-only (`->`), update-only (`<-:update`) or `<-:false` column with a
    database default is read back exactly like a writable one. -/
theorem C03_db_default_returned_any_permission (k : Bool) (d : Decl) (i : Nat) (f : AField)
    (hf : nth? (parseDecl k d).fields i = some f)
    (htyped : f.typed = true) (hdef : f.hasDefault = true) (hdb : f.defaultIface = none) :
    i ∈ (parseDecl k d).withDefaultDB ∧
    ∃ l, returningList true (parseDecl k d) = some l ∧ f.dbName ∈ l := by
  have hd : f.dbDefault = true := by simp [AField.dbDefault, htyped, hdef, hdb]
  have hi : i ∈ (parseDecl k d).withDefaultDB := defaultsStep_lists_dbDefault _ _ i f hf hd
  refine ⟨hi, withDefaultNames (parseDecl k d), ?_, ?_⟩
  · unfold returningList
    have hne : (parseDecl k d).withDefaultDB.isEmpty = false := by
      cases hw : (parseDecl k d).withDefaultDB with
      | nil => rw [hw] at hi; cases hi
      | cons a l => rfl
    simp [hne]
  · unfold withDefaultNames
    exact List.mem_filterMap.mpr ⟨i, hi, by rw [hf]; rfl⟩

/-- non-vacuity (the shape of the seeded fault class): `ID int64 column:parcel_no`, a READ-ONLY `Serial` with a
    DB-expression default, a writable `Batch` with the same default — both defaults and the key are asked back, the
    read-only column is not in the INSERT (with and without the repair of F28) -/
example (k : Bool) :
    let d : Decl := .leaf ⟨"ID", .int, "column:parcel_no", "id", false, false⟩
      (.leaf ⟨"Serial", .string, "->;default:(lower(hex(randomblob(6))))", "serial", false, false⟩
      (.leaf ⟨"Batch", .string, "default:(lower(hex(randomblob(6))))", "batch", false, false⟩ .nil))
    returningList true (parseDecl k d) = some ["serial", "batch", "parcel_no"] ∧
    insertColsA true (parseDecl k d) (fun _ => true) = ["batch", "parcel_no"] ∧
    (parseDecl k d).prioritized = some 0 := by cases k <;> decide

/-- THE FIELD NAMED `ID` IS THE KEY, WHATEVER ITS COLUMN IS CALLED.  For every list of parsed fields (top-level and
    embedded, any tags): if exactly one field carries the Go name `ID`, no field is tagged `primaryKey`, and no OTHER
    field owns a column spelled `id` / `ID` (nor is some field named `id`), then the schema-level steps make that field the
    prioritized primary field and the only primary field — its column name plays no role (`column:parcel_no`).  `k` = the
    regenerated fact `Gen.priorityNeedsColumn` (is the repair of F28 in the tree?): with the repair the field must HAVE a
    column (`hcol`), under whatever name. -/
theorem C03_id_field_is_key_any_column (k : Bool) (fs0 : List AField) (i : Nat) (f : AField)
    (hf : (nameCols fs0)[i]? = some f) (hname : f.name = "ID") (hcol : k = true → f.dbName ≠ "")
    (huniq : ∀ (j : Nat) (g : AField), (nameCols fs0)[j]? = some g → g.name = "ID" → j = i)
    (hnoid : ∀ (j : Nat) (g : AField), (nameCols fs0)[j]? = some g → g.name ≠ "id")
    (hcols : ∀ (j : Nat) (g : AField), (nameCols fs0)[j]? = some g → j ≠ i → g.dbName ≠ "id" ∧ g.dbName ≠ "ID")
    (hnopk : ∀ (j : Nat) (g : AField), (nameCols fs0)[j]? = some g → g.primaryKey = false) :
    (finish k fs0).prioritized = some i ∧ (finish k fs0).primaryFields = [i] := by
  obtain ⟨h1, h2, _⟩ := prioritize_id_field k (nameCols fs0) i f hf hname hcol huniq hnoid hcols hnopk
  exact ⟨h1, h2⟩

/-- … and when that key is backed by a column (it does not carry `-`: the negation of finding F28's pattern), is of an
    integer kind and has no `autoIncrement` tag, it is a database-generated key: `HasDefaultValue` / `AutoIncrement` are
    inferred and the key is in `FieldsWithDefaultDBValue`, hence its column — under whatever name — is in Create's
    RETURNING list. -/
theorem C03_id_key_returned_partial (k : Bool) (fs0 : List AField) (i : Nat) (f : AField)
    (hf : (nameCols fs0)[i]? = some f) (hname : f.name = "ID") (hcol : k = true → f.dbName ≠ "")
    (huniq : ∀ (j : Nat) (g : AField), (nameCols fs0)[j]? = some g → g.name = "ID" → j = i)
    (hnoid : ∀ (j : Nat) (g : AField), (nameCols fs0)[j]? = some g → g.name ≠ "id")
    (hcols : ∀ (j : Nat) (g : AField), (nameCols fs0)[j]? = some g → j ≠ i → g.dbName ≠ "id" ∧ g.dbName ≠ "ID")
    (hnopk : ∀ (j : Nat) (g : AField), (nameCols fs0)[j]? = some g → g.primaryKey = false)
    (htyped : f.typed = true) (hint : f.gormDT = .int ∨ f.gormDT = .uint) (hnotag : hasTag f.tags "AUTOINCREMENT" = false) :
    i ∈ (finish k fs0).withDefaultDB ∧
    nth? (finish k fs0).fields i = some { f with primaryKey := true, hasDefault := true, autoInc := true } ∧
    ∃ l, returningList true (finish k fs0) = some l ∧ f.dbName ∈ l := by
  obtain ⟨h1, _, h3⟩ := prioritize_id_field k (nameCols fs0) i f hf hname hcol huniq hnoid hcols hnopk
  have hn : nth? (nameCols fs0) i = some f := by rw [nth?_eq_getElem?]; exact hf
  have hn' : nth? (setNth (nameCols fs0) i { f with primaryKey := true }) i = some { f with primaryKey := true } := by
    rw [nth?_setNth]; simp [hn]
  obtain ⟨hm, hfield⟩ := defaultsStep_lists_int_key _ i { f with primaryKey := true } hn' htyped hint hnotag
  have hfin : (finish k fs0).withDefaultDB =
      (defaultsStep (setNth (nameCols fs0) i { f with primaryKey := true }) (some i)).2 := by
    show (defaultsStep _ _).2 = _
    rw [h3, h1]
  have hfin2 : (finish k fs0).fields =
      (defaultsStep (setNth (nameCols fs0) i { f with primaryKey := true }) (some i)).1 := by
    show (defaultsStep _ _).1 = _
    rw [h3, h1]
  have hi : i ∈ (finish k fs0).withDefaultDB := by rw [hfin]; exact hm
  have hfld : nth? (finish k fs0).fields i = some { f with primaryKey := true, hasDefault := true, autoInc := true } := by
    rw [hfin2]; exact hfield
  refine ⟨hi, hfld, withDefaultNames (finish k fs0), ?_, ?_⟩
  · unfold returningList
    have hne : (finish k fs0).withDefaultDB.isEmpty = false := by
      cases hw : (finish k fs0).withDefaultDB with
      | nil => rw [hw] at hi; cases hi
      | cons a l => rfl
    simp [hne]
  · unfold withDefaultNames
    exact List.mem_filterMap.mpr ⟨i, hi, by rw [hfld]; rfl⟩

/-- finding F28 (reproduced on the unchanged tree: AutoMigrate and Create fail with a syntax error) — the model of the
    UNREPAIRED conventional-key block (`needCol = false`): the hypothesis "backed by a column" is needed — an IGNORED field
    named `ID` (`gorm:"-"`) is still made the prioritized primary key and is listed in `FieldsWithDefaultDBValue` with an
    EMPTY column name, which Create puts into RETURNING. -/
theorem C03_ignored_id_counterexample :
    let d : Decl := .leaf ⟨"ID", .int, "-", "id", false, false⟩ (.leaf ⟨"Name", .string, "", "name", false, false⟩ .nil)
    (parseDecl false d).prioritized = some 0 ∧ (parseDecl false d).primaryFields = [0] ∧
    ((nth? (parseDecl false d).fields 0).map (fun f => (f.typed, f.dbName))) = some (false, "") ∧
    returningList true (parseDecl false d) = some [""] := by decide

/-- FULL STRENGTH, F28 repaired (`needCol = true`: the conventional-key block demands `DBName != ""`, fixes/F28-C03-…patch):
    for EVERY list of parsed fields — any tags, any embedding, any key convention — the prioritized primary field, when
    there is one, is backed by a column: Create's RETURNING, the LastInsertId back-fill and AutoMigrate's PRIMARY KEY clause
    are never built around an empty column name.  No hypothesis about `-` is left. -/
theorem C03_prioritized_key_has_column (fs0 : List AField) (i : Nat)
    (h : (finish true fs0).prioritized = some i) :
    ∃ f, nth? (finish true fs0).fields i = some f ∧ f.dbName ≠ "" := by
  have hprims : ∀ j ∈ primsFrom (nameCols fs0) 0 (nameCols fs0) {} [], hasColumn (nameCols fs0) j = true :=
    primsFrom_cols (nameCols fs0) (nameCols fs0) 0 {} [] (fun k f hk => by simpa using hk) (fun j hj => by cases hj)
  have hc := prioritize_has_column (nameCols fs0) (parseReg ((nameCols fs0).map toPField)) _ hprims i h
  have hc2 : hasColumn (finish true fs0).fields i = true := by
    show hasColumn (defaultsStep _ _).1 i = true
    rw [hasColumn_defaultsStep]; exact hc
  unfold hasColumn at hc2
  cases hn : nth? (finish true fs0).fields i with
  | none => rw [hn] at hc2; cases hc2
  | some f => rw [hn] at hc2; exact ⟨f, rfl, by simpa using hc2⟩

/-- … and the former witness: with the repair, a model whose only `ID` is ignored has NO primary key, as if the field did
    not exist — nothing is asked back, the INSERT lists the remaining column -/
theorem C03_ignored_id_repaired :
    let d : Decl := .leaf ⟨"ID", .int, "-", "id", false, false⟩ (.leaf ⟨"Name", .string, "", "name", false, false⟩ .nil)
    (parseDecl true d).prioritized = none ∧ (parseDecl true d).primaryFields = [] ∧
    returningList true (parseDecl true d) = none ∧
    insertColsA true (parseDecl true d) (fun _ => false) = ["name"] ∧
    (parseDecl true d).dbNames = ["name"] := by decide

/-- F28 on the tree under check (regenerated fact `Gen.priorityNeedsColumn`, extract/gen_c03_schema.go; the `attrs`
    correspondence suite judges on every run that the code behaves like the transcription the fact selects): EITHER the
    conventional-key block demands a column and the prioritized primary field of every schema has one, OR it does not and
    the witness of finding F28 gets a key without column that Create asks back as RETURNING `` -/
theorem C03_ignored_id_current_tree :
    (Gen.priorityNeedsColumn = true ∧
      ∀ (fs0 : List AField) (i : Nat), (finish Gen.priorityNeedsColumn fs0).prioritized = some i →
        ∃ f, nth? (finish Gen.priorityNeedsColumn fs0).fields i = some f ∧ f.dbName ≠ "") ∨
    (Gen.priorityNeedsColumn = false ∧
      let d : Decl := .leaf ⟨"ID", .int, "-", "id", false, false⟩ (.leaf ⟨"Name", .string, "", "name", false, false⟩ .nil)
      (parseDecl Gen.priorityNeedsColumn d).prioritized = some 0 ∧
      returningList true (parseDecl Gen.priorityNeedsColumn d) = some [""]) := by
  cases hg : Gen.priorityNeedsColumn with
  | true => exact Or.inl ⟨rfl, fun fs0 i h => C03_prioritized_key_has_column fs0 i h⟩
  | false => exact Or.inr ⟨rfl, by decide⟩

/-- EVERY COLUMN THE DATABASE FILLS IS READ BACK — partial: for every declaration, a column-backed field with a default
    either is in `FieldsWithDefaultDBValue` (asked back with RETURNING) or has a LITERAL default and the create
    permission (gorm writes the literal itself, Model.Scan section x) — provided no field combines a literal default with
    a MISSING create permission (the negation of finding F27's pattern). -/
theorem C03_default_column_read_back_partial (k : Bool) (d : Decl) (i : Nat) (f : AField)
    (hf : nth? (parseDecl k d).fields i = some f) (htyped : f.typed = true) (hdef : f.hasDefault = true)
    (hno27 : f.defaultIface.isSome = true → f.creatable = true) :
    i ∈ (parseDecl k d).withDefaultDB ∨ (f.defaultIface.isSome = true ∧ f.creatable = true) := by
  cases hi : f.defaultIface with
  | none => exact Or.inl (C03_db_default_returned_any_permission k d i f hf htyped hdef hi).1
  | some v => exact Or.inr ⟨rfl, hno27 (by rw [hi]; rfl)⟩

/-- finding F27 (reproduced on the unchanged tree): `V int64 gorm:"->;default:42"` — the literal default makes `V` no
    member of `FieldsWithDefaultDBValue`, the missing create permission keeps it out of the INSERT (struct and slice, zero
    or not): the database applies DEFAULT 42 to the row, Create neither writes 42 into the record nor asks the column
    back, the in-memory record keeps 0. -/
theorem C03_readonly_literal_default_counterexample (k : Bool) :
    let d : Decl := .leaf ⟨"ID", .uint, "", "id", false, false⟩
      (.leaf ⟨"V", .int, "->;default:42", "v", false, false⟩ (.leaf ⟨"Payload", .string, "", "payload", false, false⟩ .nil))
    returningList true (parseDecl k d) = some ["id"] ∧
    insertColsA true (parseDecl k d) (fun _ => false) = ["payload"] ∧
    insertColsA false (parseDecl k d) (fun _ => true) = ["payload", "id"] ∧
    ((owner? (parseDecl k d) "v").map (fun f => (f.typed, f.readable, f.creatable, f.hasDefault, f.defaultIface))) =
      some (true, true, false, true, some (.int 42)) := by cases k <;> decide

/-- non-vacuity of the partial theorem / what the repair direction looks like: with a DB-EXPRESSION default the same
    read-only field IS asked back -/
example (k : Bool) :
    let d : Decl := .leaf ⟨"ID", .uint, "", "id", false, false⟩ (.leaf ⟨"V", .int, "->;default:(abs(-7))", "v", false, false⟩ .nil)
    returningList true (parseDecl k d) = some ["v", "id"] := by cases k <;> decide

/-- tag parsing details the attributes depend on: keys are case-insensitive, `\;` escapes the separator, a bare key is
    its own value, `primaryKey:false` is no key, the `<-` value is matched case-sensitively -/
example : parseTagSetting "PrimaryKey;column:a\\;b; default : x:y" = [("PRIMARYKEY", "PRIMARYKEY"), ("COLUMN", "a;b"), ("DEFAULT", " x:y")] := by decide
example : (parseField ⟨"Code", .int, "primaryKey:false;<-:Create", "code", false, false⟩).primaryKey = false ∧
    (parseField ⟨"Code", .int, "primaryKey:false;<-:Create", "code", false, false⟩).creatable = false := by decide

/-- THE TWO SOURCE PLACES THE THEOREMS ABOVE ARE ABOUT ARE WHAT THE MODEL TRANSCRIBES (regenerated from schema/schema.go on
    every run): the `if` that fills `FieldsWithDefaultDBValue` reads exactly DataType / HasDefaultValue /
    DefaultValueInterface of the field — no permission (`AField.dbDefault`) — and the prioritized primary field is looked
    up with `LookUpField("id")`, then `LookUpField("ID")`, i.e. column names first and Go FIELD names second
    (`keyCandidate`). -/
theorem C03_schema_decl_facts :
    Gen.defaultDBLoopFound = true ∧
    Gen.defaultDBCondReads = ["DataType", "DefaultValueInterface", "HasDefaultValue"] ∧
    (∀ p ∈ ["Creatable", "Updatable", "Readable"], p ∉ Gen.defaultDBCondReads) ∧
    Gen.priorityLookups = ["schema.LookUpField(\"id\")", "schema.LookUpField(\"ID\")"] := by decide

end Declarations

/-! ## Round 5: Create from MAPS (callbacks/helper.go) and the built-in serializers (schema/serializer.go) -/
section MapsAndSerializers
open Gorm.Attrs Gorm.Ser

private theorem mem_insertEnt {V : Type} (x y : String × V) (l : List (String × V)) : y ∈ insertEnt x l ↔ y = x ∨ y ∈ l := by
  induction l with
  | nil => simp [insertEnt]
  | cons z l ih =>
    unfold insertEnt
    split
    · simp
    · simp [ih]; constructor
      · rintro (h | h | h) <;> simp [h]
      · rintro (h | h | h) <;> simp [h]

private theorem mem_sortEnts {V : Type} (y : String × V) (l : List (String × V)) : y ∈ sortEnts l ↔ y ∈ l := by
  induction l with
  | nil => simp [sortEnts]
  | cons x l ih => simp [sortEnts, mem_insertEnt, ih]

private theorem length_insertEnt {V : Type} (x : String × V) (l : List (String × V)) : (insertEnt x l).length = l.length + 1 := by
  induction l with
  | nil => simp [insertEnt]
  | cons z l ih => unfold insertEnt; split <;> simp [ih]

private theorem length_sortEnts {V : Type} (l : List (String × V)) : (sortEnts l).length = l.length := by
  induction l with
  | nil => simp [sortEnts]
  | cons x l ih => simp [sortEnts, length_insertEnt, ih]

private theorem mem_insertStr (x y : String) (l : List String) : y ∈ insertStr x l ↔ y = x ∨ y ∈ l := by
  induction l with
  | nil => simp [insertStr]
  | cons z l ih =>
    unfold insertStr
    split
    · simp
    · simp [ih]; constructor
      · rintro (h | h | h) <;> simp [h]
      · rintro (h | h | h) <;> simp [h]

private theorem mem_sortStrings (y : String) (l : List String) : y ∈ sortStrings l ↔ y ∈ l := by
  induction l with
  | nil => simp [sortStrings]
  | cons x l ih => simp [sortStrings, mem_insertStr, ih]

/-- A GIVEN KEY IS WRITTEN AS GIVEN (one map, with or without model, any Select / Omit): every entry of the map whose
    column may be written appears in the INSERT under that column WITH THE VALUE THE MAP HOLDS — for every value `v` of
    the (opaque) alphabet, i.e. also for an untyped nil, a typed nil pointer and every zero: the conversion never looks at
    the value, so nothing is dropped or replaced by the column's DEFAULT. -/
theorem C03_map_create_writes_given {V : Type} (s : Option SchemaAttrs) (sel om : List String) (m : List (String × V))
    (k : String) (v : V) (h : (k, v) ∈ m) (ha : mapColAllowed s sel om (mapKeyCol s k) = true) :
    (mapKeyCol s k, v) ∈ mapCreateOne s sel om m := by
  unfold mapCreateOne
  rw [List.mem_filterMap]
  exact ⟨(k, v), (mem_sortEnts _ _).2 h, by simp [ha]⟩

/-- … AND ONLY GIVEN KEYS ARE WRITTEN: a column of the INSERT stands for a key the map holds, with that key's value —
    a column whose key is MISSING from the map is not mentioned, so the database applies the column's DEFAULT. -/
theorem C03_map_create_only_given {V : Type} (s : Option SchemaAttrs) (sel om : List String) (m : List (String × V))
    (c : String) (v : V) (h : (c, v) ∈ mapCreateOne s sel om m) :
    ∃ k, (k, v) ∈ m ∧ c = mapKeyCol s k ∧ mapColAllowed s sel om c = true := by
  unfold mapCreateOne at h
  rw [List.mem_filterMap] at h
  obtain ⟨⟨k, w⟩, hm, hf⟩ := h
  by_cases ha : mapColAllowed s sel om (mapKeyCol s k) = true
  · simp [ha] at hf
    exact ⟨k, by rw [← hf.2]; exact (mem_sortEnts _ _).1 hm, hf.1.symm, by rw [← hf.1]; exact ha⟩
  · simp [ha] at hf

/-- NIL IS A VALUE: with `none` standing for Go's untyped nil, an explicit nil entry is bound under its column (NULL is
    stored, whatever DEFAULT the column has), and through `Table("t")` alone NO entry of the map is dropped at all. -/
theorem C03_map_create_nil_written {α : Type} (s : Option SchemaAttrs) (sel om : List String) (m : List (String × Option α)) :
    (∀ k, (k, none) ∈ m → mapColAllowed s sel om (mapKeyCol s k) = true → (mapKeyCol s k, none) ∈ mapCreateOne s sel om m) ∧
    (mapCreateOne none [] [] m).length = m.length := by
  refine ⟨fun k h ha => C03_map_create_writes_given s sel om m k none h ha, ?_⟩
  unfold mapCreateOne
  have : ∀ l : List (String × Option α), (l.filterMap (fun e =>
      let c := mapKeyCol none e.1
      if mapColAllowed none [] [] c then some (c, e.2) else none)).length = l.length := by
    intro l
    induction l with
    | nil => rfl
    | cons x l ih => simp [mapColAllowed, List.filterMap_cons, ih]
  rw [this, length_sortEnts]

/-- SLICES OF MAPS: an entry of an element whose column may be written makes that column part of the INSERT, and the
    element's VALUES row holds the entry's value under it — again for every value, nil included (hypothesis: no other key
    of the same element is written to the same column; Go would pick one of them in map-iteration order). -/
theorem C03_maps_create_writes_given {V : Type} (s : Option SchemaAttrs) (sel om : List String) (ms : List (List (String × V)))
    (m : List (String × V)) (hm : m ∈ ms) (k : String) (v : V) (h : (k, v) ∈ m)
    (ha : mapColAllowed s sel om (mapKeyCol s k) = true)
    (hinj : ∀ e ∈ m, mapKeyCol s e.1 = mapKeyCol s k → e = (k, v)) :
    mapKeyCol s k ∈ mapCreateCols s sel om ms ∧
    (m.find? (fun e => mapKeyCol s e.1 == mapKeyCol s k)).map (·.2) = some v := by
  constructor
  · unfold mapCreateCols
    rw [mem_sortStrings, List.mem_eraseDups, List.mem_filter]
    refine ⟨?_, ha⟩
    rw [List.mem_flatten]
    exact ⟨m.map (fun e => mapKeyCol s e.1), List.mem_map.2 ⟨m, hm, rfl⟩, List.mem_map.2 ⟨(k, v), h, rfl⟩⟩
  · clear hm
    induction m with
    | nil => cases h
    | cons x l ih =>
      by_cases hx : mapKeyCol s x.1 = mapKeyCol s k
      · have := hinj x (by simp) hx
        simp [List.find?_cons, this]
      · have hx' : (mapKeyCol s x.1 == mapKeyCol s k) = false := by simp [hx]
        simp only [List.find?_cons, hx']
        have hk : (k, v) ∈ l := by
          rcases List.mem_cons.1 h with h | h
          · exact absurd (by rw [← h]) hx
          · exact h
        exact ih hk (fun e he => hinj e (List.mem_cons_of_mem _ he))

/-- `serializer:unixtime`, Create → First into a fresh struct: EVERY field value comes back — plain integers incl. 0 and
    negatives, nil pointers, and POINTERS TO ZERO (the epoch is a value, not an absent one). -/
theorem C03_unixtime_roundtrip (f : UField) : unixRoundTrip f = some f := by
  cases f with
  | val n => rfl
  | ptr p => cases p <;> rfl

/-- … because NULL is written for the nil POINTER and for nothing else: the pointee is never inspected. -/
theorem C03_unixtime_null_iff_nil_pointer (f : UField) : unixValue f = .null ↔ f = .ptr none := by
  cases f with
  | val n => simp [unixValue]
  | ptr p => cases p <;> simp [unixValue]

/-- `serializer:json`, Create → First into a fresh struct, for ANY codec that decodes what it encodes: the value comes
    back provided `null` is the encoding of the type's zero value only (nil pointer / slice / map) and no encoding is
    empty — `[]`, `{}`, `""`, `0` are not `null`, so empty-but-non-nil values and pointers to zero stay what they are;
    under NOT NULL the `null` is stored as '' and read back as the zero value all the same. -/
theorem C03_json_roundtrip {α : Type} (c : Codec α) (zero : α) (notNull : Bool) (v : α)
    (hdec : c.dec (c.enc v) = some v) (hnull : c.enc v = "null" → v = zero) (hne : c.enc v ≠ "") :
    jsonRoundTrip c zero notNull v = some v := by
  unfold jsonRoundTrip jsonValue
  by_cases h : c.enc v = "null"
  · have hv := hnull h
    subst hv
    cases notNull <;> simp [h, jsonScan]
  · have : (c.enc v).isEmpty = false := by
      cases hh : (c.enc v).isEmpty
      · rfl
      · exact absurd (String.isEmpty_iff.1 hh) hne
    simp [h, jsonScan, this, hdec]

/-- Scan of the json / gob serializers ASSIGNS the zero value for NULL and for empty bytes: a destination that held an
    earlier row's value does not keep it. -/
theorem C03_serializer_scan_overwrites :
    jsonScan .null = .zero ∧ jsonScan (.text "") = .zero ∧ jsonScan (.blob []) = .zero ∧
    gobScan .null = .zero ∧ gobScan (.blob []) = .zero := by decide

end MapsAndSerializers

/-! ## Round 6 — the key a DESTINATION carries (callbacks/query.go `BuildQuerySQL`)

`First/Take/Last/Find(&T{key…})`: when the destination is a struct of the model's type, BuildQuerySQL turns the key values
it carries into conditions.  Transcription: one equality per member of `Schema.PrimaryFields` (ALL of them, in that order)
whose value is non-zero (`0` stands for the zero value), ANDed in one `clause.Where`; nothing when every part is zero.
The model is Model/DestKey.lean (`destKeyConds`, `rowMatches`), compared with the WHERE clause of real DryRun statements by
the `destkey` correspondence suite; the regenerated facts `Gen.destKey*` (extract/gen_c03_r6.go) pin the block to this
shape; the `keyed` e2e suite judges the behaviour on composite keys whose members are shared by several rows. -/
section DestKey

/-- every NON-ZERO part the destination carries is demanded of the row that is loaded (zero parts are ignored) -/
theorem C03_dest_key_nonzero_parts (key : List (String × Nat)) (row : String → Nat)
    (hm : rowMatches row (destKeyConds key) = true) : ∀ p ∈ key, p.2 ≠ 0 → row p.1 = p.2 := by
  intro p hp hne
  have hmem : p ∈ destKeyConds key := by
    unfold destKeyConds
    exact List.mem_filter.2 ⟨hp, by simpa using hne⟩
  have h := List.all_eq_true.1 hm p hmem
  simpa using h

/-- a destination carrying a COMPLETE key (no zero part) can only load a row that has exactly this key — whatever the
    number of members, whichever of them is the prioritized one -/
theorem C03_dest_key_identifies_row (key : List (String × Nat)) (row : String → Nat)
    (hnz : ∀ p ∈ key, p.2 ≠ 0) (hm : rowMatches row (destKeyConds key) = true) : ∀ p ∈ key, row p.1 = p.2 :=
  fun p hp => C03_dest_key_nonzero_parts key row hm p hp (hnz p hp)

/-- hence two rows a complete key can load agree on every key column: with a primary-key constraint they are one row -/
theorem C03_dest_key_unique (key : List (String × Nat)) (r1 r2 : String → Nat) (hnz : ∀ p ∈ key, p.2 ≠ 0)
    (h1 : rowMatches r1 (destKeyConds key) = true) (h2 : rowMatches r2 (destKeyConds key) = true) :
    ∀ p ∈ key, r1 p.1 = r2 p.1 := by
  intro p hp
  rw [C03_dest_key_identifies_row key r1 hnz h1 p hp, C03_dest_key_identifies_row key r2 hnz h2 p hp]

/-- the row stored under the carried key is always admitted (the conditions never exclude the record itself) -/
theorem C03_dest_key_admits_own_row (key : List (String × Nat)) (row : String → Nat)
    (hrow : ∀ p ∈ key, p.2 ≠ 0 → row p.1 = p.2) : rowMatches row (destKeyConds key) = true := by
  unfold rowMatches
  apply List.all_eq_true.2
  intro c hc
  have hc' := List.mem_filter.1 hc
  have hne : c.2 ≠ 0 := by simpa using hc'.2
  simpa using hrow c hc'.1 hne

/-- the tree under check has the transcribed shape: ONE destination-key block, ranging over `Schema.PrimaryFields` only,
    no early exit from the loop, a part becomes a condition iff it is non-zero, the condition is an equality on the member's
    own column, and the conditions are added as one ANDed WHERE whenever there is at least one -/
theorem C03_dest_key_block_facts :
    Gen.destKeyBlocks = 1 ∧ Gen.destKeyRanges = ["db.Statement.Schema.PrimaryFields"] ∧ Gen.destKeyLoopExits = false ∧
    Gen.destKeyPartGuards = ["!isZero"] ∧
    Gen.destKeyAppends = ["clause.Eq{Column:clause.Column{Table:db.Statement.Table,Name:primaryField.DBName},Value:v}"] ∧
    Gen.destKeyGuards = ["len(conds)>0"] ∧ Gen.destKeyClauses = ["clause.Where{Exprs:conds}"] := by decide

/-- non-vacuity: the wave-6 witness — key (id, locale) = (1, 2) against rows (1,1) and (1,2) -/
example : rowMatches (fun c => if c = "id" then 1 else 1) (destKeyConds [("id", 1), ("locale", 2)]) = false ∧
    rowMatches (fun c => if c = "id" then 1 else 2) (destKeyConds [("id", 1), ("locale", 2)]) = true ∧
    destKeyConds [("id", 1), ("locale", 0)] = [("id", 1)] := by decide

end DestKey

/-- non-vacuity (round 5): a map with an explicit nil for a column, created through Table("t"): the nil is bound; the
    json law's hypotheses hold for a toy codec -/
example : Attrs.mapCreateOne (V := Option Nat) none [] [] [("nick", none), ("id", some 7)] = [("id", some 7), ("nick", none)] := by decide
example : Attrs.mapCreateMany (V := Nat) none [] [] [[("b", 1)], [("a", 2), ("b", 3)]] = (["a", "b"], [[none, some 1], [some 2, some 3]]) := by decide
example : Ser.unixRoundTrip (.ptr (some 0)) = some (.ptr (some 0)) ∧ Ser.unixValue (.ptr (some 0)) = .time 0 := by decide

/-- non-vacuity: representable values exist at the boundaries; the partial theorem's hypothesis is satisfiable
    by non-trivial batches -/
example : representable { base := .int .w8 } (some (.int .i8 (-128))) = true := by decide
example : representable { base := .uint .w64, ptr := true } (some (.int .u64 9223372036854775807)) = true := by decide
example : ¬ Mixed [0, 0, 0] ∧ ¬ Mixed [7, 9] := by decide
example : (createMapsKeys true 5 [100001, 100011]).1 = [some 100001, some 100011] ∧ (createMapsKeys true 5 [0, 0]).1 = [some 6, some 7] := by decide
example : ∀ e ∈ [((0 : Key), some (5 : Key)), (9, none), (0, some 6)], (e.1 = 0 ↔ e.2.isSome = true) := by decide
/-- and out-of-width values are really changed by the setter (the hypothesis is needed) -/
example : setField { base := .int .w8 } none (.val false (.int .i64 300)) = .ok (some (.int .i8 44)) := by rfl

end Gorm
