/-
  C03 — what Create stores is what queries load back: the conversion core (`field.Set` ∘ load ∘ store ∘
  `field.ValueOf`), the primary-key back-fill after the INSERT and the `CreateInBatches` slicing.
-/
import GormModel.Model.Scan
import GormModel.Lemmas.Scan
namespace Gorm
open Gorm.Scan

/-- float32-exact patterns are never NaN -/
private theorem f32exact_not_nan (b : Nat) (h : isF32Exact b = true) : isNaN b = false := by
  unfold isF32Exact at h
  unfold isNaN
  generalize b / 2 ^ 52 % 2048 = e at *
  generalize b % 2 ^ 52 = m at *
  simp only [Bool.or_eq_true, Bool.and_eq_true, beq_iff_eq, decide_eq_true_eq] at h
  rcases h with ⟨he, _⟩ | ⟨⟨h1, h2⟩, _⟩
  · simp [he]
  · have : e ≠ 2047 := by omega
    simp [this]

/-- ROUND TRIP, every field kind (bool; signed/unsigned 8–64; float32/64; string; []byte; time.Time; a pointer
    to each; defined types over each), ALL representable values: the value `field.ValueOf` hands to the INSERT,
    stored and loaded back through the pooled `**T` scan destination and `field.Set` into a FRESH struct, is the
    original field value — in particular no arm truncates, re-signs, zeroes or nils a representable value. -/
theorem C03_roundtrip_kind (k : FKind) (fv : FVal) (h : representable k fv = true) :
    roundTrip k fv = .ok (.ok fv) := by
  obtain ⟨base, ptr, named, tu⟩ := k
  cases fv with
  | none =>
    cases ptr <;> cases named <;> cases base <;>
      simp_all [representable, roundTrip, valueOf, store, load, setField, setPP, setPtr, hasPPArm,
        FKind.zero, Base.zero, Base.ty]
  | some v =>
    cases base with
    | bool =>
      cases v <;> simp [representable, repVal] at h
      rename_i b
      cases ptr <;> cases named <;> cases b <;>
        simp_all [roundTrip, valueOf, store, storeVal, load, setField, setPP, setPtr, setVal, hasPPArm, fallbackVal,
          FKind.zero, Base.zero, Base.ty, Val.ty]
    | int w =>
      cases v <;> simp [representable, repVal] at h
      rename_i t n
      obtain ⟨⟨rfl, h1⟩, h2⟩ := h
      have hw := wrapS_id w n h1 h2
      have h64 : wrapS .w64 n = n := wrapS_id .w64 n (by have := half_le_half64 w; omega) (by have := half_le_half64 w; omega)
      have hu : (sTy w).isUnsigned = false := by cases w <;> rfl
      cases ptr <;> cases named <;> cases w <;>
        simp_all [roundTrip, valueOf, store, storeVal, load, setField, setPP, setPtr, setVal, hasPPArm, fallbackVal,
          FKind.zero, Base.zero, Base.ty, Val.ty, sTy]
    | uint w =>
      cases v <;> simp [representable, repVal] at h
      rename_i t n
      obtain ⟨⟨⟨rfl, h0⟩, h1⟩, h2⟩ := h
      have hw := wrapU_id w n h0 h1
      have h63 : ¬ (9223372036854775808 ≤ n) := by omega
      have hu : (uTy w).isUnsigned = true := by cases w <;> rfl
      have harm : ∀ tu, hasPPArm { base := .uint w, ptr := false, named := false, tu := tu } false (uTy w) = true := by
        intro tu; cases w <;> rfl
      have harm2 : ∀ p tu, hasPPArm { base := .uint w, ptr := p, named := false, tu := tu } true (uTy w) = false := by
        intro p tu; rfl
      have harm3 : ∀ n' tu, hasPPArm { base := .uint w, ptr := true, named := n', tu := tu } false (uTy w) = false := by
        intro n' tu; cases n' <;> rfl
      have harm4 : ∀ p n' tu, hasPPArm { base := .uint w, ptr := p, named := n', tu := tu } true (uTy w) = false := by
        intro p n' tu; rfl
      have hl : (0 ≤ n ∧ n < w.pow) := ⟨h0, h1⟩
      clear h0 h1 h2
      cases ptr <;> cases named <;>
        simp [roundTrip, valueOf, store, storeVal, load, setField, setPP, setPtr, setVal, fallbackVal,
          FKind.zero, Base.zero, Base.ty, Val.ty, hw, h63, hu, harm, harm2, harm3, harm4, hl]
    | float is32 =>
      cases is32 with
      | true =>
        cases v <;> simp [representable, repVal] at h
        rename_i t b
        obtain ⟨⟨rfl, hb⟩, hz⟩ := h
        have hn := f32exact_not_nan b hb
        cases ptr <;> cases named <;>
          simp_all [roundTrip, valueOf, store, storeVal, load, setField, setPP, setPtr, setVal, hasPPArm, fallbackVal,
            setFloat, FKind.zero, Base.zero, Base.ty, Val.ty]
      | false =>
        cases v <;> simp [representable, repVal] at h
        rename_i t b
        obtain ⟨⟨rfl, hb⟩, hz⟩ := h
        cases ptr <;> cases named <;>
          simp_all [roundTrip, valueOf, store, storeVal, load, setField, setPP, setPtr, setVal, hasPPArm, fallbackVal,
            setFloat, FKind.zero, Base.zero, Base.ty, Val.ty]
    | string =>
      cases v <;> simp [representable, repVal] at h
      cases ptr <;> cases named <;>
        simp [roundTrip, valueOf, store, storeVal, load, setField, setPP, setPtr, setVal, hasPPArm, fallbackVal,
          FKind.zero, Base.zero, Base.ty, Val.ty]
    | bytes =>
      cases v <;> simp [representable, repVal] at h
      rename_i s
      cases s <;> cases ptr <;> cases named <;>
        simp_all [roundTrip, valueOf, store, storeVal, load, setField, setPP, setPtr, setVal, hasPPArm, fallbackVal,
          FKind.zero, Base.zero, Base.ty, Val.ty]
    | time =>
      cases v <;> simp [representable, repVal] at h
      cases ptr <;> cases named <;>
        simp_all [roundTrip, valueOf, store, storeVal, load, setField, setPP, setPtr, setVal, hasPPArm, fallbackVal,
          FKind.zero, Base.zero, Base.ty, Val.ty, convertTo]

/-- what `SetInt`/`SetUint` leave in an N-bit field always fits N bits, whatever 64-bit value arrives, and is the
    value itself whenever that fits (no arm can store an out-of-width integer) -/
theorem C03_set_width (w : W) (x : Int) :
    (-w.half ≤ wrapS w x ∧ wrapS w x < w.half) ∧ (0 ≤ wrapU w x ∧ wrapU w x < w.pow) ∧
    (-w.half ≤ x → x < w.half → wrapS w x = x) ∧ (0 ≤ x → x < w.pow → wrapU w x = x) :=
  ⟨wrapS_range w x, wrapU_range w x, wrapS_id w x, wrapU_id w x⟩

/-- NULL into a fresh destination: every kind ends with its zero value (nil for pointers and []byte), whether
    the arm keeps the field (`**T` nil ⇒ untouched) or zeroes it (fallbackSetter) -/
theorem C03_null_fresh (k : FKind) : (load k .null).map (setField k k.zero) = .ok (.ok k.zero) := by
  obtain ⟨base, ptr, named, tu⟩ := k
  cases ptr <;> cases named <;> cases base <;>
    simp [load, setField, setPP, setPtr, hasPPArm, FKind.zero, Base.zero, Base.ty, Except.map]

/-- BACK-FILL WITH RETURNING: for every table state, every slice (any mix of zero and preset keys), every batch
    size > 0, `CreateInBatches` leaves in element i exactly the key of the i-th inserted row, and batching does
    not change which rows are written. -/
theorem C03_backfill_returning (m : Int) (ks : List Key) (b : Nat) (hb : 0 < b) :
    (createInBatches true m ks b).1 = (createInBatches true m ks b).2.1 ∧
    (createInBatches true m ks b).2.1 = (dbInsert m ks).1 := by
  unfold createInBatches
  have hf : (batchSlices ks b).flatten = ks := by
    have := batchBounds_flatten ks b hb ks.length 0 (by omega)
    simpa [batchSlices] using this
  have := createBatchesAux_spec true (batchSlices ks b) m (fun s _ m' _ => (createSlice_returning m' s).1)
  rw [hf] at this
  rw [this.1, this.2]
  exact ⟨rfl, rfl⟩

/-- … element-wise form of the RETURNING scan (scan.go `ScanUpdate`): row j goes to element j -/
theorem C03_returning_row_to_element (ks rows : List Key) (i : Nat) (h : i < rows.length) (h2 : i < ks.length) :
    (scanUpdate ks rows)[i]? = rows[i]? := scanUpdate_get ks rows i h h2

/-- BACK-FILL FROM LastInsertId (no RETURNING, SQLite-like reversed loop): the same conclusion provided the
    batch does NOT mix zero-key and preset-key elements (negation of finding F9's pattern), the table's ids are
    positive and the database assigns consecutive ids. -/
theorem C03_backfill_lastid_partial (m : Int) (hm : 0 ≤ m) (ks : List Key) (b : Nat) (hb : 0 < b)
    (hmix : ¬ Mixed ks) :
    (createInBatches false m ks b).1 = (createInBatches false m ks b).2.1 ∧
    (createInBatches false m ks b).2.1 = (dbInsert m ks).1 := by
  unfold createInBatches
  have hf : (batchSlices ks b).flatten = ks := by
    have := batchBounds_flatten ks b hb ks.length 0 (by omega)
    simpa [batchSlices] using this
  have hsub : ∀ s ∈ batchSlices ks b, ∀ x ∈ s, x ∈ ks := by
    intro s hs x hx
    rw [← hf]
    exact List.mem_flatten.mpr ⟨s, hs, hx⟩
  have hslice : ∀ s ∈ batchSlices ks b, AllZero s ∨ AllPreset s := by
    intro s hs
    rcases not_mixed ks hmix with hz | hp
    · exact Or.inl (fun x hx => hz x (hsub s hs x hx))
    · exact Or.inr (fun x hx => hp x (hsub s hs x hx))
  have := createBatchesAux_spec false (batchSlices ks b) m
    (fun s hs m' hm' => (createSlice_lastid m' s (Int.le_trans hm hm') (hslice s hs)).1)
  rw [hf] at this
  rw [this.1, this.2]
  exact ⟨rfl, rfl⟩

/-- FINDING F9 (kernel-checked witness): no RETURNING, empty table, `Create(&[]U{{}, {ID:100}, {}})`: rows get
    ids 1,100,101 but the records in memory end up with 100,100,101 — record 0 carries the key of record 1's row. -/
theorem C03_backfill_mixed_counterexample :
    createSlice false 0 [0, 100, 0] = ([100, 100, 101], [1, 100, 101], 101) ∧ Mixed [0, 100, 0] := by
  decide

/-- CREATE FROM A SLICE OF MAPS, no RETURNING: every map receives the key of its own row (rows get m+1 … m+n) and
    the caller's slice keeps its length — the negation of finding F18's pattern (RETURNING-capable dialector) -/
theorem C03_maps_backfill_partial (returning ptrDest : Bool) (m : Int) (n : Nat) (h : returning = false) :
    createMaps returning ptrDest m n = some ((up (m + 1) n).map some, n) := by
  subst h
  simp only [createMaps, backfillMaps, Bool.false_eq_true, if_false, if_true, List.length_replicate]
  rw [backfillMaps_go_present]
  have e : m + (n : Int) - ((n : Int) - 1) = m + 1 := by omega
  rw [e]

/-- FINDING F18 (kernel-checked witness): with RETURNING, `Create(&[]map{…}{{…},{…}})` leaves both maps without
    a key and the caller's slice with 4 elements; by value the call fails -/
theorem C03_maps_returning_counterexample :
    createMaps true true 0 2 = some ([none, none], 4) ∧ createMaps true false 0 2 = none := by
  decide

/-- dialects whose LastInsertId is the FIRST generated id (forward loop, create.go:170): all-zero batches -/
theorem C03_backfill_forward (m : Int) (ks : List Key) (hz : AllZero ks) :
    backfillFwd 1 ks (m + 1) = (dbInsert m ks).1 := by
  rw [backfillFwd_zero _ _ hz, dbInsert_zero _ _ hz]

/-- `CreateInBatches` slices: concatenated in order they are the input, none is empty, none exceeds the batch
    size — for every slice and every batch size > 0 (nothing dropped, duplicated or reordered; the last partial
    batch included). -/
theorem C03_batches_partition {α : Type} (l : List α) (b : Nat) (hb : 0 < b) :
    (batchSlices l b).flatten = l ∧ ∀ s ∈ batchSlices l b, 0 < s.length ∧ s.length ≤ b := by
  constructor
  · have := batchBounds_flatten l b hb l.length 0 (by omega)
    simpa [batchSlices] using this
  · intro s hs
    simp only [batchSlices, List.mem_map] at hs
    obtain ⟨p, hp, rfl⟩ := hs
    have := batchBounds_sizes l.length b hb l.length 0 p hp
    simp only [List.length_take, List.length_drop]
    omega

/-- non-vacuity: representable values exist at the boundaries; the partial theorem's hypothesis is satisfiable
    by non-trivial batches -/
example : representable { base := .int .w8 } (some (.int .i8 (-128))) = true := by decide
example : representable { base := .uint .w64, ptr := true } (some (.int .u64 9223372036854775807)) = true := by decide
example : ¬ Mixed [0, 0, 0] ∧ ¬ Mixed [7, 9] := by decide
/-- and out-of-width values are really changed by the setter (the hypothesis is needed) -/
example : setField { base := .int .w8 } none (.val false (.int .i64 300)) = .ok (some (.int .i8 44)) := by rfl

end Gorm
